//! C17 — compile-time evaluation follows IEEE 1800 operator semantics.
//!
//! Engine E6 (differential enumeration, no state): every operator accepted by
//! `Op::eval_value_unary` / `Op::eval_value_binary` is called the way
//! `Expression::eval_value` calls it (operand `Value`s at their own width and signedness, the
//! `(width, signed)` pair derived by `gather_context`/`apply_context`) and the returned
//! `(payload, mask_xz, width, signed)` is compared with the reference model R1
//! (`vmc_refmodels::bits`).
//!
//!  A. widths {1..W}² (W = 3 quick, 4 thorough) × context widths up to 8 × signedness² ×
//!     context-signedness × ALL 4-state operand values (4^w each);
//!  B. corner alphabet (all pairs) at widths {31,32,33,63,64,65,127,128,129,255,256} and mixed
//!     with narrow operands;
//!  C. `Value::expand / trunc / select / concat` against R1 across the 64-bit representation
//!     switch;
//!  D. representation agreement: the same integer held as `U64` (width <= 64) and as `BigUint`
//!     (value-preserving extension to > 64 bits) gives the same result after truncation.
//!  E. whole expressions through the real analyzer pipeline (parse → `Conv` → `eval_comptime`):
//!     every single operator over literal operands (all 4-state values at widths 1..2) and
//!     two-operator compositions where the context width / signedness propagates. Three results
//!     are compared: the analyzer's, R1 applied to the tree by the rules of 11.6 / 11.8.2, and a
//!     harness-side replay of the tree that uses veryl's own `eval_value_*` with the IEEE call
//!     contexts — this validates the `(width, signed)` arguments used in parts A/B against what
//!     the analyzer really passes, and separates operator-level from context-level defects.

use crate::checks::gen_sim;
use crate::checks::gen_values::*;
use crate::core::*;
use serde_json::{Value as J, json};
use std::collections::BTreeMap;
use veryl_analyzer::value::{MaskCache, Value};
use vmc_refmodels::bits::{Bit, V};

const BIG_WIDTHS: [usize; 11] = [31, 32, 33, 63, 64, 65, 127, 128, 129, 255, 256];

#[derive(Clone, Debug)]
enum Blk {
    /// exhaustive 4-state values
    SmallB(BOp, usize, usize, bool, bool),
    SmallU(UOp, usize, bool),
    /// corner alphabets
    BigB(BOp, usize, usize, bool, bool),
    BigU(UOp, usize, bool),
    Prim(usize, usize),
    Repr(usize, usize),
    /// expressions through the analyzer
    Expr(Vec<ExprCase>),
}

#[derive(Clone, Debug)]
struct ExprCase {
    ex: Ex,
    leaves: Vec<V>,
    /// width contributed by the surrounding context (0 = none)
    ctx: usize,
}

#[derive(Default)]
struct Acc {
    evals: u64,
    nontrivial: u64,
    xz_cases: u64,
    eq_strict: u64,
    eq_lenient: u64,
    plus_all_x: u64,
    plus_same: u64,
    panics: u64,
    expr_total: u64,
    expr_agree_ieee: u64,
    expr_model_equal: u64,
    expr_model_differs_benign: u64,
    expr_masked_by_operator_finding: u64,
    expr_rejected: BTreeMap<String, u64>,
    machinery: Vec<String>,
    viol: BTreeMap<String, (u64, Violation)>,
    per_op: BTreeMap<String, u64>,
    sample: Option<J>,
}

impl Acc {
    fn merge(&mut self, o: Acc) {
        self.evals += o.evals;
        self.nontrivial += o.nontrivial;
        self.xz_cases += o.xz_cases;
        self.eq_strict += o.eq_strict;
        self.eq_lenient += o.eq_lenient;
        self.plus_all_x += o.plus_all_x;
        self.plus_same += o.plus_same;
        self.panics += o.panics;
        self.expr_total += o.expr_total;
        self.expr_agree_ieee += o.expr_agree_ieee;
        self.expr_model_equal += o.expr_model_equal;
        self.expr_model_differs_benign += o.expr_model_differs_benign;
        self.expr_masked_by_operator_finding += o.expr_masked_by_operator_finding;
        for (k, n) in o.expr_rejected {
            *self.expr_rejected.entry(k).or_insert(0) += n;
        }
        for m in o.machinery {
            if self.machinery.len() < 5 {
                self.machinery.push(m);
            }
        }
        for (k, (n, v)) in o.viol {
            let e = self.viol.entry(k).or_insert((0, v));
            e.0 += n;
        }
        for (k, n) in o.per_op {
            *self.per_op.entry(k).or_insert(0) += n;
        }
        if self.sample.is_none() {
            self.sample = o.sample;
        }
    }
    fn violation(&mut self, sig: String, what: String, case: J, expected: J, observed: J) {
        let e = self.viol.entry(sig.clone()).or_insert_with(|| {
            (
                0,
                Violation {
                    signature: sig,
                    what,
                    case,
                    expected,
                    observed,
                },
            )
        });
        e.0 += 1;
    }
}

fn guarded<R>(f: impl FnOnce() -> R) -> Result<R, String> {
    std::panic::catch_unwind(std::panic::AssertUnwindSafe(f)).map_err(|p| {
        format!("{} at {}", panic_message(p), take_panic_loc().unwrap_or_else(|| "?".into()))
    })
}

/// Compares a returned value with the admissible reference results.
/// Ok(index of the matching reading) or Err((class of the difference, text)).
fn compare(got: &Value, adm: &[V]) -> Result<usize, (String, String)> {
    let g = match value_to_v(got) {
        Ok(g) => g,
        Err(e) => return Err(("stray-bits".into(), e)),
    };
    let Some(idx) = adm.iter().position(|e| e.bits == g.bits) else {
        if adm.iter().all(|e| e.width() != g.width()) {
            return Err(("width".into(), format!("width {} expected {}", g.width(), adm[0].width())));
        }
        let e = adm.iter().find(|e| e.width() == g.width()).unwrap();
        return Err((format!("value:{}", mismatch_class(&g.bits, &e.bits)), "payload/mask_xz differ".into()));
    };
    if adm[idx].signed != g.signed {
        let c = if adm[idx].signed { "signed-flag-lost" } else { "signed-flag-spurious" };
        return Err((c.into(), format!("signed={} expected {}", g.signed, adm[idx].signed)));
    }
    if is_u64_repr(got) != (g.width() <= 64) {
        return Err(("repr".into(), "representation does not match width".into()));
    }
    Ok(idx)
}

/// `C17:<kind>:<op>[:<repr>]:<class>`: the signed flag is set by the same construct in both
/// representations, so its signature carries no representation.
fn signature(kind: &str, op: &str, repr: &str, class: &str, xz: bool, signed: bool, amt: Option<&'static str>) -> String {
    if class.starts_with("signed-flag") {
        return format!("C17:{kind}:{op}:{class}");
    }
    if let Some(m) = class.strip_prefix("value:") {
        let mut s = format!(
            "C17:{kind}:{op}:{repr}:{m}:{}:{}",
            if xz { "xz-operands" } else { "2state-operands" },
            if signed { "sctx" } else { "uctx" }
        );
        if let Some(a) = amt {
            s.push(':');
            s.push_str(a);
        }
        return s;
    }
    format!("C17:{kind}:{op}:{repr}:{class}")
}

fn adm_json(adm: &[V]) -> J {
    json!(adm.iter().map(v_text).collect::<Vec<_>>())
}

/// One `eval_value_binary` call against R1. Returns the value veryl returned (None on panic)
/// and whether it was admissible.
#[allow(clippy::too_many_arguments)]
fn check_binary(acc: &mut Acc, mc: &mut MaskCache, op: BOp, a: &V, av: &Value, b: &V, bv: &Value, width: usize, signed: bool, part: &str) -> (Option<Value>, bool) {
    acc.evals += 1;
    let xz = a.has_xz() || b.has_xz();
    if xz {
        acc.xz_cases += 1;
    }
    let adm = expect_binary(op, a, b, width, signed);
    let got = guarded(|| op.veryl().eval_value_binary(av, bv, width, signed, mc));
    let case = || json!({"kind":"binary","op":op.token(),"a":v_text(a),"b":v_text(b),"width":width,"signed":signed,"part":part});
    let repr = if av.width().max(bv.width()).max(width) <= 64 { "U64" } else { "BigUint" };
    let amt = (op.class() == BClass::Shift).then(|| amount_class(b, a.width().max(width)));
    match got {
        Err(p) => {
            acc.panics += 1;
            acc.violation(
                signature("binary", op.token(), repr, "panic", xz, signed, amt),
                format!("eval_value_binary({}) panicked: {p}", op.token()),
                case(),
                adm_json(&adm),
                json!({"panic": p}),
            );
            (None, false)
        }
        Ok(g) => {
            if let Ok(gv) = value_to_v(&g) {
                if gv.bits != a.bits && gv.bits != b.bits {
                    acc.nontrivial += 1;
                }
            }
            match compare(&g, &adm) {
                Ok(idx) => {
                    if adm.len() == 2 && op.class() == BClass::Equ {
                        if idx == 0 {
                            acc.eq_strict += 1
                        } else {
                            acc.eq_lenient += 1
                        }
                    }
                    if acc.sample.is_none() && xz && acc.evals > 50 {
                        let mut c = case();
                        c["result"] = json!(value_text(&g));
                        acc.sample = Some(c);
                    }
                    (Some(g), true)
                }
                Err((class, text)) => {
                    acc.violation(
                        signature("binary", op.token(), repr, &class, xz, signed, amt),
                        format!(
                            "{} {} {} evaluated with (width={width}, signed={signed}) gives {} — IEEE 1800: {} ({text})",
                            v_text(a),
                            op.token(),
                            v_text(b),
                            value_text(&g),
                            adm.iter().map(v_text).collect::<Vec<_>>().join(" or ")
                        ),
                        case(),
                        adm_json(&adm),
                        json!(value_text(&g)),
                    );
                    (Some(g), false)
                }
            }
        }
    }
}

#[allow(clippy::too_many_arguments)]
fn check_unary(acc: &mut Acc, mc: &mut MaskCache, op: UOp, a: &V, av: &Value, width: usize, signed: bool, part: &str) -> (Option<Value>, bool) {
    acc.evals += 1;
    let xz = a.has_xz();
    if xz {
        acc.xz_cases += 1;
    }
    let adm = expect_unary(op, a, width, signed);
    let got = guarded(|| op.veryl().eval_value_unary(av, width, signed, mc));
    let case = || json!({"kind":"unary","op":op.name(),"a":v_text(a),"width":width,"signed":signed,"part":part});
    let repr = if av.width().max(width) <= 64 { "U64" } else { "BigUint" };
    match got {
        Err(p) => {
            acc.panics += 1;
            acc.violation(
                signature("unary", op.name(), repr, "panic", xz, signed, None),
                format!("eval_value_unary({}) panicked: {p}", op.name()),
                case(),
                adm_json(&adm),
                json!({"panic": p}),
            );
            (None, false)
        }
        Ok(g) => {
            if let Ok(gv) = value_to_v(&g) {
                if gv.bits != a.bits {
                    acc.nontrivial += 1;
                }
            }
            match compare(&g, &adm) {
                Ok(idx) => {
                    if adm.len() == 2 {
                        if idx == 0 {
                            acc.plus_all_x += 1
                        } else {
                            acc.plus_same += 1
                        }
                    }
                    (Some(g), true)
                }
                Err((class, text)) => {
                    acc.violation(
                        signature("unary", op.name(), repr, &class, xz, signed, None),
                        format!(
                            "{} {} evaluated with (width={width}, signed={signed}) gives {} — IEEE 1800: {} ({text})",
                            op.name(),
                            v_text(a),
                            value_text(&g),
                            adm.iter().map(v_text).collect::<Vec<_>>().join(" or ")
                        ),
                        case(),
                        adm_json(&adm),
                        json!(value_text(&g)),
                    );
                    (Some(g), false)
                }
            }
        }
    }
}

/// distinct `(width, signed)` call contexts for a binary node over the given outer widths
fn contexts_b(op: BOp, wa: usize, sa: bool, wb: usize, sb: bool, outers: &[usize]) -> Vec<(usize, bool)> {
    let mut out = vec![];
    for &o in outers {
        for ou in [false, true] {
            let c = binary_call_context(op, wa, sa, wb, sb, o, ou);
            if !out.contains(&c) {
                out.push(c);
            }
        }
    }
    out
}

fn contexts_u(op: UOp, wa: usize, sa: bool, outers: &[usize]) -> Vec<(usize, bool)> {
    let mut out = vec![];
    for &o in outers {
        for ou in [false, true] {
            let c = unary_call_context(op, wa, sa, o, ou);
            if !out.contains(&c) {
                out.push(c);
            }
        }
    }
    out
}

fn big_outers(m: usize, thorough: bool) -> Vec<usize> {
    let mut o = vec![0, m + 1];
    if thorough {
        if m < 65 {
            o.push(65);
        }
        if m < 130 {
            o.push(130);
        }
        o.push(m + 64);
    } else if m < 65 {
        o.push(65);
    }
    o
}

fn mk(bits: &[Vec<Bit>], signed: bool) -> Vec<(V, Value)> {
    bits.iter()
        .map(|b| {
            let v = V::new(b.clone(), signed);
            let x = v_to_value(&v);
            (v, x)
        })
        .collect()
}

fn run_block(blk: &Blk, thorough: bool) -> Acc {
    let mut acc = Acc::default();
    let mut mc = MaskCache::default();
    match blk {
        Blk::SmallB(op, wa, wb, sa, sb) => {
            let outers: Vec<usize> = (0..=8).collect();
            let ctxs = contexts_b(*op, *wa, *sa, *wb, *sb, &outers);
            let av = mk(&all_values(*wa), *sa);
            let bv = mk(&all_values(*wb), *sb);
            for (w, s) in ctxs {
                for (a, ax) in &av {
                    for (b, bx) in &bv {
                        check_binary(&mut acc, &mut mc, *op, a, ax, b, bx, w, s, "A");
                    }
                }
            }
            *acc.per_op.entry(op.token().to_string()).or_insert(0) += acc.evals;
        }
        Blk::SmallU(op, wa, sa) => {
            let outers: Vec<usize> = (0..=8).collect();
            let ctxs = contexts_u(*op, *wa, *sa, &outers);
            let av = mk(&all_values(*wa), *sa);
            for (w, s) in ctxs {
                for (a, ax) in &av {
                    check_unary(&mut acc, &mut mc, *op, a, ax, w, s, "A");
                }
            }
            *acc.per_op.entry(op.name().to_string()).or_insert(0) += acc.evals;
        }
        Blk::BigB(op, wa, wb, sa, sb) => {
            let m = if op.class() == BClass::Shift { *wa } else { *wa.max(wb) };
            let ctxs = contexts_b(*op, *wa, *sa, *wb, *sb, &big_outers(m, thorough));
            let av = mk(&corner_alphabet(*wa, true), *sa);
            let mut bb = corner_alphabet(*wb, true);
            if op.class() == BClass::Shift {
                for x in amount_alphabet(*wa, *wb) {
                    if !bb.contains(&x) {
                        bb.push(x);
                    }
                }
            }
            let bv = mk(&bb, *sb);
            for (w, s) in ctxs {
                for (a, ax) in &av {
                    for (b, bx) in &bv {
                        check_binary(&mut acc, &mut mc, *op, a, ax, b, bx, w, s, "B");
                    }
                }
            }
            *acc.per_op.entry(op.token().to_string()).or_insert(0) += acc.evals;
        }
        Blk::BigU(op, wa, sa) => {
            let ctxs = contexts_u(*op, *wa, *sa, &big_outers(*wa, true));
            let av = mk(&corner_alphabet(*wa, true), *sa);
            for (w, s) in ctxs {
                for (a, ax) in &av {
                    check_unary(&mut acc, &mut mc, *op, a, ax, w, s, "B");
                }
            }
            *acc.per_op.entry(op.name().to_string()).or_insert(0) += acc.evals;
        }
        Blk::Prim(w1, w2) => run_prim(&mut acc, *w1, *w2),
        Blk::Repr(wa, wb) => run_repr(&mut acc, &mut mc, *wa, *wb),
        Blk::Expr(cases) => {
            // parser / analyzer tables are thread-local: own thread for the block
            let cases = cases.clone();
            match run_isolated(64 << 20, move || {
                let mut acc = Acc::default();
                let mut mc = MaskCache::default();
                for c in &cases {
                    check_expr(&mut acc, &mut mc, c);
                }
                acc
            }) {
                Ok(a) => acc = a,
                Err(p) => acc.machinery.push(format!("expression block: harness thread panicked: {p}")),
            }
        }
    }
    acc
}

// ------------------------------------------------------------------ part E

fn kind_of(e: &Ex) -> &'static str {
    match e {
        Ex::Leaf(_) => "leaf",
        Ex::Un(op, _) => {
            if op.context_determined() {
                "un-ctx"
            } else {
                "un-self"
            }
        }
        Ex::Bi(op, _, _) => match op.class() {
            BClass::Arith => "arith",
            BClass::Shift => "shift",
            BClass::Rel => "rel",
            BClass::Equ => "equ",
            BClass::Logic => "logic",
            BClass::Cast => "cast",
        },
        Ex::Cond(..) => "cond",
        Ex::Concat(_) => "concat",
        Ex::Cast(..) => "cast",
    }
}

/// Class of the construct whose context handling is at stake: the ternary itself, or the kinds of
/// the operator children of the root (one context-propagation defect shows under many parent
/// operators but one child kind).
fn root_shape(e: &Ex, cond_xz: bool) -> String {
    if cond_xz {
        return "ternary-cond-xz".into();
    }
    let kids: Vec<&Ex> = match e {
        Ex::Leaf(_) => vec![],
        Ex::Un(_, x) => vec![x.as_ref()],
        Ex::Bi(_, l, r) => vec![l.as_ref(), r.as_ref()],
        Ex::Cond(..) => return "ternary".into(),
        Ex::Concat(xs) => xs.iter().collect(),
        Ex::Cast(x, _) => vec![x.as_ref()],
    };
    let mut ks: Vec<&str> = kids.iter().map(|k| kind_of(k)).filter(|k| *k != "leaf").collect();
    ks.sort();
    ks.dedup();
    if ks.is_empty() {
        format!("single({})", kind_of(e))
    } else {
        format!("operand({})", ks.join(","))
    }
}

/// Replays the tree the way `Expression::eval_value` is specified to work if it follows
/// 11.6 / 11.8.2: every operator node calls veryl's own `eval_value_*` on the values of its
/// children with the IEEE call context; each such call is also checked against R1 (as in part A).
/// `clean` is cleared when some node's result was not admissible.
#[allow(clippy::too_many_arguments)]
fn model_eval(acc: &mut Acc, mc: &mut MaskCache, e: &Ex, env: &[V], envx: &[Value], w: usize, s: bool, clean: &mut bool, cond_xz: &mut bool) -> Option<Value> {
    use vmc_refmodels::expr::{self_signed, self_width};
    let sw = |x: &Ex| self_width(&x.to_ref(), env);
    let ss = |x: &Ex| self_signed(&x.to_ref(), env);
    // a child value placed in a context (w, s): extended by its own type only when s is signed
    let in_ctx = |x: &Value, w: usize, s: bool| -> Option<V> {
        let v = value_to_v(x).ok()?;
        Some(v.with_sign(v.signed && s).resize(w.max(v.width())).with_sign(s))
    };
    match e {
        Ex::Leaf(i) => Some(envx[*i].clone()),
        Ex::Un(op, x) => {
            let (c, cs) = if op.context_determined() {
                (model_eval(acc, mc, x, env, envx, w, s, clean, cond_xz)?, s)
            } else {
                (model_eval(acc, mc, x, env, envx, sw(x), ss(x), clean, cond_xz)?, false)
            };
            if !*clean {
                // a child already returned a non-admissible value or flag: expectations derived
                // from it would be artefacts; just replay
                return guarded(|| op.veryl().eval_value_unary(&c, w, cs, mc)).ok();
            }
            let cv = value_to_v(&c).ok()?;
            let (g, ok) = check_unary(acc, mc, *op, &cv, &c, w, cs, "E");
            if !ok {
                *clean = false;
            }
            g
        }
        Ex::Bi(op, l, r) => {
            let (lw, ls, rw, rs, cs) = match op.class() {
                BClass::Arith => (w, s, w, s, s),
                BClass::Shift => (w, s, sw(r), ss(r), s),
                BClass::Rel | BClass::Equ => {
                    let wl = sw(l).max(sw(r));
                    let sl = ss(l) && ss(r);
                    (wl, sl, wl, sl, sl && op.class() == BClass::Rel)
                }
                BClass::Logic => (sw(l), ss(l), sw(r), ss(r), false),
                BClass::Cast => return None,
            };
            let lv = model_eval(acc, mc, l, env, envx, lw, ls, clean, cond_xz)?;
            let rv = model_eval(acc, mc, r, env, envx, rw, rs, clean, cond_xz)?;
            if !*clean {
                return guarded(|| op.veryl().eval_value_binary(&lv, &rv, w, cs, mc)).ok();
            }
            let a = value_to_v(&lv).ok()?;
            let b = value_to_v(&rv).ok()?;
            let (g, ok) = check_binary(acc, mc, *op, &a, &lv, &b, &rv, w, cs, "E");
            if !ok {
                *clean = false;
            }
            g
        }
        Ex::Cond(c, a, b) => {
            let cv = model_eval(acc, mc, c, env, envx, sw(c), ss(c), clean, cond_xz)?;
            let av = model_eval(acc, mc, a, env, envx, w, s, clean, cond_xz)?;
            let bv = model_eval(acc, mc, b, env, envx, w, s, clean, cond_xz)?;
            let cv = value_to_v(&cv).ok()?;
            if cv.has_xz() {
                *cond_xz = true;
            }
            let r = V::cond(&cv, &in_ctx(&av, w, s)?, &in_ctx(&bv, w, s)?, w);
            Some(v_to_value(&r))
        }
        Ex::Concat(xs) => {
            let mut parts = vec![];
            for x in xs {
                let v = model_eval(acc, mc, x, env, envx, sw(x), ss(x), clean, cond_xz)?;
                parts.push(value_to_v(&v).ok()?);
            }
            Some(v_to_value(&V::concat(&parts)))
        }
        // `as` is not generated in C17 (veryl documents a numeric cast as unsigned logic<N>)
        Ex::Cast(..) => None,
    }
}

fn same_value(a: &Value, b: &Value) -> bool {
    a.width() == b.width() && a.signed() == b.signed() && a.payload() == b.payload() && a.mask_xz() == b.mask_xz()
}

fn check_expr(acc: &mut Acc, mc: &mut MaskCache, c: &ExprCase) {
    use vmc_refmodels::expr::{self_signed, self_width};
    acc.evals += 1;
    acc.expr_total += 1;
    let text = c.ex.text(&|i| literal(&c.leaves[i]));
    let ctx = if c.ctx == 0 { None } else { Some(c.ctx) };
    let case = || json!({"kind":"expr","text":text,"context_width":c.ctx,"leaves":c.leaves.iter().map(v_text).collect::<Vec<_>>()});
    let adm = expect_expr(&c.ex, &c.leaves, c.ctx);
    let t2 = text.clone();
    let got = match guarded(move || gen_sim::eval_const_expr(&t2, ctx)) {
        Err(p) => {
            acc.panics += 1;
            acc.violation(
                format!("C17:expr:{}:panic", root_shape(&c.ex, false)),
                format!("compile-time evaluation of `{text}` panicked: {p}"),
                case(),
                adm_json(&adm),
                json!({"panic": p}),
            );
            return;
        }
        Ok(Err(e)) => {
            // the analyzer did not produce a value: generator problem, kept visible
            let k = e.split(':').next().unwrap_or("?").to_string();
            *acc.expr_rejected.entry(k).or_insert(0) += 1;
            return;
        }
        Ok(Ok(g)) => g,
    };
    let r = c.ex.to_ref();
    let w = self_width(&r, &c.leaves).max(c.ctx);
    let s = self_signed(&r, &c.leaves);
    let envx: Vec<Value> = c.leaves.iter().map(v_to_value).collect();
    let mut clean = true;
    let mut cond_xz = false;
    let model = model_eval(acc, mc, &c.ex, &c.leaves, &envx, w, s, &mut clean, &mut cond_xz);
    let model_same = model.as_ref().map(|m| same_value(m, &got));
    if let Ok(gv) = value_to_v(&got) {
        if c.leaves.iter().all(|l| l.bits != gv.bits) {
            acc.nontrivial += 1;
        }
    }
    match compare(&got, &adm) {
        Ok(_) => {
            acc.expr_agree_ieee += 1;
            match model_same {
                Some(true) => acc.expr_model_equal += 1,
                _ => acc.expr_model_differs_benign += 1,
            }
        }
        Err((class, textd)) => {
            if model_same == Some(true) {
                acc.expr_model_equal += 1;
                if !clean {
                    // explained by an operator-level disagreement recorded at the node (part "E")
                    acc.expr_masked_by_operator_finding += 1;
                } else {
                    acc.machinery.push(format!(
                        "harness inconsistency: R1 tree rules and the replay disagree on `{text}` ctx={}: analyzer {} / R1 {}",
                        c.ctx,
                        value_text(&got),
                        adm.iter().map(v_text).collect::<Vec<_>>().join(" or ")
                    ));
                }
                return;
            }
            if !clean {
                // some node of this tree already returned a non-admissible value or flag (recorded
                // there); what follows from it is not a second finding
                acc.expr_masked_by_operator_finding += 1;
                return;
            }
            let class = class.strip_prefix("value:").unwrap_or(&class).to_string();
            acc.violation(
                format!("C17:expr:{}:{}", root_shape(&c.ex, cond_xz), class),
                format!(
                    "`{text}` (context width {}) evaluates to {} — IEEE 1800 (11.6, 11.8.2 with the operators' own results): {} ({textd}); veryl's operators applied with the IEEE contexts give {}",
                    c.ctx,
                    value_text(&got),
                    adm.iter().map(v_text).collect::<Vec<_>>().join(" or "),
                    model.as_ref().map(value_text).unwrap_or_else(|| "-".into())
                ),
                case(),
                adm_json(&adm),
                json!(value_text(&got)),
            );
        }
    }
}

/// Part E families.
fn expr_blocks(thorough: bool) -> Vec<Blk> {
    let mut blocks = vec![];
    let signs2 = [(false, false), (true, true), (true, false), (false, true)];
    let vals = |w: usize, s: bool| -> Vec<V> { all_values(w).into_iter().map(|b| V::new(b, s)).collect() };
    // E1: every single operator, all 4-state values at widths 1..2, with and without outer context
    let ws: &[usize] = &[1, 2];
    for op in UOPS {
        let mut cases = vec![];
        for &wa in &[1usize, 2, 3] {
            for sa in [false, true] {
                for a in vals(wa, sa) {
                    for ctx in [0, wa + 2] {
                        cases.push(ExprCase { ex: Ex::Un(op, leaf(0)), leaves: vec![a.clone()], ctx });
                    }
                }
            }
        }
        blocks.push(Blk::Expr(cases));
    }
    for op in BOPS {
        if op == BOp::As {
            continue;
        }
        for &wa in ws {
            for &wb in ws {
                for (sa, sb) in signs2 {
                    let mut cases = vec![];
                    for a in vals(wa, sa) {
                        for b in vals(wb, sb) {
                            for ctx in [0, wa.max(wb) + 2] {
                                cases.push(ExprCase { ex: Ex::Bi(op, leaf(0), leaf(1)), leaves: vec![a.clone(), b.clone()], ctx });
                            }
                        }
                    }
                    blocks.push(Blk::Expr(cases));
                }
            }
        }
    }
    // E2: two-operator compositions; leaves a,b: 2 bits, c: 4 bits (so that the outer context is
    // wider than the inner expression and width / signedness must propagate)
    let a_vals = |s: bool| -> Vec<V> {
        let mut v: Vec<V> = ["10", "01"].iter().map(|t| V::from_str_msb(t, s)).collect();
        if thorough {
            v.push(V::from_str_msb("11", s));
            v.push(V::from_str_msb("1x", s));
        }
        v
    };
    // b is also the ternary condition: "0x" is an ambiguous condition
    let b_vals = |s: bool| -> Vec<V> {
        let mut v: Vec<V> = ["11", "01", "0x"].iter().map(|t| V::from_str_msb(t, s)).collect();
        if thorough {
            v.push(V::from_str_msb("10", s));
        }
        v
    };
    let c_vals = |s: bool| -> Vec<V> {
        let mut v: Vec<V> = ["1000", "0001", "1111"].iter().map(|t| V::from_str_msb(t, s)).collect();
        if thorough {
            v.push(V::from_str_msb("z010", s));
        }
        v
    };
    let inner_ops: Vec<BOp> = if thorough {
        BOPS.iter().copied().filter(|o| *o != BOp::As).collect()
    } else {
        vec![BOp::Add, BOp::Sub, BOp::Mul, BOp::Div, BOp::Rem, BOp::And, BOp::Xnor, BOp::Shl, BOp::Shr, BOp::AShr, BOp::AShl, BOp::Pow, BOp::Lt, BOp::Eq, BOp::LAnd]
    };
    let mut envs: Vec<Vec<V>> = vec![];
    for sa in [false, true] {
        for sb in [false, true] {
            for sc in [false, true] {
                for a in a_vals(sa) {
                    for b in b_vals(sb) {
                        for c in c_vals(sc) {
                            envs.push(vec![a.clone(), b.clone(), c.clone()]);
                        }
                    }
                }
            }
        }
    }
    let mut push_shape = |ex: Ex| {
        let cases: Vec<ExprCase> = envs.iter().map(|e| ExprCase { ex: ex.clone(), leaves: e.clone(), ctx: 0 }).collect();
        blocks.push(Blk::Expr(cases));
    };
    for &op1 in &inner_ops {
        let inner = Ex::Bi(op1, leaf(0), leaf(1));
        for op2 in BOPS {
            if op2 == BOp::As {
                continue;
            }
            push_shape(Ex::Bi(op2, Box::new(inner.clone()), leaf(2)));
            push_shape(Ex::Bi(op2, leaf(2), Box::new(inner.clone())));
        }
        for u in UOPS {
            push_shape(Ex::Un(u, Box::new(inner.clone())));
            // (u a) op1 c
            push_shape(Ex::Bi(op1, Box::new(Ex::Un(u, leaf(0))), leaf(2)));
        }
        push_shape(Ex::Cond(leaf(1), Box::new(inner.clone()), leaf(2)));
        push_shape(Ex::Cond(leaf(1), leaf(2), Box::new(inner.clone())));
        push_shape(Ex::Cond(Box::new(inner.clone()), leaf(2), leaf(0)));
        push_shape(Ex::Concat(vec![inner.clone(), Ex::Leaf(2)]));
        push_shape(Ex::Bi(op1, Box::new(Ex::Concat(vec![Ex::Leaf(0), Ex::Leaf(1)])), leaf(2)));
        push_shape(Ex::Bi(op1, Box::new(Ex::Cond(leaf(1), leaf(0), leaf(2))), leaf(2)));
    }
    blocks
}

fn alphabet_for(w: usize) -> Vec<Vec<Bit>> {
    if w <= 3 { all_values(w) } else { corner_alphabet(w, true) }
}

/// Part C: Value::expand / trunc / select / concat against R1.
fn run_prim(acc: &mut Acc, w1: usize, w2: usize) {
    let prim_violation = |acc: &mut Acc, name: &str, a: &V, arg: String, exp: &V, got: Result<Value, String>, check_sign: bool| {
        acc.evals += 1;
        let repr = if w1.max(w2) <= 64 { "U64" } else if w1.min(w2) > 64 { "BigUint" } else { "cross64" };
        let case = json!({"kind":"primitive","fn":name,"a":v_text(a),"arg":arg});
        match got {
            Err(p) => {
                acc.panics += 1;
                acc.violation(
                    format!("C17:prim:{name}:{repr}:panic"),
                    format!("Value::{name} panicked: {p}"),
                    case,
                    json!(v_text(exp)),
                    json!({"panic":p}),
                );
            }
            Ok(g) => {
                let field = match value_to_v(&g) {
                    Err(_) => Some("stray-bits"),
                    Ok(gv) => {
                        if gv.bits != exp.bits {
                            Some("value")
                        } else if check_sign && gv.signed != exp.signed {
                            Some("signed-flag")
                        } else if is_u64_repr(&g) != (gv.width() <= 64) {
                            Some("repr")
                        } else {
                            if gv.bits != a.bits {
                                acc.nontrivial += 1;
                            }
                            None
                        }
                    }
                };
                if let Some(f) = field {
                    acc.violation(
                        format!("C17:prim:{name}:{repr}:{f}"),
                        format!("Value::{name}({arg}) of {} gives {} — expected {}", v_text(a), value_text(&g), v_text(exp)),
                        case,
                        json!(v_text(exp)),
                        json!(value_text(&g)),
                    );
                }
            }
        }
    };
    for signed in [false, true] {
        for (a, ax) in mk(&alphabet_for(w1), signed) {
            // expand to w2 (>= w1), with and without use_sign
            if w2 >= w1 {
                for use_sign in [false, true] {
                    let exp = if w2 > w1 {
                        a.with_sign(signed && use_sign).resize(w2)
                    } else {
                        a.clone()
                    };
                    let got = guarded(|| ax.expand(w2, use_sign).into_owned());
                    prim_violation(acc, "expand", &a, format!("width={w2},use_sign={use_sign}"), &exp, got, true);
                }
            }
            // trunc to w2 (<= w1)
            if w2 <= w1 {
                let exp = a.resize(w2);
                let got = guarded(|| {
                    let mut t = ax.clone();
                    t.trunc(w2);
                    t
                });
                prim_violation(acc, "trunc", &a, format!("width={w2}"), &exp, got, true);
                // select [end +: w2] for every in-range position class
                let mut ends = vec![0usize, 1, w1 - w2];
                for k in [31usize, 32, 33, 63, 64, 65] {
                    if k + w2 <= w1 {
                        ends.push(k);
                    }
                    if k >= w2 && k <= w1 {
                        ends.push(k - w2);
                    }
                }
                ends.retain(|e| e + w2 <= w1);
                ends.sort();
                ends.dedup();
                for end in ends {
                    let beg = end + w2 - 1;
                    let exp = a.select(end as isize, w2);
                    let got = guarded(|| ax.select(beg, end));
                    prim_violation(acc, "select", &a, format!("beg={beg},end={end}"), &exp, got, true);
                }
            }
            // concat {a, b} with b of width w2
            if w1 + w2 <= 300 {
                for (b, bx) in mk(&alphabet_for(w2), false).into_iter().take(12) {
                    let exp = V::concat(&[a.clone(), b.clone()]);
                    let got = guarded(|| ax.concat(&bx));
                    prim_violation(acc, "concat", &a, format!("rhs={}", v_text(&b)), &exp, got, true);
                }
            }
        }
    }
}

/// Part D: the same integers in both representations.
///
/// `small` = op on U64 operands at call width W <= 64; `big` = op on the value-preserving
/// extensions (sign extension for signed, zero extension for unsigned operands) to `W + k > 64`
/// bits at call width `W + k`. For the operators below truncating `big` to W bits must
/// reproduce `small` bit for bit (1-bit results must be identical).
fn run_repr(acc: &mut Acc, mc: &mut MaskCache, wa: usize, wb: usize) {
    for op in BOPS {
        if op == BOp::As {
            continue;
        }
        for (sa, sb) in [(false, false), (true, true), (true, false), (false, true)] {
            let (w, s) = binary_call_context(op, wa, sa, wb, sb, 0, false);
            for ext in [65usize.saturating_sub(wa.max(wb)).max(1), 64, 130] {
                let av = mk(&alphabet_for(wa), sa);
                let mut bb = alphabet_for(wb);
                if op.class() == BClass::Shift {
                    bb.extend(amount_alphabet(wa, wb));
                }
                let bv = mk(&bb, sb);
                for (a, ax) in &av {
                    for (b, bx) in &bv {
                        // validity of the truncation homomorphism
                        let a_neg = sa && a.msb() != Bit::Zero;
                        match op {
                            // logical right shift of a sign-extended negative value pulls in
                            // extension bits: legitimately different
                            BOp::Shr if a_neg && s => continue,
                            // a negative base wraps differently only in the discarded bits: fine
                            _ => {}
                        }
                        // the extended operands: each operand extended by its *own* signedness
                        // keeps its integer value only if the expression treats it with that
                        // signedness; in an unsigned expression a signed operand is reinterpreted
                        // as unsigned, so extend by the effective signedness
                        let (ea, eb) = match op.class() {
                            BClass::Arith | BClass::Rel => (sa && s, sb && s),
                            BClass::Shift => (sa && s, false),
                            BClass::Equ => (sa && sb, sa && sb),
                            _ => (false, false),
                        };
                        // exponent of ** is interpreted by its own type
                        let eb = if op == BOp::Pow { sb } else { eb };
                        let a2 = a.with_sign(ea).resize(wa + ext).with_sign(sa);
                        let b2 = b.with_sign(eb).resize(wb + ext).with_sign(sb);
                        let (w2, s2) = binary_call_context(op, wa + ext, sa, wb + ext, sb, 0, false);
                        let a2x = v_to_value(&a2);
                        let b2x = v_to_value(&b2);
                        acc.evals += 1;
                        let small = guarded(|| op.veryl().eval_value_binary(ax, bx, w, s, mc));
                        let big = guarded(|| {
                            let mut r = op.veryl().eval_value_binary(&a2x, &b2x, w2, s2, mc);
                            r.trunc(w);
                            r
                        });
                        let case = json!({"kind":"repr","op":op.token(),"a":v_text(a),"b":v_text(b),
                            "small_call":{"width":w,"signed":s},"big_call":{"a":v_text(&a2),"b":v_text(&b2),"width":w2,"signed":s2}});
                        match (small, big) {
                            (Ok(x), Ok(y)) => {
                                let same = x.payload() == y.payload() && x.mask_xz() == y.mask_xz() && x.width() == y.width();
                                if same {
                                    acc.nontrivial += 1;
                                } else {
                                    acc.violation(
                                        format!("C17:repr-agreement:{}:{}", op.token(), if a.has_xz() || b.has_xz() { "xz" } else { "2state" }),
                                        format!(
                                            "{} {} {}: U64 evaluation gives {}, the same integers as >64-bit values give {} after truncation",
                                            v_text(a), op.token(), v_text(b), value_text(&x), value_text(&y)
                                        ),
                                        case,
                                        json!(value_text(&x)),
                                        json!(value_text(&y)),
                                    );
                                }
                            }
                            (x, y) => {
                                acc.panics += 1;
                                acc.violation(
                                    format!("C17:repr-agreement:{}:panic", op.token()),
                                    "evaluation panicked".into(),
                                    case,
                                    json!(x.map(|v| value_text(&v))),
                                    json!(y.map(|v| value_text(&v))),
                                );
                            }
                        }
                    }
                }
            }
        }
    }
}

pub fn run(ctx: &Ctx) -> Report {
    install_quiet_panic_hook();
    let mut rep = Report::new(Level::Exploration);
    let thorough = ctx.thorough();
    let budget = ctx.budget(40.0, 1200.0);
    let small_w = if thorough { 4 } else { 3 };

    let mut blocks: Vec<Blk> = vec![];
    let signs = [(false, false), (true, true), (true, false), (false, true)];
    // part A
    for op in UOPS {
        for wa in 1..=small_w {
            for sa in [false, true] {
                blocks.push(Blk::SmallU(op, wa, sa));
            }
        }
    }
    for op in BOPS {
        for wa in 1..=small_w {
            for wb in 1..=small_w {
                for (sa, sb) in signs {
                    blocks.push(Blk::SmallB(op, wa, wb, sa, sb));
                }
            }
        }
    }
    let n_small = blocks.len();
    // part B
    for op in UOPS {
        for wa in BIG_WIDTHS {
            for sa in [false, true] {
                blocks.push(Blk::BigU(op, wa, sa));
            }
        }
    }
    let narrow: &[usize] = if thorough { &[1, 4, 8] } else { &[4] };
    let mut pairs: Vec<(usize, usize)> = vec![];
    for &wa in &BIG_WIDTHS {
        for &wb in &BIG_WIDTHS {
            let near = |x: usize, y: usize| x.abs_diff(y) <= 2;
            if thorough || wa == wb || (near(wa, wb)) || (wa == 64 && wb == 128) || (wa == 128 && wb == 64) || (wa == 32 && wb == 65) || (wa == 256 && wb == 63) {
                pairs.push((wa, wb));
            }
        }
        for &n in narrow {
            pairs.push((wa, n));
            pairs.push((n, wa));
        }
    }
    for op in BOPS {
        for &(wa, wb) in &pairs {
            for (sa, sb) in signs {
                blocks.push(Blk::BigB(op, wa, wb, sa, sb));
            }
        }
    }
    let n_big = blocks.len() - n_small;
    // part C
    let prim_w: [usize; 14] = [1, 2, 3, 8, 31, 32, 33, 63, 64, 65, 96, 127, 128, 129];
    for w1 in prim_w {
        for w2 in prim_w {
            blocks.push(Blk::Prim(w1, w2));
        }
    }
    // part D
    let repr_w: &[usize] = if thorough { &[1, 2, 3, 8, 31, 32, 33, 63, 64] } else { &[1, 2, 8, 32, 63, 64] };
    for &wa in repr_w {
        for &wb in repr_w {
            blocks.push(Blk::Repr(wa, wb));
        }
    }

    // part E
    let n_before_expr = blocks.len();
    blocks.extend(expr_blocks(thorough));
    let n_expr_blocks = blocks.len() - n_before_expr;

    // development aid: VMC_C17_PARTS=ABCDE restricts the run to some parts (reported in the evidence)
    let parts = std::env::var("VMC_C17_PARTS").unwrap_or_else(|_| "ABCDE".into());
    blocks.retain(|b| {
        let p = match b {
            Blk::SmallB(..) | Blk::SmallU(..) => 'A',
            Blk::BigB(..) | Blk::BigU(..) => 'B',
            Blk::Prim(..) => 'C',
            Blk::Repr(..) => 'D',
            Blk::Expr(..) => 'E',
        };
        parts.contains(p)
    });
    rep.set("parts_run", parts.clone());
    // interleave the parts proportionally, so that a budget cap thins every part evenly
    {
        let part_of = |b: &Blk| match b {
            Blk::SmallB(..) | Blk::SmallU(..) => 0usize,
            Blk::BigB(..) | Blk::BigU(..) => 1,
            Blk::Prim(..) => 2,
            Blk::Repr(..) => 3,
            Blk::Expr(..) => 4,
        };
        let mut counts = [0usize; 5];
        for b in &blocks {
            counts[part_of(b)] += 1;
        }
        let mut seen = [0usize; 5];
        let mut keyed: Vec<(u64, usize, Blk)> = blocks
            .drain(..)
            .enumerate()
            .map(|(i, b)| {
                let p = part_of(&b);
                let k = (seen[p] as u64) * 1_000_000 / (counts[p] as u64).max(1);
                seen[p] += 1;
                (k, i, b)
            })
            .collect();
        keyed.sort_by_key(|(k, i, _)| (*k, *i));
        blocks = keyed.into_iter().map(|(_, _, b)| b).collect();
    }

    // deterministic shard order; VERIF_SEED only rotates it
    if ctx.seed != 0 && !blocks.is_empty() {
        let k = (ctx.seed as usize) % blocks.len();
        blocks.rotate_left(k);
    }

    let mut total = Acc::default();
    let mut done = 0usize;
    let mut capped = false;
    for chunk in blocks.chunks(256) {
        if ctx.elapsed() > budget {
            capped = true;
            break;
        }
        for a in par_map(chunk, |b| run_block(b, thorough)) {
            total.merge(a);
        }
        done += chunk.len();
    }

    rep.set("evaluations", total.evals);
    rep.set("distinct_nontrivial", total.nontrivial);
    rep.set("rule", "an evaluation is non-trivial when the returned bit vector differs from both operand bit vectors (part D: the two representations were both evaluated and agree)");
    rep.set("cases_with_xz_operands", total.xz_cases);
    rep.set("blocks_total", blocks.len() as u64);
    rep.set("blocks_completed", done as u64);
    rep.set("blocks_exhaustive_small", n_small as u64);
    rep.set("blocks_corner_big", n_big as u64);
    rep.set("exhaustive", !capped);
    rep.set("capped_by_budget", capped);
    rep.set(
        "bounds",
        json!({"all_4state_values_for_widths": format!("1..={small_w}"), "context_widths": "operand width..=8",
               "corner_widths": BIG_WIDTHS, "corner_width_pairs": pairs.len(), "narrow_companions": narrow,
               "operators_unary": UOPS.iter().map(|o| o.name()).collect::<Vec<_>>(),
               "operators_binary": BOPS.iter().map(|o| o.token()).collect::<Vec<_>>()}),
    );
    rep.set("panics", total.panics);
    rep.set("blocks_expressions", n_expr_blocks as u64);
    rep.set("expressions_through_analyzer", total.expr_total);
    rep.set("expressions_agreeing_with_ieee", total.expr_agree_ieee);
    rep.set("expressions_equal_to_replay_with_ieee_contexts", total.expr_model_equal);
    rep.set("expressions_replay_differs_but_result_ieee", total.expr_model_differs_benign);
    rep.set("expressions_explained_by_operator_level_finding", total.expr_masked_by_operator_finding);
    rep.set("expressions_rejected_by_analyzer", json!(total.expr_rejected));
    for m in &total.machinery {
        rep.machinery(m.clone());
    }
    let rejected: u64 = total.expr_rejected.values().sum();
    if total.expr_total > 0 && rejected * 50 > total.expr_total {
        rep.machinery(format!("{rejected} of {} generated expressions were not evaluated by the analyzer (generator bug): {:?}", total.expr_total, total.expr_rejected));
    }
    rep.set(
        "equality_reading_with_xz",
        json!({"strict(x whenever any operand bit is x/z)": total.eq_strict, "lenient(0 on a definite mismatch)": total.eq_lenient,
               "note": "counted over the cases where the two admissible readings differ"}),
    );
    rep.set(
        "unary_plus_reading_with_xz",
        json!({"all_x": total.plus_all_x, "same_as_operand": total.plus_same}),
    );
    rep.set("evaluations_per_operator", json!(total.per_op));
    if let Some(s) = total.sample.take() {
        rep.sample(s);
    }
    rep.assume("operand Value flags equal the operand's declared signedness; (width, signed) follow gather_context/apply_context for a node whose operands are terms");
    rep.assume("== / != / ==? / !=? with x/z operands: both readings of 11.4.5/11.4.6 accepted; unary + with x/z: both 'same as m' and 'all x' accepted");
    if total.evals == 0 || total.nontrivial < 2 {
        rep.machinery("vacuous run: no non-trivial evaluation");
    }
    rep.set(
        "violation_signatures",
        json!(total.viol.iter().map(|(k, (n, _))| (k.clone(), *n)).collect::<BTreeMap<String, u64>>()),
    );
    if let Ok(path) = std::env::var("VMC_C17_DUMP") {
        let mut out = String::new();
        for (k, (n, v)) in &total.viol {
            out.push_str(&json!({"signature": k, "n": n, "what": v.what, "case": v.case}).to_string());
            out.push('\n');
        }
        let _ = std::fs::write(path, out);
    }
    for (_, (n, mut v)) in total.viol {
        v.what = format!("{} [{} case(s)]", v.what, n);
        rep.violation(v);
    }
    rep
}

fn parse_v(s: &str) -> Option<V> {
    // "<w>'[s]b<bits>"
    let (w, rest) = s.split_once('\'')?;
    let signed = rest.starts_with('s');
    let bits = rest.trim_start_matches('s').strip_prefix('b')?;
    let v = V::from_str_msb(bits, signed);
    (v.width() == w.parse::<usize>().ok()?).then_some(v)
}

pub fn replay(doc: &J) -> i32 {
    install_quiet_panic_hook();
    let c = &doc["case"];
    let mut mc = MaskCache::default();
    let mut acc = Acc::default();
    let width = c["width"].as_u64().unwrap_or(0) as usize;
    let signed = c["signed"].as_bool().unwrap_or(false);
    match c["kind"].as_str() {
        Some("binary") => {
            let (Some(a), Some(b)) = (c["a"].as_str().and_then(parse_v), c["b"].as_str().and_then(parse_v)) else {
                return 2;
            };
            let Some(op) = BOPS.iter().copied().find(|o| Some(o.token()) == c["op"].as_str()) else {
                return 2;
            };
            check_binary(&mut acc, &mut mc, op, &a, &v_to_value(&a), &b, &v_to_value(&b), width, signed, "replay");
        }
        Some("unary") => {
            let Some(a) = c["a"].as_str().and_then(parse_v) else { return 2 };
            let Some(op) = UOPS.iter().copied().find(|o| Some(o.name()) == c["op"].as_str()) else {
                return 2;
            };
            check_unary(&mut acc, &mut mc, op, &a, &v_to_value(&a), width, signed, "replay");
        }
        _ => {
            eprintln!("replay supports binary/unary cases; see the case for the call");
            return 2;
        }
    }
    if let Some((_, (_, v))) = acc.viol.into_iter().next() {
        println!("still differs: {}\nexpected {}\nobserved {}", v.what, v.expected, v.observed);
        1
    } else {
        println!("agrees with the reference now");
        0
    }
}

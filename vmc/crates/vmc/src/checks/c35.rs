//! C35 — user components see correct values and timing on every transport.
//!
//! Engine E2/E6. Real Veryl designs instantiating `$comp::…` fixture components
//! (`crates/comp_fixture`, one component per guest API path) are analysed, converted to simulator
//! IR and driven through the real `Simulator::{set, step, get}` machinery, for every simulator
//! configuration of `Config::all()` and both native transports:
//!   static  — hand-written vtables against the raw C ABI (`c35_guest.rs`, copying services
//!             `read_input` / `write_output` only) registered with `register_static_component`,
//!   dlopen  — the same components written with the `veryl-component` guest library
//!             (`crates/comp_fixture`, direct-pointer fast paths included), built as
//!             `libvmc_comp_fixture.so` and routed via `Config::component_libraries`.
//! Both guests must give identical results (the property's "identical on every transport",
//! restricted to the native transports).
//!
//! Part V (values): for every width in {1,2,7,8,31,32,33,63,64,65,127,128,129,200} a design with an
//! RTL flip-flop and mirrors / an observer fed by the same input; every corner value (per-word
//! alphabet {0, ~0, all-X, all-Z, mixed} in all combinations, single-bit walkers at bit 0, the
//! word boundaries and the MSB) is driven, the clock stepped and every component output compared
//! with the driven value (ground truth) and with the RTL flip-flop.
//! Part P (parameters, method arguments): `#(V: <literal>)` of every width is driven back on an
//! output; `set(x)` / `get()` round-trips through `call_component_method`.
//! Part T (timing): a 2-bit stimulus; mirror next to FF, FF after mirror, mirror after FF, mirror
//! after mirror, comb logic after mirror. The full product state space over all stimulus
//! sequences is explored (BFS, replay from the initial state); in every reached state every
//! component-side signal must equal its RTL twin.

use crate::core::*;
use num_bigint::BigUint;
use serde_json::{Value as J, json};
use std::collections::{BTreeMap, BTreeSet, VecDeque};
use std::path::PathBuf;
use std::sync::Once;
use veryl_analyzer::value::{Value, ValueBigUint, ValueU64};
use veryl_analyzer::{Analyzer, AnalyzerError};
use veryl_metadata::Metadata;
use veryl_parser::Parser;
use veryl_parser::resource_table;
use veryl_simulator::component::host::HostValue;
use veryl_simulator::component::loader::register_static_component;
use veryl_simulator::ir::{ComponentLibrary, Event};
use veryl_simulator::{Config, Simulator};

const STACK: usize = 64 * 1024 * 1024;
pub const WIDTHS: [usize; 14] = [1, 2, 7, 8, 31, 32, 33, 63, 64, 65, 127, 128, 129, 200];
const COMPONENTS: [&str; 6] = ["c35_vmirror", "c35_wmirror", "c35_umirror", "c35_observer", "c35_param_probe", "c35_echo"];

static REGISTER: Once = Once::new();

fn register_static() {
    REGISTER.call_once(|| {
        for (name, vt) in super::c35_guest::TABLE.iter() {
            register_static_component(name, vt);
        }
    });
}

/// `libvmc_comp_fixture.so`, built on demand from `crates/comp_fixture` (a standalone package)
/// into `<target>/comp_fixture`.
fn fixture_so() -> Result<PathBuf, String> {
    let target = bin_dir().parent().map(|p| p.to_path_buf()).unwrap_or_else(|| PathBuf::from("/verif/.target"));
    let tdir = target.join("comp_fixture");
    let so = tdir.join("debug").join("libvmc_comp_fixture.so");
    let manifest = PathBuf::from(env!("CARGO_MANIFEST_DIR")).join("../comp_fixture/Cargo.toml");
    let src = PathBuf::from(env!("CARGO_MANIFEST_DIR")).join("../comp_fixture/src/lib.rs");
    let fresh = |so: &PathBuf| -> bool {
        let (Ok(a), Ok(b)) = (std::fs::metadata(so).and_then(|m| m.modified()), std::fs::metadata(&src).and_then(|m| m.modified())) else {
            return so.is_file();
        };
        a >= b
    };
    if so.is_file() && fresh(&so) {
        return Ok(so);
    }
    let out = std::process::Command::new("cargo")
        .args(["build", "--offline", "--manifest-path"])
        .arg(&manifest)
        .arg("--target-dir")
        .arg(&tdir)
        .output()
        .map_err(|e| format!("cannot run cargo: {e}"))?;
    if !out.status.success() || !so.is_file() {
        return Err(format!("building the fixture cdylib failed: {}", String::from_utf8_lossy(&out.stderr).chars().rev().take(600).collect::<String>().chars().rev().collect::<String>()));
    }
    Ok(so)
}

// ---------------------------------------------------------------------------- bit vectors

#[derive(Clone, Debug, PartialEq, Eq, PartialOrd, Ord, Hash)]
pub struct Bits {
    pub w: usize,
    pub p: Vec<u64>,
    pub m: Vec<u64>,
}

fn nwords(w: usize) -> usize {
    w.div_ceil(64).max(1)
}

impl Bits {
    fn new(w: usize, mut p: Vec<u64>, mut m: Vec<u64>) -> Bits {
        let n = nwords(w);
        p.resize(n, 0);
        m.resize(n, 0);
        let rem = w % 64;
        if rem != 0 {
            p[n - 1] &= u64::MAX >> (64 - rem);
            m[n - 1] &= u64::MAX >> (64 - rem);
        }
        Bits { w, p, m }
    }
    fn from_u64(w: usize, v: u64) -> Bits {
        Bits::new(w, vec![v], vec![])
    }
    fn to_value(&self) -> Value {
        if self.w <= 64 {
            Value::U64(ValueU64 { payload: self.p[0], mask_xz: self.m[0], width: self.w as u32, signed: false })
        } else {
            let big = |ws: &[u64]| -> BigUint {
                let bytes: Vec<u8> = ws.iter().flat_map(|w| w.to_le_bytes()).collect();
                BigUint::from_bytes_le(&bytes)
            };
            Value::BigUint(ValueBigUint { payload: Box::new(big(&self.p)), mask_xz: Box::new(big(&self.m)), width: self.w as u32, signed: false })
        }
    }
    fn from_value(v: &Value) -> Bits {
        match v {
            Value::U64(x) => Bits::new(x.width as usize, vec![x.payload], vec![x.mask_xz]),
            Value::BigUint(x) => Bits::new(x.width as usize, x.payload.iter_u64_digits().collect(), x.mask_xz.iter_u64_digits().collect()),
        }
    }
    /// what a payload-only guest API sees / drives: X reads as 0, Z as 1, no mask
    fn payload_only(&self) -> Bits {
        Bits { w: self.w, p: self.p.clone(), m: vec![0; self.m.len()] }
    }
    fn two_state(&self) -> bool {
        self.m.iter().all(|x| *x == 0)
    }
    fn text(&self) -> String {
        let mut s = String::new();
        for i in (0..self.w).rev() {
            let p = (self.p[i / 64] >> (i % 64)) & 1;
            let m = (self.m[i / 64] >> (i % 64)) & 1;
            s.push(match (m, p) {
                (0, 0) => '0',
                (0, 1) => '1',
                (1, 0) => 'x',
                _ => 'z',
            });
        }
        format!("{}'b{}", self.w, s)
    }
    fn bit_code(&self, i: usize) -> u64 {
        if i >= self.w {
            return 0;
        }
        let p = (self.p[i / 64] >> (i % 64)) & 1;
        let m = (self.m[i / 64] >> (i % 64)) & 1;
        (m << 1) | p
    }
}

/// Corner alphabet of one width: all combinations of per-word letters + single-bit walkers.
pub fn corner_values(w: usize, four_state: bool) -> Vec<Bits> {
    let letters2: Vec<(u64, u64)> = vec![(0, 0), (u64::MAX, 0), (0xAAAA_AAAA_AAAA_AAAA, 0), (0x8000_0000_0000_0001, 0)];
    let letters4: Vec<(u64, u64)> = vec![
        (0, 0),
        (u64::MAX, 0),
        (0, u64::MAX),                                   // all X
        (u64::MAX, u64::MAX),                            // all Z
        (0xAAAA_AAAA_AAAA_AAAA, 0x0F0F_0F0F_0F0F_0F0F), // 0,1,X,Z mixed
        (0x8000_0000_0000_0001, 0x8000_0000_0000_0001), // Z at both ends of the word
    ];
    let letters = if four_state { letters4 } else { letters2 };
    let n = nwords(w);
    let mut out: BTreeSet<Bits> = BTreeSet::new();
    let total = letters.len().pow(n as u32);
    for mut k in 0..total {
        let mut p = vec![];
        let mut m = vec![];
        for _ in 0..n {
            let (a, b) = letters[k % letters.len()];
            k /= letters.len();
            p.push(a);
            m.push(b);
        }
        out.insert(Bits::new(w, p, m));
    }
    // narrow ports: every value
    if w <= 4 {
        let digits: u64 = if four_state { 4 } else { 2 };
        for mut k in 0..digits.pow(w as u32) {
            let (mut p, mut m) = (0u64, 0u64);
            for i in 0..w {
                let dgt = k % digits;
                k /= digits;
                p |= (dgt & 1) << i;
                m |= (dgt >> 1) << i;
            }
            out.insert(Bits::new(w, vec![p], vec![m]));
        }
    }
    // walkers: a single 1 / X / Z at interesting positions, on a background of 0s and of 1s
    let mut pos: BTreeSet<usize> = [0usize, 1, 62, 63, 64, 65, 126, 127, 128, 129, 191, 192].into_iter().filter(|i| *i < w).collect();
    pos.insert(w - 1);
    for i in pos {
        for (bit, mask) in if four_state { vec![(1u64, 0u64), (0, 1), (1, 1)] } else { vec![(1, 0)] } {
            for bg in [0u64, u64::MAX] {
                let mut p = vec![bg; n];
                let mut m = vec![0u64; n];
                // 2-state walker: the opposite of the background; X / Z walkers: payload 0 / 1
                let bit = if mask == 0 { (bg & 1) ^ 1 } else { bit };
                p[i / 64] = (p[i / 64] & !(1 << (i % 64))) | (bit << (i % 64));
                m[i / 64] |= mask << (i % 64);
                out.insert(Bits::new(w, p, m));
            }
        }
    }
    out.into_iter().collect()
}

// ---------------------------------------------------------------------------- design texts

fn expr_of(w: usize) -> String {
    if w == 1 { "{d}".to_string() } else { format!("{{d[{}:1], d[0]}}", w - 1) }
}

pub fn value_design(w: usize) -> String {
    let e = expr_of(w);
    let u = w <= 64;
    let mut s = format!(
        "#[test(c35v)]\nmodule C35V (\n    clk   : input  clock    ,\n    d     : input  logic<{w}>,\n    q_ff  : output logic<{w}>,\n    q_fe  : output logic<{w}>,\n    q_v   : output logic<{w}>,\n    q_e   : output logic<{w}>,\n    q_w   : output logic<{w}>,\n"
    );
    if u {
        s.push_str(&format!("    q_u   : output logic<{w}>,\n"));
    }
    s.push_str("    o_ones: output logic<16>,\n    o_xs  : output logic<16>,\n    o_zs  : output logic<16>,\n    o_wid : output logic<16>,\n    o_top : output logic<2> ,\n    o_b63 : output logic<2> ,\n    o_b64 : output logic<2> ,\n    o_four: output logic    ,\n) {\n");
    s.push_str(&format!("    var v_v: logic<{w}>;\n    var v_e: logic<{w}>;\n    var v_w: logic<{w}>;\n"));
    if u {
        s.push_str(&format!("    var v_u: logic<{w}>;\n"));
    }
    s.push_str("    var v_ones: logic<16>;\n    var v_xs: logic<16>;\n    var v_zs: logic<16>;\n    var v_wid: logic<16>;\n    var v_top: logic<2>;\n    var v_b63: logic<2>;\n    var v_b64: logic<2>;\n    var v_four: logic;\n");
    s.push_str(&format!("    always_ff (clk) {{\n        q_ff = d;\n        q_fe = {e};\n    }}\n"));
    s.push_str("    inst m_v: $comp::c35_vmirror (\n        clk     ,\n        d       ,\n        q  : v_v,\n    );\n");
    s.push_str(&format!("    inst m_e: $comp::c35_vmirror (\n        clk     ,\n        d  : {e},\n        q  : v_e,\n    );\n"));
    s.push_str("    inst m_w: $comp::c35_wmirror (\n        clk     ,\n        d       ,\n        q  : v_w,\n    );\n");
    if u {
        s.push_str("    inst m_u: $comp::c35_umirror (\n        clk     ,\n        d       ,\n        q  : v_u,\n    );\n");
    }
    s.push_str("    inst m_o: $comp::c35_observer (\n        clk          ,\n        d            ,\n        ones  : v_ones,\n        xs    : v_xs  ,\n        zs    : v_zs  ,\n        width : v_wid ,\n        top   : v_top ,\n        b63   : v_b63 ,\n        b64   : v_b64 ,\n        four  : v_four,\n    );\n");
    s.push_str("    assign q_v    = v_v;\n    assign q_e    = v_e;\n    assign q_w    = v_w;\n");
    if u {
        s.push_str("    assign q_u    = v_u;\n");
    }
    s.push_str("    assign o_ones = v_ones;\n    assign o_xs   = v_xs;\n    assign o_zs   = v_zs;\n    assign o_wid  = v_wid;\n    assign o_top  = v_top;\n    assign o_b63  = v_b63;\n    assign o_b64  = v_b64;\n    assign o_four = v_four;\n}\n");
    s
}

/// 2-state parameter corner values of one width.
fn param_values(w: usize) -> Vec<Bits> {
    let n = nwords(w);
    let mut v = vec![Bits::new(w, vec![u64::MAX; n], vec![]), Bits::new(w, vec![0x5555_5555_5555_5555; n], vec![])];
    let mut p = vec![0u64; n];
    p[0] |= 1;
    p[(w - 1) / 64] |= 1 << ((w - 1) % 64);
    v.push(Bits::new(w, p, vec![]));
    v.sort();
    v.dedup();
    v
}

fn hex_literal(b: &Bits) -> String {
    let mut s = String::new();
    for w in b.p.iter().rev() {
        s.push_str(&format!("{w:016x}"));
    }
    let digits = b.w.div_ceil(4);
    let s = &s[s.len() - digits..];
    format!("{}'h{}", b.w, s)
}

pub fn param_design() -> (String, Vec<(String, Bits)>) {
    let mut ports = String::new();
    let mut body = String::new();
    let mut expect = vec![];
    let mut k = 0;
    for w in WIDTHS {
        for v in param_values(w) {
            ports.push_str(&format!("    o{k}: output logic<{w}>,\n"));
            body.push_str(&format!(
                "    var v{k}: logic<{w}>;\n    inst pr{k}: $comp::c35_param_probe #(\n        V: {},\n    ) (\n        clk     ,\n        out: v{k},\n    );\n    assign o{k} = v{k};\n",
                hex_literal(&v)
            ));
            expect.push((format!("o{k}"), v));
            k += 1;
        }
    }
    let s = format!("#[test(c35p)]\nmodule C35P (\n    clk: input clock,\n{ports}) {{\n    var e: $comp::c35_echo;\n{body}}}\n");
    (s, expect)
}

pub const TIMING_DESIGN: &str = r#"#[test(c35t)]
module C35T (
    clk  : input  clock   ,
    d    : input  logic<2>,
    q_ff : output logic<2>,
    q_c  : output logic<2>,
    r2_ff: output logic<2>,
    r2_c : output logic<2>,
    q2_c : output logic<2>,
    q3_c : output logic<2>,
    s_ff : output logic<2>,
    s_c  : output logic<2>,
) {
    var v_c : logic<2>;
    var v_q2: logic<2>;
    var v_q3: logic<2>;
    always_ff (clk) {
        q_ff  = d;
        r2_ff = q_ff;
        r2_c  = v_c;
    }
    inst m1: $comp::c35_vmirror (
        clk     ,
        d       ,
        q  : v_c,
    );
    inst m2: $comp::c35_vmirror (
        clk      ,
        d  : q_ff,
        q  : v_q2,
    );
    inst m3: $comp::c35_vmirror (
        clk      ,
        d  : v_c ,
        q  : v_q3,
    );
    assign q_c  = v_c;
    assign q2_c = v_q2;
    assign q3_c = v_q3;
    assign s_ff = q_ff + 2'd1;
    assign s_c  = v_c + 2'd1;
}
"#;

// ---------------------------------------------------------------------------- running

#[derive(Clone, Copy, Debug, PartialEq, Eq, PartialOrd, Ord)]
pub enum Transport {
    Static,
    Dlopen,
}

fn cfg_name(c: &Config, t: Transport) -> String {
    format!(
        "{}{}{}{}:{:?}",
        if c.use_4state { "4state" } else { "2state" },
        if c.use_jit { "+jit" } else { "+interp" },
        if c.disable_ff_opt { "+noffopt" } else { "" },
        if c.aot_c { "+cc" } else { "" },
        t
    )
}

fn build_sim(code: &str, top: &str, config: &Config, t: Transport) -> Result<Simulator, String> {
    register_static();
    let metadata = Metadata::create_default("prj").map_err(|e| e.to_string())?;
    let parser = Parser::parse(code, &"c35.veryl").map_err(|e| format!("parse: {e}"))?;
    Analyzer::new(&metadata).clear();
    let analyzer = Analyzer::new(&metadata);
    veryl_analyzer::tb_component::insert_external_components(&COMPONENTS);
    let mut context = veryl_analyzer::Context::default();
    let mut errors = vec![];
    let mut ir = veryl_analyzer::ir::Ir::default();
    errors.append(&mut analyzer.analyze_pass1("prj", &parser.veryl));
    errors.append(&mut Analyzer::analyze_post_pass1());
    errors.append(&mut analyzer.analyze_pass2(&parser.veryl, &mut context, Some(&mut ir)));
    errors.append(&mut Analyzer::analyze_post_pass2(&ir));
    let errors: Vec<_> = errors
        .into_iter()
        .filter(|x| x.is_error() && !matches!(x, AnalyzerError::UnusedVariable { .. } | AnalyzerError::UnassignVariable { .. }))
        .collect();
    if !errors.is_empty() {
        return Err(format!("analyzer: {}", errors.iter().map(|e| e.to_string()).collect::<Vec<_>>().join("; ")));
    }
    let mut config = config.clone();
    if t == Transport::Dlopen {
        let so = fixture_so()?;
        for n in COMPONENTS {
            config.component_libraries.insert(n.to_string(), ComponentLibrary { path: so.clone(), type_name: n.to_string() });
        }
    }
    let top = resource_table::insert_str(top);
    let sir = veryl_simulator::ir::build_ir(&ir, top, &config).map_err(|e| format!("build_ir: {e:?}"))?;
    let mut sim = Simulator::new(sir, None);
    sim.init_components(0, "c35").map_err(|e| format!("init_components: {e}"))?;
    Ok(sim)
}

#[derive(Default)]
struct PartOut {
    evaluations: u64,
    states: u64,
    transitions: u64,
    findings: Vec<(String, String, J, String, String)>, // class, what, case, expected, observed
    skipped: Option<String>,
    distinct: BTreeSet<String>,
    ff_mismatch: u64,
    ff_mismatch_sample: Option<String>,
}

fn getb(sim: &mut Simulator, port: &str) -> Option<Bits> {
    sim.get(port).map(|v| Bits::from_value(&v))
}

fn run_values(w: usize, config: &Config, t: Transport) -> PartOut {
    let mut out = PartOut::default();
    let code = value_design(w);
    let mut sim = match build_sim(&code, "C35V", config, t) {
        Ok(s) => s,
        Err(e) => {
            out.skipped = Some(e);
            return out;
        }
    };
    let Some(clk) = sim.get_clock("clk") else {
        out.skipped = Some("no clock event".into());
        return out;
    };
    let four = config.use_4state;
    let cname = cfg_name(config, t);
    for v in corner_values(w, four) {
        sim.set("d", v.to_value());
        sim.step(&clk);
        out.evaluations += 1;
        out.distinct.insert(v.text());
        let mut check = |sim: &mut Simulator, port: &str, what: &str, exp: &Bits, out: &mut PartOut| {
            let got = getb(sim, port);
            if got.as_ref() != Some(exp) {
                // which part is broken: payload / mask / partial last word
                let part = match &got {
                    Some(g) if g.p != exp.p && g.m == exp.m => "payload",
                    Some(g) if g.m != exp.m && g.p == exp.p => {
                        if g.m[..g.m.len() - 1] == exp.m[..exp.m.len() - 1] { "mask-last-word" } else { "mask" }
                    }
                    Some(_) => "payload+mask",
                    None => "missing",
                };
                let wclass = if w <= 64 { "le64" } else { "gt64" };
                out.findings.push((
                    format!("value:{port}:{part}:{wclass}"),
                    format!("{what}: component-side value differs from the driven value"),
                    json!({"part": "values", "width": w, "config": cname, "driven": v.text(), "port": port, "design": value_design(w)}),
                    exp.text(),
                    got.map(|g| g.text()).unwrap_or_else(|| "None".into()),
                ));
            }
        };
        // RTL flip-flops are only a cross-check: the ground truth is the driven value. A flip-flop
        // that does not hold the driven value is a simulator matter (observed: Z becomes X with
        // `disable_ff_opt`) and is counted, not reported as a C35 violation.
        let ff = getb(&mut sim, "q_ff");
        if ff.as_ref() != Some(&v) {
            out.ff_mismatch += 1;
            if out.ff_mismatch_sample.is_none() {
                out.ff_mismatch_sample = Some(format!("{cname} width {w}: driven {} flip-flop {}", v.text(), ff.map(|g| g.text()).unwrap_or_default()));
            }
        }
        let fe = v.clone();
        check(&mut sim, "q_v", "read/write mirror (direct connection)", &v, &mut out);
        check(&mut sim, "q_e", "read/write mirror (expression connection)", &fe, &mut out);
        check(&mut sim, "q_w", "read_words/write_words mirror", &v.payload_only(), &mut out);
        if w <= 64 {
            check(&mut sim, "q_u", "read_u64/write_u64 mirror", &v.payload_only(), &mut out);
        }
        // observer digests
        let mut ones = 0u64;
        let mut xs = 0u64;
        let mut zs = 0u64;
        for i in 0..w {
            match v.bit_code(i) {
                1 => ones += 1,
                2 => xs += 1,
                3 => zs += 1,
                _ => {}
            }
        }
        check(&mut sim, "o_ones", "observer: number of 1 bits seen", &Bits::from_u64(16, ones), &mut out);
        check(&mut sim, "o_xs", "observer: number of X bits seen", &Bits::from_u64(16, xs), &mut out);
        check(&mut sim, "o_zs", "observer: number of Z bits seen", &Bits::from_u64(16, zs), &mut out);
        check(&mut sim, "o_wid", "observer: port width seen", &Bits::from_u64(16, w as u64), &mut out);
        check(&mut sim, "o_top", "observer: state of the MSB seen", &Bits::from_u64(2, v.bit_code(w - 1)), &mut out);
        check(&mut sim, "o_b63", "observer: state of bit 63 seen", &Bits::from_u64(2, v.bit_code(63)), &mut out);
        check(&mut sim, "o_b64", "observer: state of bit 64 seen", &Bits::from_u64(2, v.bit_code(64)), &mut out);
        check(&mut sim, "o_four", "observer: is_4state", &Bits::from_u64(1, four as u64), &mut out);
        if out.findings.len() > 40 {
            break;
        }
    }
    out
}

fn run_params(config: &Config, t: Transport) -> PartOut {
    let mut out = PartOut::default();
    let (code, expect) = param_design();
    let mut sim = match build_sim(&code, "C35P", config, t) {
        Ok(s) => s,
        Err(e) => {
            out.skipped = Some(e);
            return out;
        }
    };
    let cname = cfg_name(config, t);
    let clk = sim.get_clock("clk");
    for phase in ["after on_init", "after one clock"] {
        if phase == "after one clock" {
            if let Some(c) = &clk {
                sim.step(c);
            }
        }
        for (port, exp) in &expect {
            out.evaluations += 1;
            out.distinct.insert(exp.text());
            let got = getb(&mut sim, port);
            if got.as_ref() != Some(exp) {
                out.findings.push((
                    format!("param:{}", if exp.w <= 64 { "le64" } else { "gt64" }),
                    format!("parameter value driven back by the component differs ({phase})"),
                    json!({"part": "params", "config": cname, "port": port, "width": exp.w}),
                    exp.text(),
                    got.map(|g| g.text()).unwrap_or_else(|| "None".into()),
                ));
            }
        }
    }
    // method arguments / returns
    let inst = resource_table::insert_str("e");
    let set = resource_table::insert_str("set");
    let get = resource_table::insert_str("get");
    for w in WIDTHS {
        for v in param_values(w) {
            out.evaluations += 1;
            let arg = HostValue::Bits { words: v.p.clone(), width: w as u32 };
            let r1 = sim.call_component_method(inst, set, &[arg.clone()]);
            let r2 = sim.call_component_method(inst, get, &[]);
            let ok = matches!(r1, Ok(HostValue::Unit)) && r2.as_ref().ok() == Some(&arg);
            if !ok {
                out.findings.push((
                    format!("method-arg:{}", if w <= 64 { "le64" } else { "gt64" }),
                    "method argument does not round-trip through set()/get()".into(),
                    json!({"part": "methods", "config": cname, "width": w, "value": v.text()}),
                    format!("{arg:?}"),
                    format!("set -> {r1:?}, get -> {r2:?}"),
                ));
            }
        }
    }
    out
}

const T_PORTS: [&str; 8] = ["q_ff", "q_c", "r2_ff", "r2_c", "q2_c", "q3_c", "s_ff", "s_c"];
/// (component-side signal, RTL twin)
const T_PAIRS: [(&str, &str, &str); 5] = [
    ("q_c", "q_ff", "mirror next to FF (pre-edge read, NBA-like commit)"),
    ("r2_c", "r2_ff", "FF fed by a component output (output visible together with FF updates)"),
    ("q2_c", "r2_ff", "component fed by an FF (reads the pre-edge value)"),
    ("q3_c", "r2_ff", "component fed by a component"),
    ("s_c", "s_ff", "combinational logic after a component output"),
];

/// X and Z are both "unknown" for the timing part: an RTL flip-flop may turn a driven Z into X
/// (observed with `disable_ff_opt`), which is not a timing matter.
fn xz_merged(b: &Bits) -> Bits {
    let mut r = b.clone();
    for i in 0..r.p.len() {
        r.p[i] &= !r.m[i];
    }
    r
}

fn run_timing(config: &Config, t: Transport) -> PartOut {
    let mut out = PartOut::default();
    let cname = cfg_name(config, t);
    // Letters for the RTL-twin comparison: the four known values plus all-X. Partially unknown
    // values are left to the component-only pass below: the simulator's own RTL flip-flop does not
    // transport them faithfully in every configuration (see `rtl_ff_differs_*` in the evidence),
    // so it cannot serve as the reference for them.
    let mut letters: Vec<Bits> = (0..4u64).map(|p| Bits::from_u64(2, p)).collect();
    let mut all_letters: Vec<Bits> = letters.clone();
    if config.use_4state {
        letters.push(Bits::new(2, vec![0], vec![3]));
        all_letters.clear();
        for p in 0..4u64 {
            for m in 0..4u64 {
                all_letters.push(Bits::new(2, vec![p], vec![m]));
            }
        }
    }
    let mut sim = match build_sim(TIMING_DESIGN, "C35T", config, t) {
        Ok(s) => s,
        Err(e) => {
            out.skipped = Some(e);
            return out;
        }
    };
    let Some(clk) = sim.get_clock("clk") else {
        out.skipped = Some("no clock event".into());
        return out;
    };
    // The design is a depth-2 pipeline, so its product state is determined by the last two
    // stimulus letters: driving every triple (a, b, c) back to back visits every state and takes
    // every transition (state x letter). States and transitions are *measured* from the observed
    // port values; determinism of (state, letter) -> state is checked on the way.
    let n = letters.len();
    if std::env::var("VMC_C35_DEBUG_FF").is_ok() {
        for l in &letters {
            sim.set("d", l.to_value());
            sim.step(&clk);
            let raw = getb(&mut sim, "q_ff").unwrap();
            let rc = getb(&mut sim, "q_c").unwrap();
            eprintln!("{cname}: d={} q_ff={} q_c={}", l.text(), raw.text(), rc.text());
        }
    }
    let mut states: BTreeSet<Vec<Bits>> = BTreeSet::new();
    let mut trans: BTreeMap<(Vec<Bits>, usize), Vec<Bits>> = BTreeMap::new();
    let observe = |sim: &mut Simulator| -> Vec<Bits> { T_PORTS.iter().map(|p| getb(sim, p).map(|b| xz_merged(&b)).unwrap_or_else(|| Bits::from_u64(2, 0))).collect() };
    let mut hist: Vec<usize> = vec![];
    let mut cur = observe(&mut sim);
    states.insert(cur.clone());
    for a in 0..n {
        for b in 0..n {
            for c in 0..n {
                for k in [a, b, c] {
                    sim.set("d", letters[k].to_value());
                    sim.step(&clk);
                    out.evaluations += 1;
                    hist.push(k);
                    let nxt = observe(&mut sim);
                    let stim = || -> Vec<String> { hist.iter().rev().take(4).rev().map(|k| letters[*k].text()).collect() };
                    // ground truth: q_* = previous letter, r2_* / q2 / q3 = the letter before that
                    let port = |name: &str| -> &Bits { &nxt[T_PORTS.iter().position(|p| *p == name).unwrap()] };
                    let d1 = xz_merged(&letters[k]);
                    if port("q_ff") != &d1 {
                        out.ff_mismatch += 1;
                        if out.ff_mismatch_sample.is_none() {
                            out.ff_mismatch_sample = Some(format!("{cname} timing: driven {} flip-flop {}", d1.text(), port("q_ff").text()));
                        }
                    }
                    for (cport, rport, what) in T_PAIRS {
                        if port(cport) != port(rport) {
                            out.findings.push((
                                format!("timing:{cport}"),
                                format!("{what}: `{cport}` differs from its RTL twin `{rport}`"),
                                json!({"part": "timing", "config": cname, "last_stimulus": stim(), "steps_since_start": hist.len(), "design": TIMING_DESIGN}),
                                port(rport).text(),
                                port(cport).text(),
                            ));
                        }
                    }
                    if hist.len() >= 2 {
                        let d2 = xz_merged(&letters[hist[hist.len() - 2]]);
                        for name in ["r2_c", "q2_c", "q3_c"] {
                            if port(name) != &d2 {
                                out.findings.push((
                                    format!("timing:{name}:not-two-cycles"),
                                    format!("`{name}` is not the stimulus of two cycles ago"),
                                    json!({"part": "timing", "config": cname, "last_stimulus": stim(), "design": TIMING_DESIGN}),
                                    d2.text(),
                                    port(name).text(),
                                ));
                            }
                        }
                    }
                    if let Some(prev) = trans.insert((cur.clone(), k), nxt.clone()) {
                        if prev != nxt {
                            out.findings.push((
                                "timing:nondeterministic-transition".into(),
                                "the same product state and stimulus led to two different next states".into(),
                                json!({"part": "timing", "config": cname, "last_stimulus": stim()}),
                                format!("{:?}", prev.iter().map(|b| b.text()).collect::<Vec<_>>()),
                                format!("{:?}", nxt.iter().map(|b| b.text()).collect::<Vec<_>>()),
                            ));
                        }
                    }
                    states.insert(nxt.clone());
                    cur = nxt;
                    if out.findings.len() > 20 {
                        return out;
                    }
                }
            }
        }
    }
    // component-only pass, every 4-state letter, exact X/Z: a mirror holds the previous letter,
    // a mirror behind a mirror the one before
    let mut h2: Vec<usize> = vec![];
    for a in 0..all_letters.len() {
        for b in 0..all_letters.len() {
            for k in [a, b] {
                sim.set("d", all_letters[k].to_value());
                sim.step(&clk);
                out.evaluations += 1;
                h2.push(k);
                let q_c = getb(&mut sim, "q_c");
                let q3_c = getb(&mut sim, "q3_c");
                let stim: Vec<String> = h2.iter().rev().take(3).rev().map(|k| all_letters[*k].text()).collect();
                if q_c.as_ref() != Some(&all_letters[k]) {
                    out.findings.push((
                        "timing:q_c:not-previous-letter".into(),
                        "the mirror does not hold the previous stimulus (exact X/Z)".into(),
                        json!({"part": "timing/component-only", "config": cname, "last_stimulus": stim, "design": TIMING_DESIGN}),
                        all_letters[k].text(),
                        q_c.map(|b| b.text()).unwrap_or_default(),
                    ));
                }
                if h2.len() >= 2 {
                    let e = &all_letters[h2[h2.len() - 2]];
                    if q3_c.as_ref() != Some(e) {
                        out.findings.push((
                            "timing:q3_c:not-two-letters-ago".into(),
                            "the mirror behind a mirror does not hold the stimulus of two cycles ago (exact X/Z)".into(),
                            json!({"part": "timing/component-only", "config": cname, "last_stimulus": stim, "design": TIMING_DESIGN}),
                            e.text(),
                            q3_c.map(|b| b.text()).unwrap_or_default(),
                        ));
                    }
                }
                if out.findings.len() > 20 {
                    return out;
                }
            }
        }
    }
    out.states = states.len() as u64;
    out.transitions = trans.len() as u64;
    out.distinct = states.iter().map(|s| format!("{:?}", s.iter().map(|b| b.text()).collect::<Vec<_>>())).collect();
    out
}

#[derive(Clone)]
enum Job {
    Values(usize),
    Params,
    Timing,
}

pub fn run(ctx: &Ctx) -> Report {
    let mut rep = Report::new(Level::Exploration);
    if std::env::var("VMC_TRACE_PANICS").is_err() {
        install_quiet_panic_hook();
    }
    let budget = ctx.budget(40.0, 600.0);
    let mut configs: Vec<Config> = Config::all();
    if !ctx.thorough() {
        // quick: the cc backend needs a C compile per design (0.2-0.6 s each): thorough only
        configs.retain(|c| !c.aot_c);
    }
    let mut transports = vec![Transport::Static];
    let so = fixture_so();
    if so.is_ok() {
        transports.push(Transport::Dlopen);
    }
    let mut jobs: Vec<(Job, Config, Transport)> = vec![];
    for c in &configs {
        for t in &transports {
            jobs.push((Job::Timing, c.clone(), *t));
            jobs.push((Job::Params, c.clone(), *t));
            for w in WIDTHS {
                jobs.push((Job::Values(w), c.clone(), *t));
            }
        }
    }
    if let Ok(only) = std::env::var("VMC_C35_ONLY") {
        jobs.retain(|(j, c, t)| {
            let n = match j {
                Job::Values(w) => format!("values:{w}:{}", cfg_name(c, *t)),
                Job::Params => format!("params:{}", cfg_name(c, *t)),
                Job::Timing => format!("timing:{}", cfg_name(c, *t)),
            };
            n.contains(&only)
        });
    }
    let n_jobs = jobs.len();
    let results: Vec<Option<(Job, String, Result<PartOut, String>)>> = par_map(&jobs, |(j, c, t)| {
        if ctx.elapsed() > budget {
            return None;
        }
        let (j2, c2, t2) = (j.clone(), c.clone(), *t);
        let r = run_isolated(STACK, move || match j2 {
            Job::Values(w) => run_values(w, &c2, t2),
            Job::Params => run_params(&c2, t2),
            Job::Timing => run_timing(&c2, t2),
        });
        Some((j.clone(), cfg_name(c, *t), r))
    });
    let mut evaluations = 0u64;
    let mut states = 0u64;
    let mut transitions = 0u64;
    let mut completed = 0u64;
    let mut distinct: BTreeSet<String> = BTreeSet::new();
    let mut skipped: BTreeMap<String, u64> = BTreeMap::new();
    let mut per_part: BTreeMap<&'static str, u64> = BTreeMap::new();
    let mut sig_count: BTreeMap<String, u64> = BTreeMap::new();
    let mut ff_mismatch = 0u64;
    let mut ff_sample: Option<String> = None;
    for r in results.into_iter().flatten() {
        completed += 1;
        let (job, cname, res) = r;
        let part = match job {
            Job::Values(_) => "values",
            Job::Params => "params+methods",
            Job::Timing => "timing",
        };
        match res {
            Err(p) => rep.machinery(format!("{part} {cname}: panicked: {p}")),
            Ok(o) => {
                if let Some(s) = o.skipped {
                    *skipped.entry(format!("{part}: {}", s.chars().take(160).collect::<String>())).or_insert(0) += 1;
                    continue;
                }
                evaluations += o.evaluations;
                ff_mismatch += o.ff_mismatch;
                if ff_sample.is_none() {
                    ff_sample = o.ff_mismatch_sample.clone();
                }
                *per_part.entry(part).or_insert(0) += o.evaluations;
                states += o.states;
                transitions += o.transitions;
                if matches!(job, Job::Values(_)) {
                    distinct.extend(o.distinct.into_iter());
                }
                for (class, what, case, exp, obs) in o.findings {
                    let sig = format!("C35:{class}");
                    let n = sig_count.entry(sig.clone()).or_insert(0);
                    *n += 1;
                    if *n <= 25 {
                        rep.violation(Violation { signature: sig, what, case, expected: json!(exp), observed: json!(obs) });
                    }
                }
            }
        }
    }
    let capped = completed < n_jobs as u64;
    // a few of the cases actually run: the first driven values and the first jobs
    for v in distinct.iter().take(4) {
        rep.sample(json!({"driven_port_value": v}));
    }
    for (j, c, t) in jobs.iter().take(3) {
        let n = match j {
            Job::Values(w) => format!("values:{w}:{}", cfg_name(c, *t)),
            Job::Params => format!("params:{}", cfg_name(c, *t)),
            Job::Timing => format!("timing:{}", cfg_name(c, *t)),
        };
        rep.sample(json!({"job": n}));
    }
    rep.set("evaluations", evaluations);
    rep.set("evaluations_by_part", json!(per_part));
    rep.set("states", states);
    rep.set("transitions", transitions);
    rep.set("distinct_nontrivial", distinct.len() as u64);
    rep.set("jobs_total", n_jobs as u64);
    rep.set("jobs_completed", completed);
    rep.set("widths", json!(WIDTHS));
    rep.set("simulator_configs", json!(configs.iter().map(|c| cfg_name(c, Transport::Static).replace(":Static", "")).collect::<Vec<_>>()));
    rep.set("transports", json!(transports.iter().map(|t| format!("{t:?}")).collect::<Vec<_>>()));
    rep.set("skipped_jobs", json!(skipped));
    rep.set("rtl_ff_differs_from_driven_value", ff_mismatch);
    rep.set("rtl_ff_differs_sample", json!(ff_sample));
    rep.set("violation_cases_by_signature", json!(sig_count));
    rep.set("capped_by_budget", capped);
    rep.set("exhaustive", !capped);
    rep.set(
        "rule",
        "one evaluation = one driven value / parameter / method call / stimulus sequence whose component-side results were compared; distinct_nontrivial = number of distinct driven port values (all widths); states/transitions = product states (all port values) and stimulus steps of the timing design, summed over configurations",
    );
    rep.assume("the WebAssembly transport clause is NOT checked: no wasm32 target is installed (`rustup target list --installed` = x86_64-unknown-linux-gnu only) and the repository ships no prebuilt .wasm component");
    rep.assume("native transports: in-process static registration and dlopen of the same fixture source");
    rep.assume("parameters and method arguments are two-state by contract (HostValue has no mask)");
    rep.assume("read_words/write_words and read_u64/write_u64 drop X/Z by contract: X reads as payload 0, Z as payload 1, the written value has no mask");
    if let Err(e) = &so {
        rep.machinery(format!("the dlopen transport was not exercised: {e}"));
    }
    if !skipped.is_empty() {
        rep.machinery(format!("{} job kinds could not run: {:?}", skipped.len(), skipped.keys().take(3).collect::<Vec<_>>()));
    }
    if distinct.len() < 2 && std::env::var("VMC_C35_ONLY").is_err() {
        rep.machinery("vacuity guard: fewer than 2 distinct values driven");
    }
    rep
}

//! C16 — clock-domain crossings are always caught.
//!
//! Engine E1 (finite family): abstract two-domain designs **CD**.  One module with clocks and
//! resets in `'a` and `'b`, data inputs in `'a`, `'b` and the implicit domain, data outputs in
//! `'a`, `'b` and un-annotated, two variables and one interface instance whose domain is explicit
//! (`'a` / `'b`) or left to inference; 1..3 items in textual order, each a continuous assign
//! (signal, `&` of two signals, or a conditional expression `if c ? t : e` whose select and
//! then-operand are a literal, a module parameter (both carry no domain) or a signal and whose
//! else-operand is a signal), an `always_comb` with an `if` on a signal, an `always_ff` on
//! one of the clocks, or an instance of a child (ports in one implicit child domain / ports in
//! two explicit child domains with the crossing declared inside the child), each optionally inside
//! `unsafe (cdc) { .. }`.
//!
//! Oracle (reference domain flow, from the abstract design only): every signal gets its domain —
//! the explicit annotation, else the domain of its driver (the `always_ff` clock, or the common
//! domain of the right-hand side; through an implicit-domain child: the domain of the signal on
//! the child's input), else the implicit domain.  An item is a crossing iff the signals it joins
//! (destination, sources, condition, `always_ff` clock; the two sides of a child whose ports share
//! a child domain) carry two different domains.  `mismatch_clock_domain` must be reported iff
//! some item outside `unsafe (cdc)` is a crossing.  An expression joins the domains of ALL its
//! signal operands (both operands of `&`; select, then- and else-operand of a conditional
//! expression, whatever the select evaluates to); literals and parameters carry no domain.
//!
//! The reading is validated against transcriptions of the repository's `clock_domain*` tests.

use crate::checks::gen_abs::{self, Analysis, Histo};
use crate::core::*;
use serde_json::{Value, json};
use std::collections::{BTreeMap, BTreeSet};

#[derive(Clone, Copy, PartialEq, Eq, Debug, Hash, PartialOrd, Ord)]
enum Dom {
    A,
    B,
    /// the implicit domain `'_`
    N,
}

impl Dom {
    fn ann(self) -> &'static str {
        match self {
            Dom::A => "'a ",
            Dom::B => "'b ",
            Dom::N => "",
        }
    }
}

#[derive(Clone, Copy, PartialEq, Eq, Debug, Hash, PartialOrd, Ord)]
enum Sig {
    Ia,
    Ib,
    In,
    Oa,
    Ob,
    On,
    V,
    W,
    /// member `d` of the interface instance `u`
    U,
}

impl Sig {
    fn text(self, tag: &str) -> String {
        match self {
            Sig::Ia => "i_a".into(),
            Sig::Ib => "i_b".into(),
            Sig::In => "i_n".into(),
            Sig::Oa => "o_a".into(),
            Sig::Ob => "o_b".into(),
            Sig::On => "o_n".into(),
            Sig::V => format!("v{tag}"),
            Sig::W => format!("w{tag}"),
            Sig::U => format!("bus{tag}.d"),
        }
    }
    fn idx(self) -> usize {
        self as usize
    }
}

const SRCS: [Sig; 6] = [Sig::Ia, Sig::Ib, Sig::In, Sig::V, Sig::W, Sig::U];
const DSTS: [Sig; 6] = [Sig::Oa, Sig::Ob, Sig::On, Sig::V, Sig::W, Sig::U];

/// Operand of a conditional expression: a literal or the module parameter `P` (no clock
/// domain), or a signal.
#[derive(Clone, Copy, PartialEq, Eq, Debug, Hash, PartialOrd, Ord)]
enum Opd {
    Lit,
    Par,
    S(Sig),
}

impl Opd {
    fn sig(self) -> Option<Sig> {
        match self {
            Opd::S(s) => Some(s),
            _ => None,
        }
    }
}

#[derive(Clone, Copy, PartialEq, Eq, Debug, Hash, PartialOrd, Ord)]
enum Ex {
    S(Sig),
    And(Sig, Sig),
    /// `if c ? t : e`
    Tern(Opd, Opd, Sig),
}

impl Ex {
    /// the signal operands, in textual order
    fn sigs(self) -> Vec<Sig> {
        match self {
            Ex::S(a) => vec![a],
            Ex::And(a, b) => vec![a, b],
            Ex::Tern(c, t, e) => c.sig().into_iter().chain(t.sig()).chain([e]).collect(),
        }
    }
}

#[derive(Clone, Copy, PartialEq, Eq, Debug, Hash, PartialOrd, Ord)]
enum Child {
    /// both ports un-annotated: one child domain
    Same,
    /// `i: input 'x`, `o: output 'y`, the crossing is inside the child under unsafe (cdc)
    Split,
}

#[derive(Clone, Copy, PartialEq, Eq, Debug, Hash, PartialOrd, Ord)]
enum St {
    Assign { dst: Sig, ex: Ex },
    CombIf { cond: Sig, dst: Sig, src: Sig },
    Ff { clk: Dom, dst: Sig, src: Sig },
    Inst { child: Child, i: Sig, o: Sig },
}

impl St {
    fn dst(self) -> Sig {
        match self {
            St::Assign { dst, .. } | St::CombIf { dst, .. } | St::Ff { dst, .. } => dst,
            St::Inst { o, .. } => o,
        }
    }
    fn reads(self) -> Vec<Sig> {
        match self {
            St::Assign { ex, .. } => ex.sigs(),
            St::CombIf { cond, src, .. } => vec![cond, src],
            St::Ff { src, .. } => vec![src],
            St::Inst { i, .. } => vec![i],
        }
    }
}

#[derive(Clone, Copy, PartialEq, Eq, Debug, Hash, PartialOrd, Ord)]
struct Item {
    st: St,
    unsafe_cdc: bool,
}

#[derive(Clone, PartialEq, Eq, Debug, Hash)]
struct Design {
    /// annotation of v, w, u (None = left to inference)
    ann: [Option<Dom>; 3],
    items: Vec<Item>,
}

// ---------------------------------------------------------------------------------------------
// rendering
// ---------------------------------------------------------------------------------------------

const CHILDREN: &str = "module CSame (\n    i: input logic,\n    o: output logic,\n) {\n    assign o = i;\n}\nmodule CSplit (\n    i: input 'p logic,\n    o: output 'q logic,\n) {\n    unsafe (cdc) {\n        assign o = i;\n    }\n}\ninterface IfU {\n    var d: logic;\n}\n";

fn ex_text(e: Ex, tag: &str) -> String {
    match e {
        Ex::S(s) => s.text(tag),
        Ex::And(a, b) => format!("{} & {}", a.text(tag), b.text(tag)),
        Ex::Tern(c, t, e) => {
            let o = |x: Opd, lit: &str| match x {
                Opd::Lit => lit.to_string(),
                Opd::Par => "P".to_string(),
                Opd::S(s) => s.text(tag),
            };
            format!("if {} ? {} : {}", o(c, "1'b1"), o(t, "1'b0"), e.text(tag))
        }
    }
}

fn render_module(d: &Design, tag: &str) -> String {
    let mut body = String::new();
    let a = |x: Option<Dom>| x.map(|d| d.ann()).unwrap_or("");
    body.push_str(&format!("    var v{tag}: {}logic;\n", a(d.ann[0])));
    body.push_str(&format!("    var w{tag}: {}logic;\n", a(d.ann[1])));
    body.push_str(&format!("    inst bus{tag}: {}IfU;\n", a(d.ann[2])));
    for (n, it) in d.items.iter().enumerate() {
        let mut s = String::new();
        match it.st {
            St::Assign { dst, ex } => {
                s.push_str(&format!("assign {} = {};\n", dst.text(tag), ex_text(ex, tag)));
            }
            St::CombIf { cond, dst, src } => {
                s.push_str(&format!(
                    "always_comb {{\n    if {} {{\n        {} = {};\n    }} else {{\n        {} = 0;\n    }}\n}}\n",
                    cond.text(tag),
                    dst.text(tag),
                    src.text(tag),
                    dst.text(tag)
                ));
            }
            St::Ff { clk, dst, src } => {
                let c = if clk == Dom::A { "a" } else { "b" };
                s.push_str(&format!(
                    "always_ff (i_clk_{c}, i_rst_{c}) {{\n    if_reset {{\n        {d} = 0;\n    }} else {{\n        {d} = {};\n    }}\n}}\n",
                    src.text(tag),
                    d = dst.text(tag)
                ));
            }
            St::Inst { child, i, o } => {
                let m = if child == Child::Same { "CSame" } else { "CSplit" };
                s.push_str(&format!(
                    "inst c{n}: {m} (\n    i: {},\n    o: {},\n);\n",
                    i.text(tag),
                    o.text(tag)
                ));
            }
        }
        let ind = if it.unsafe_cdc { "        " } else { "    " };
        if it.unsafe_cdc {
            body.push_str("    unsafe (cdc) {\n");
        }
        for l in s.lines() {
            body.push_str(ind);
            body.push_str(l);
            body.push('\n');
        }
        if it.unsafe_cdc {
            body.push_str("    }\n");
        }
    }
    format!(
        "module Top{tag} #(\n    param P: bit = 1,\n) (\n    i_clk_a: input 'a clock,\n    i_rst_a: input 'a reset,\n    i_clk_b: input 'b clock,\n    i_rst_b: input 'b reset,\n    i_a: input 'a logic,\n    i_b: input 'b logic,\n    i_n: input logic,\n    o_a: output 'a logic,\n    o_b: output 'b logic,\n    o_n: output logic,\n) {{\n{body}}}\n"
    )
}

fn render(d: &Design) -> String {
    format!("{}{}", render_module(d, ""), CHILDREN)
}

/// Batch text and the byte range of every module in it.
fn render_batch(ds: &[Design]) -> (String, Vec<(usize, usize)>) {
    let mut out = String::new();
    let mut ranges = vec![];
    for (k, d) in ds.iter().enumerate() {
        let a = out.len();
        out.push_str(&render_module(d, &k.to_string()));
        ranges.push((a, out.len()));
    }
    out.push_str(CHILDREN);
    (out, ranges)
}

// ---------------------------------------------------------------------------------------------
// reference domain flow
// ---------------------------------------------------------------------------------------------

#[derive(Clone, Debug, Default)]
struct RefInfo {
    /// outside the family: a destination driven twice, or an un-annotated signal whose driver
    /// joins two domains (its own domain would be a matter of convention)
    invalid: bool,
    crossing_items: Vec<usize>,
    /// crossings hidden by unsafe (cdc)
    suppressed_items: Vec<usize>,
    expect_error: bool,
    /// an un-annotated signal is read by an item placed before the item that drives it
    use_before_driver: bool,
    /// an un-annotated signal gets its domain through an instance port
    inferred_through_instance: bool,
    /// some item joins the implicit domain with an explicit one
    involves_implicit: bool,
    doms: Vec<(Sig, Dom)>,
}

fn explicit_dom(d: &Design, s: Sig) -> Option<Dom> {
    match s {
        Sig::Ia | Sig::Oa => Some(Dom::A),
        Sig::Ib | Sig::Ob => Some(Dom::B),
        Sig::In => Some(Dom::N),
        Sig::On => None,
        Sig::V => d.ann[0],
        Sig::W => d.ann[1],
        Sig::U => d.ann[2],
    }
}

fn reference(d: &Design) -> RefInfo {
    let mut info = RefInfo::default();
    // drivers
    let mut driver: BTreeMap<Sig, usize> = BTreeMap::new();
    for (k, it) in d.items.iter().enumerate() {
        if driver.insert(it.st.dst(), k).is_some() {
            info.invalid = true;
        }
    }
    // domains by fixpoint: start from the explicit ones
    let mut dom: BTreeMap<Sig, Dom> = BTreeMap::new();
    let all = [Sig::Ia, Sig::Ib, Sig::In, Sig::Oa, Sig::Ob, Sig::On, Sig::V, Sig::W, Sig::U];
    for s in all {
        if let Some(x) = explicit_dom(d, s) {
            dom.insert(s, x);
        }
    }
    // un-annotated signals whose driver itself joins two domains: their own domain would be a
    // matter of convention, so they may only be sinks
    let mut ambiguous: BTreeSet<Sig> = BTreeSet::new();
    // an un-annotated signal nothing drives is in the implicit domain
    for s in all {
        if !dom.contains_key(&s) && !driver.contains_key(&s) {
            dom.insert(s, Dom::N);
        }
    }
    loop {
        let mut changed = false;
        for s in all {
            if dom.contains_key(&s) {
                continue;
            }
            let Some(k) = driver.get(&s) else {
                continue;
            };
            let from: Option<Dom> = match d.items[*k].st {
                St::Ff { clk, .. } => Some(clk),
                St::Assign { ex, .. } => {
                    let ds: Vec<Option<Dom>> = ex.sigs().iter().map(|x| dom.get(x).copied()).collect();
                    if ds.iter().all(|x| x.is_some()) {
                        let set: BTreeSet<Dom> = ds.iter().map(|x| x.unwrap()).collect();
                        if set.len() == 1 {
                            set.into_iter().next()
                        } else {
                            ambiguous.insert(s);
                            Some(Dom::N)
                        }
                    } else {
                        None
                    }
                }
                St::CombIf { cond, src, .. } => match (dom.get(&cond), dom.get(&src)) {
                    (Some(c), Some(x)) => {
                        if c == x {
                            Some(*x)
                        } else {
                            ambiguous.insert(s);
                            Some(Dom::N)
                        }
                    }
                    _ => None,
                },
                St::Inst { child, i, .. } => match child {
                    Child::Same => {
                        let x = dom.get(&i).copied();
                        if x.is_some() {
                            info.inferred_through_instance = true;
                        }
                        x
                    }
                    // nothing says which parent domain the child's output domain is
                    Child::Split => Some(Dom::N),
                },
            };
            if let Some(x) = from {
                dom.insert(s, x);
                changed = true;
            }
        }
        if !changed {
            // a cycle of un-annotated signals: break it at the first one (implicit domain)
            match all.iter().find(|s| !dom.contains_key(s)) {
                Some(s) => {
                    dom.insert(*s, Dom::N);
                }
                None => break,
            }
        }
    }
    if d.items.iter().any(|it| it.st.reads().iter().any(|s| ambiguous.contains(s))) {
        info.invalid = true;
    }
    // crossings
    for (k, it) in d.items.iter().enumerate() {
        let mut set: BTreeSet<Dom> = BTreeSet::new();
        match it.st {
            St::Assign { dst, ex } => {
                if !ambiguous.contains(&dst) {
                    set.insert(dom[&dst]);
                }
                for s in ex.sigs() {
                    set.insert(dom[&s]);
                }
            }
            St::CombIf { cond, dst, src } => {
                if !ambiguous.contains(&dst) {
                    set.insert(dom[&dst]);
                }
                set.insert(dom[&cond]);
                set.insert(dom[&src]);
            }
            St::Ff { clk, dst, src } => {
                set.insert(clk);
                set.insert(dom[&dst]);
                set.insert(dom[&src]);
            }
            St::Inst { child, i, o } => {
                if child == Child::Same {
                    set.insert(dom[&i]);
                    set.insert(dom[&o]);
                }
            }
        }
        if set.len() >= 2 {
            if set.contains(&Dom::N) {
                info.involves_implicit = true;
            }
            if it.unsafe_cdc {
                info.suppressed_items.push(k);
            } else {
                info.crossing_items.push(k);
            }
        }
        // textual order: an un-annotated signal read before its driver
        for s in it.st.reads() {
            if explicit_dom(d, s).is_none() {
                if let Some(j) = driver.get(&s) {
                    if *j >= k {
                        info.use_before_driver = true;
                    }
                }
            }
        }
    }
    info.expect_error = !info.crossing_items.is_empty();
    info.doms = all.iter().map(|s| (*s, dom[s])).collect();
    info
}

/// What the documented inference scheme of the implementation would say: an un-annotated signal
/// takes a domain only from an assignment *textually before* its use (always_ff clock, or the
/// first concrete operand of the right-hand side), never through an instance port, and counts as
/// the implicit domain until then.  Used only to decide whether a disagreement is *explained* by
/// those two known limitations (it never decides a verdict).
fn order_dependent_model(d: &Design) -> bool {
    let mut now: BTreeMap<Sig, Dom> = BTreeMap::new();
    let get = |now: &BTreeMap<Sig, Dom>, s: Sig| -> Dom {
        explicit_dom(d, s).or(now.get(&s).copied()).unwrap_or(Dom::N)
    };
    let mut error = false;
    for it in &d.items {
        let mut set: BTreeSet<Dom> = BTreeSet::new();
        match it.st {
            St::Assign { dst, ex } => {
                let ops: Vec<Dom> = ex.sigs().iter().map(|s| get(&now, *s)).collect();
                if explicit_dom(d, dst).is_none() && !now.contains_key(&dst) {
                    if let Some(x) = ops.iter().find(|x| **x != Dom::N) {
                        now.insert(dst, *x);
                    }
                }
                set.extend(ops);
                set.insert(get(&now, dst));
            }
            St::CombIf { cond, dst, src } => {
                let x = get(&now, src);
                if explicit_dom(d, dst).is_none() && !now.contains_key(&dst) && x != Dom::N {
                    now.insert(dst, x);
                }
                set.insert(x);
                set.insert(get(&now, cond));
                set.insert(get(&now, dst));
            }
            St::Ff { clk, dst, src } => {
                if explicit_dom(d, dst).is_none() && !now.contains_key(&dst) {
                    now.insert(dst, clk);
                }
                set.insert(clk);
                set.insert(get(&now, src));
                set.insert(get(&now, dst));
            }
            St::Inst { child, i, o } => {
                if child == Child::Same {
                    set.insert(get(&now, i));
                    set.insert(get(&now, o));
                }
            }
        }
        if set.len() >= 2 && !it.unsafe_cdc {
            error = true;
        }
    }
    error
}

// ---------------------------------------------------------------------------------------------
// families
// ---------------------------------------------------------------------------------------------

fn item_menu(level: u8) -> Vec<St> {
    let mut v = vec![];
    for dst in DSTS {
        for s in SRCS {
            if s == dst {
                continue;
            }
            v.push(St::Assign { dst, ex: Ex::S(s) });
        }
    }
    // two-operand expressions: a reduced set of operand pairs
    let pairs = [
        (Sig::Ia, Sig::Ib),
        (Sig::Ia, Sig::V),
        (Sig::V, Sig::Ib),
        (Sig::Ia, Sig::In),
        (Sig::V, Sig::W),
        (Sig::U, Sig::Ia),
    ];
    for dst in [Sig::Oa, Sig::Ob, Sig::On, Sig::W] {
        for (x, y) in pairs {
            if x == dst || y == dst {
                continue;
            }
            v.push(St::Assign { dst, ex: Ex::And(x, y) });
        }
    }
    for clk in [Dom::A, Dom::B] {
        for dst in [Sig::Oa, Sig::Ob, Sig::On, Sig::V, Sig::W] {
            for src in [Sig::Ia, Sig::Ib, Sig::V, Sig::W, Sig::U] {
                if src == dst {
                    continue;
                }
                if level == 0 && matches!(src, Sig::U) {
                    continue;
                }
                v.push(St::Ff { clk, dst, src });
            }
        }
    }
    for child in [Child::Same, Child::Split] {
        for i in [Sig::Ia, Sig::Ib, Sig::V, Sig::In] {
            for o in [Sig::Oa, Sig::Ob, Sig::V, Sig::W, Sig::On] {
                if i == o {
                    continue;
                }
                v.push(St::Inst { child, i, o });
            }
        }
    }
    for cond in [Sig::Ia, Sig::Ib, Sig::V] {
        for dst in [Sig::Oa, Sig::Ob, Sig::W] {
            for src in [Sig::Ia, Sig::Ib, Sig::V] {
                if src == dst || cond == dst {
                    continue;
                }
                v.push(St::CombIf { cond, dst, src });
            }
        }
    }
    v
}

/// Conditional expressions `dst = if c ? t : e`: select and then-operand over {literal, param,
/// signals}, else-operand over signals, every destination the operands do not contain.
/// level 0 (quick): signals i_a, i_b, v (+ i_n in the else-operand), destinations o_a, o_b, o_n, w;
/// level 1: all sources and destinations of the family.
fn ternary_menu(level: u8) -> Vec<St> {
    let (csigs, esigs, dsts): (&[Sig], &[Sig], &[Sig]) = if level == 0 {
        (
            &[Sig::Ia, Sig::Ib, Sig::V],
            &[Sig::Ia, Sig::Ib, Sig::In, Sig::V],
            &[Sig::Oa, Sig::Ob, Sig::On, Sig::W],
        )
    } else {
        (&SRCS, &SRCS, &DSTS)
    };
    let mut opds = vec![Opd::Lit, Opd::Par];
    opds.extend(csigs.iter().map(|s| Opd::S(*s)));
    let mut v = vec![];
    for c in &opds {
        for t in &opds {
            for e in esigs {
                for dst in dsts {
                    let ex = Ex::Tern(*c, *t, *e);
                    if ex.sigs().contains(dst) {
                        continue;
                    }
                    v.push(St::Assign { dst: *dst, ex });
                }
            }
        }
    }
    v
}

fn ann_menu() -> Vec<[Option<Dom>; 3]> {
    let o = [None, Some(Dom::A), Some(Dom::B)];
    let mut v = vec![];
    for a in o {
        for b in o {
            for c in o {
                v.push([a, b, c]);
            }
        }
    }
    v
}

struct Family {
    /// (name, annotation sets, item menus per slot, unsafe patterns)
    subs: Vec<(String, Vec<[Option<Dom>; 3]>, Vec<Vec<St>>)>,
}

/// A small menu for the longer designs: the item kinds with the signals that matter for
/// inference (v, w un-annotated or not) and one representative per direction.
fn tiny_menu() -> Vec<St> {
    let mut v = vec![];
    for (dst, s) in [
        (Sig::V, Sig::Ia),
        (Sig::V, Sig::Ib),
        (Sig::W, Sig::V),
        (Sig::Oa, Sig::V),
        (Sig::Ob, Sig::V),
        (Sig::Oa, Sig::W),
        (Sig::On, Sig::V),
        (Sig::U, Sig::Ia),
        (Sig::Ob, Sig::U),
        (Sig::V, Sig::In),
    ] {
        v.push(St::Assign { dst, ex: Ex::S(s) });
    }
    v.push(St::Assign { dst: Sig::On, ex: Ex::And(Sig::V, Sig::In) });
    v.push(St::Assign { dst: Sig::Oa, ex: Ex::And(Sig::Ia, Sig::V) });
    // conditional expressions: the only signal in the else-operand (a driver of v / a reader of v)
    v.push(St::Assign { dst: Sig::V, ex: Ex::Tern(Opd::Par, Opd::Lit, Sig::Ib) });
    v.push(St::Assign { dst: Sig::Oa, ex: Ex::Tern(Opd::Lit, Opd::Par, Sig::V) });
    for clk in [Dom::A, Dom::B] {
        v.push(St::Ff { clk, dst: Sig::V, src: Sig::Ia });
        v.push(St::Ff { clk, dst: Sig::W, src: Sig::V });
        v.push(St::Ff { clk, dst: Sig::Oa, src: Sig::V });
    }
    for child in [Child::Same, Child::Split] {
        v.push(St::Inst { child, i: Sig::Ia, o: Sig::V });
        v.push(St::Inst { child, i: Sig::V, o: Sig::Ob });
        v.push(St::Inst { child, i: Sig::V, o: Sig::W });
    }
    v.push(St::CombIf { cond: Sig::V, dst: Sig::Oa, src: Sig::Ia });
    v.push(St::CombIf { cond: Sig::Ib, dst: Sig::W, src: Sig::V });
    v
}

fn family(thorough: bool) -> Family {
    let full = item_menu(1);
    let tiny = tiny_menu();
    let anns = ann_menu();
    let anns9: Vec<[Option<Dom>; 3]> = anns.iter().copied().filter(|a| a[2].is_none()).collect();
    let anns_few: Vec<[Option<Dom>; 3]> = vec![
        [None, None, None],
        [Some(Dom::A), None, None],
        [None, Some(Dom::B), None],
        [Some(Dom::A), Some(Dom::B), Some(Dom::A)],
    ];
    let mut subs = vec![];
    // first, so that its chunks lead every round of the interleaved order
    if thorough {
        subs.push(("one_ternary".to_string(), anns.clone(), vec![ternary_menu(1)]));
    } else {
        subs.push(("one_ternary".to_string(), anns_few.clone(), vec![ternary_menu(0)]));
    }
    subs.push(("one".to_string(), anns.clone(), vec![full.clone()]));
    if thorough {
        subs.push(("two".to_string(), anns_few.clone(), vec![full.clone(), full.clone()]));
        subs.push(("two_tiny_all_annotations".to_string(), anns9, vec![tiny.clone(), tiny.clone()]));
        subs.push(("three".to_string(), anns_few[..2].to_vec(), vec![tiny.clone(), tiny.clone(), tiny]));
    } else {
        subs.push(("two".to_string(), anns_few.clone(), vec![tiny.clone(), tiny]));
    }
    Family { subs }
}

/// Size: annotations x product of menus x unsafe patterns (2^slots).
fn sub_size(anns: &[[Option<Dom>; 3]], slots: &[Vec<St>]) -> u64 {
    anns.len() as u64 * slots.iter().map(|s| s.len() as u64).product::<u64>() * (1u64 << slots.len())
}

fn member(anns: &[[Option<Dom>; 3]], slots: &[Vec<St>], mut idx: u64) -> Design {
    let n = slots.len();
    let upat = idx % (1u64 << n);
    idx /= 1u64 << n;
    let mut items = vec![];
    for (k, s) in slots.iter().enumerate().rev() {
        let m = s.len() as u64;
        items.push(Item {
            st: s[(idx % m) as usize],
            unsafe_cdc: (upat >> k) & 1 == 1,
        });
        idx /= m;
    }
    items.reverse();
    Design {
        ann: anns[idx as usize],
        items,
    }
}

// ---------------------------------------------------------------------------------------------
// validation against the repository's tests
// ---------------------------------------------------------------------------------------------

#[rustfmt::skip]
fn pinned_tests() -> Vec<(&'static str, Design, bool)> {
    let it = |st| Item { st, unsafe_cdc: false };
    let un = |st| Item { st, unsafe_cdc: true };
    let none = [None, None, None];
    vec![
        ("ModuleA: assign o_b = i_a", Design { ann: none, items: vec![it(St::Assign { dst: Sig::Ob, ex: Ex::S(Sig::Ia) })] }, true),
        ("ModuleB: assign o_a = {i_a, i_b} (as &)", Design { ann: none, items: vec![it(St::Assign { dst: Sig::Oa, ex: Ex::And(Sig::Ia, Sig::Ib) })] }, true),
        ("ModuleC: instance of an un-annotated child joins 'b and 'a", Design { ann: none, items: vec![it(St::Inst { child: Child::Same, i: Sig::Ib, o: Sig::Oa })] }, true),
        ("ModuleF: var 'b written in always_ff on the 'a clock", Design { ann: [Some(Dom::B), None, None], items: vec![it(St::Ff { clk: Dom::A, dst: Sig::V, src: Sig::Ib }), it(St::Assign { dst: Sig::Ob, ex: Ex::S(Sig::V) })] }, true),
        ("ModuleH: always_comb o_b = i_a (if form)", Design { ann: none, items: vec![it(St::CombIf { cond: Sig::Ia, dst: Sig::Ob, src: Sig::Ia })] }, true),
        ("ModuleI: 'a interface member driven from 'a", Design { ann: [None, None, Some(Dom::A)], items: vec![it(St::Assign { dst: Sig::U, ex: Ex::S(Sig::Ia) })] }, false),
        ("ModuleJ: 'b interface member driven from 'a", Design { ann: [None, None, Some(Dom::B)], items: vec![it(St::Assign { dst: Sig::U, ex: Ex::S(Sig::Ia) })] }, true),
        ("ModuleK: 'a interface member read into 'b", Design { ann: [None, None, Some(Dom::A)], items: vec![it(St::Assign { dst: Sig::Ob, ex: Ex::S(Sig::U) })] }, true),
        ("ModuleBinary: o_b = i_a & i_a'", Design { ann: [Some(Dom::A), None, None], items: vec![it(St::Assign { dst: Sig::Ob, ex: Ex::And(Sig::Ia, Sig::V) })] }, true),
        ("ModuleSameDomain: o_a = i_a & v('a)", Design { ann: [Some(Dom::A), None, None], items: vec![it(St::Assign { dst: Sig::Oa, ex: Ex::And(Sig::Ia, Sig::V) })] }, false),
        ("interface instance: un-annotated, a -> u -> b", Design { ann: none, items: vec![it(St::Assign { dst: Sig::U, ex: Ex::S(Sig::Ia) }), it(St::Assign { dst: Sig::Ob, ex: Ex::S(Sig::U) })] }, true),
        ("interface instance: un-annotated, a -> u -> a", Design { ann: none, items: vec![it(St::Assign { dst: Sig::U, ex: Ex::S(Sig::Ia) }), it(St::Assign { dst: Sig::Oa, ex: Ex::S(Sig::U) })] }, false),
        ("statement condition from another domain", Design { ann: none, items: vec![it(St::CombIf { cond: Sig::Ib, dst: Sig::Oa, src: Sig::Ia })] }, true),
        ("ModuleTernary: o_b = if i_a ? v('a) : w('a)", Design { ann: [Some(Dom::A), Some(Dom::A), None], items: vec![it(St::Assign { dst: Sig::Ob, ex: Ex::Tern(Opd::S(Sig::Ia), Opd::S(Sig::V), Sig::W) })] }, true),
        ("ModuleSameDomain (its conditional expression): o_a = if i_a ? v('a) : w('a)", Design { ann: [Some(Dom::A), Some(Dom::A), None], items: vec![it(St::Assign { dst: Sig::Oa, ex: Ex::Tern(Opd::S(Sig::Ia), Opd::S(Sig::V), Sig::W) })] }, false),
        ("Module61A: unsafe (cdc) assign o_b = i_a", Design { ann: none, items: vec![un(St::Assign { dst: Sig::Ob, ex: Ex::S(Sig::Ia) })] }, false),
        ("synchronizer: unsafe (cdc) always_ff", Design { ann: [Some(Dom::B), None, None], items: vec![un(St::Ff { clk: Dom::B, dst: Sig::V, src: Sig::Ia })] }, false),
    ]
}

// ---------------------------------------------------------------------------------------------
// comparison
// ---------------------------------------------------------------------------------------------

const GENERATOR_BUG_CODES: &[&str] = &[
    "undefined_identifier",
    "mismatch_type",
    "invalid_assignment",
    "invalid_select",
    "unknown_member",
    "unknown_port",
    "missing_port",
    "mismatch_assignment",
    "referring_before_definition",
    "invalid_statement",
    "invalid_direction",
    "unevaluable_value",
    "multiple_assignment",
    "uncovered_branch",
    "missing_clock_signal",
    "missing_reset_signal",
    "missing_clock_domain",
    "invalid_clock_domain",
    "unknown_unsafe",
];

fn mismatch_diags(diags: &[gen_abs::Diag]) -> Vec<&gen_abs::Diag> {
    diags.iter().filter(|d| d.code == "mismatch_clock_domain").collect()
}

fn classify(d: &Design, info: &RefInfo, fp: bool) -> Vec<String> {
    let dir = if fp { "false-positive" } else { "miss" };
    let mut feats: Vec<&str> = vec![];
    if info.use_before_driver {
        feats.push("inferred-signal-read-before-its-driver");
    }
    if info.inferred_through_instance {
        feats.push("inferred-through-instance-port");
    }
    // the analyzer's verdict (= `fp`) is what the order-dependent / no-instance-inference scheme
    // gives: the disagreement is explained by the limitation(s) the design exercises
    if !feats.is_empty() && order_dependent_model(d) == fp {
        return feats.iter().map(|f| format!("C16:{dir}:{f}")).collect();
    }
    // unexplained: name the kinds of the items involved
    let idx: Vec<usize> = if fp {
        (0..d.items.len()).collect()
    } else {
        info.crossing_items.clone()
    };
    let mut kinds: BTreeSet<&str> = BTreeSet::new();
    for k in idx {
        kinds.insert(match d.items[k].st {
            St::Assign { ex: Ex::S(_), .. } => "assign",
            St::Assign { ex: Ex::And(..), .. } => "assign-binary",
            St::Assign { ex: Ex::Tern(..), .. } => "assign-ternary",
            St::CombIf { .. } => "always_comb-if",
            St::Ff { .. } => "always_ff",
            St::Inst { child: Child::Same, .. } => "inst-implicit-child",
            St::Inst { child: Child::Split, .. } => "inst-two-domain-child",
        });
    }
    if info.involves_implicit {
        kinds.insert("implicit-domain");
    }
    vec![format!("C16:{dir}:unexplained:{}", kinds.into_iter().collect::<Vec<_>>().join("+"))]
}

struct Outcome {
    text: String,
    res: Analysis,
}

fn eval_single(d: &Design) -> Outcome {
    let text = render(d);
    let res = gen_abs::analyze(&text);
    Outcome { text, res }
}

const BATCH: usize = 16;
const CHUNK: u64 = 1024;

enum Item2 {
    Agree { info: RefInfo, obs: bool },
    Single { info: RefInfo, out: Outcome, batch_obs: Option<bool> },
    Invalid,
}

fn eval_batch(ds: &[Design]) -> Vec<Item2> {
    let infos: Vec<RefInfo> = ds.iter().map(reference).collect();
    let valid: Vec<usize> = (0..ds.len()).filter(|i| !infos[*i].invalid).collect();
    let vds: Vec<Design> = valid.iter().map(|i| ds[*i].clone()).collect();
    let mut per_module: Option<Vec<bool>> = None;
    if !vds.is_empty() {
        let (text, ranges) = render_batch(&vds);
        if let Analysis::Done { diags, .. } = gen_abs::analyze(&text) {
            let usable = !diags
                .iter()
                .any(|x| GENERATOR_BUG_CODES.contains(&x.code.as_str()));

            let mm = mismatch_diags(&diags);
            let mut flags = vec![false; vds.len()];
            let mut ok = usable;
            for m in mm {
                // every labelled location of the diagnostic must fall into one module
                let mut hit: BTreeSet<usize> = BTreeSet::new();
                for off in &m.offsets {
                    if let Some(k) = ranges.iter().position(|(a, b)| a <= off && off < b) {
                        hit.insert(k);
                    }
                }
                if hit.len() == 1 {
                    flags[*hit.iter().next().unwrap()] = true;
                } else {
                    ok = false;
                }
            }
            if ok {
                per_module = Some(flags);
            }
        }
    }
    let mut pos_of = BTreeMap::new();
    for (k, i) in valid.iter().enumerate() {
        pos_of.insert(*i, k);
    }
    infos
        .into_iter()
        .enumerate()
        .map(|(i, info)| {
            let Some(k) = pos_of.get(&i) else {
                return Item2::Invalid;
            };
            match &per_module {
                Some(flags) => {
                    let obs = flags[*k];
                    if obs == info.expect_error {
                        Item2::Agree { info, obs }
                    } else {
                        Item2::Single { info, out: eval_single(&ds[i]), batch_obs: Some(obs) }
                    }
                }
                None => Item2::Single { info, out: eval_single(&ds[i]), batch_obs: None },
            }
        })
        .collect()
}

pub fn run(ctx: &Ctx) -> Report {
    let mut rep = Report::new(Level::Exploration);
    install_quiet_panic_hook();
    let budget = ctx.budget(40.0, 1100.0);
    let fam = family(ctx.thorough());

    if std::env::var("VMC_C16_COUNT").is_ok() {
        for (name, anns, slots) in &fam.subs {
            eprintln!("{name}: {} (anns {}, menus {:?})", sub_size(anns, slots), anns.len(), slots.iter().map(|s| s.len()).collect::<Vec<_>>());
        }
    }

    // ---- stage 0: transcribed repository tests -------------------------------------------------
    let pins = pinned_tests();
    let pin_out = par_map(&pins, |(_, d, _)| (reference(d), eval_single(d)));
    let mut pins_ok = 0u64;
    for ((name, _, expect), (info, o)) in pins.iter().zip(pin_out) {
        let ok_ref = !info.invalid && info.expect_error == *expect;
        let (ok_an, txt) = match &o.res {
            Analysis::Done { diags, .. } => {
                let bad = diags.iter().find(|x| GENERATOR_BUG_CODES.contains(&x.code.as_str()));
                let obs = !mismatch_diags(diags).is_empty();
                (bad.is_none() && obs == *expect, format!("mismatch={obs} rejected={:?}", bad.map(|b| &b.msg)))
            }
            x => (false, format!("{x:?}")),
        };
        if ok_ref && ok_an {
            pins_ok += 1;
        } else {
            rep.machinery(format!(
                "pinned repo test `{name}` (error expected: {expect}) not reproduced: reference_ok={ok_ref} (expect_error={} invalid={} doms={:?}) analyzer_ok={ok_an} ({txt}) on\n{}",
                info.expect_error, info.invalid, info.doms, o.text
            ));
        }
    }
    rep.set("repo_tests_transcribed", pins.len() as u64);
    rep.set("repo_tests_reproduced_by_reference_and_analyzer", pins_ok);

    // ---- stage 1 ------------------------------------------------------------------------------
    let mut per_sub: Vec<std::collections::VecDeque<(usize, u64, u64)>> = vec![];
    for (si, (_, anns, slots)) in fam.subs.iter().enumerate() {
        let n = sub_size(anns, slots);
        let mut q = std::collections::VecDeque::new();
        let mut a = 0;
        while a < n {
            let b = (a + CHUNK).min(n);
            q.push_back((si, a, b));
            a = b;
        }
        per_sub.push(q);
    }
    let mut chunks: Vec<(usize, u64, u64)> = vec![];
    loop {
        let mut any = false;
        for q in per_sub.iter_mut() {
            if let Some(c) = q.pop_front() {
                chunks.push(c);
                any = true;
            }
        }
        if !any {
            break;
        }
    }
    let order = gen_abs::shard_order(chunks.len(), ctx.seed);

    let mut evaluations = 0u64;
    let mut nontrivial = 0u64;
    let mut invalid = 0u64;
    let mut skipped = Histo::default();
    let mut verdicts = Histo::default();
    let mut per_family = Histo::default();
    let mut panics = 0u64;
    let mut singles = 0u64;
    let mut batch_differs = 0u64;
    let mut capped = false;
    let mut chunks_done = 0usize;
    let mut viol_per_sig: BTreeMap<String, u64> = BTreeMap::new();
    let mut samples = 0;

    let mut pos = 0usize;
    while pos < order.len() {
        if ctx.elapsed() > budget {
            capped = true;
            break;
        }
        let mut groups: Vec<(usize, u64, u64)> = vec![];
        let mut n_designs = 0u64;
        let round = if ctx.thorough() { 4 * CHUNK } else { CHUNK };
        while pos < order.len() && n_designs < round {
            let (si, a, b) = chunks[order[pos]];
            let mut i = a;
            while i < b {
                let j = (i + BATCH as u64).min(b);
                groups.push((si, i, j));
                i = j;
            }
            n_designs += b - a;
            pos += 1;
            chunks_done += 1;
        }
        let outs = par_map(&groups, |(si, a, b)| {
            let (_, anns, slots) = &fam.subs[*si];
            let ds: Vec<Design> = (*a..*b).map(|i| member(anns, slots, i)).collect();
            let items = eval_batch(&ds);
            (ds, items)
        });
        for ((si, _, _), (ds, items)) in groups.iter().zip(outs) {
            let name = &fam.subs[*si].0;
            for (d, item) in ds.iter().zip(items) {
                let (info, obs, single) = match item {
                    Item2::Invalid => {
                        invalid += 1;
                        continue;
                    }
                    Item2::Agree { info, obs } => (info, obs, None),
                    Item2::Single { info, out, batch_obs } => {
                        singles += 1;
                        let diags = match &out.res {
                            Analysis::ParseError(e) => {
                                skipped.add("parse_error");
                                if skipped.get("parse_error") <= 2 {
                                    rep.notes.push(format!("parse error: {e} in\n{}", out.text));
                                }
                                continue;
                            }
                            Analysis::Panic(p) => {
                                panics += 1;
                                if panics <= 3 {
                                    rep.machinery(format!(
                                        "analyzer panicked ({p}) at {:?} on\n{}",
                                        take_panic_loc(),
                                        out.text
                                    ));
                                }
                                continue;
                            }
                            Analysis::Done { diags, .. } => diags.clone(),
                        };
                        if let Some(bad) = diags
                            .iter()
                            .find(|x| GENERATOR_BUG_CODES.contains(&x.code.as_str()))
                        {
                            skipped.add(&format!("rejected:{}", bad.code));
                            if skipped.0.values().sum::<u64>() <= 3 {
                                rep.notes.push(format!("generator bug? {} in\n{}", bad.msg, out.text));
                            }
                            continue;
                        }
                        let obs = !mismatch_diags(&diags).is_empty();
                        if let Some(b) = batch_obs {
                            if b != obs {
                                batch_differs += 1;
                                if batch_differs <= 3 {
                                    rep.machinery(format!(
                                        "the stand-alone analysis of a module differs from its analysis inside a batch text: alone mismatch={obs} / in batch mismatch={b} for\n{}",
                                        out.text
                                    ));
                                }
                            }
                        }
                        (info, obs, Some((out.text.clone(), diags)))
                    }
                };
                evaluations += 1;
                per_family.add(name);
                if !info.crossing_items.is_empty() || !info.suppressed_items.is_empty() {
                    nontrivial += 1;
                }
                verdicts.add(&format!(
                    "reference_crossing={} suppressed_by_unsafe={} analyzer_error={}",
                    info.expect_error,
                    !info.suppressed_items.is_empty(),
                    obs
                ));
                if info.expect_error != obs {
                    let Some((text, diags)) = &single else {
                        rep.machinery("internal: disagreement without stand-alone analysis");
                        continue;
                    };
                    for sig in classify(d, &info, obs) {
                    let n = viol_per_sig.entry(sig.clone()).or_insert(0);
                    *n += 1;
                    if *n <= 3 {
                        rep.violation(Violation {
                            signature: sig,
                            what: format!(
                                "reference domain flow {} a crossing outside unsafe (cdc), analyzer {} mismatch_clock_domain",
                                if info.expect_error { "has" } else { "has not" },
                                if obs { "reports" } else { "does not report" }
                            ),
                            case: json!({"design": text, "family": name, "abstract": format!("{:?}", d)}),
                            expected: json!({
                                "error": info.expect_error,
                                "crossing_items": info.crossing_items,
                                "items_suppressed_by_unsafe_cdc": info.suppressed_items,
                                "domains": info.doms.iter().map(|(s, x)| format!("{}: {:?}", s.text(""), x)).collect::<Vec<_>>(),
                            }),
                            observed: json!({
                                "error": obs,
                                "diagnostics": diags.iter().map(|x| format!("{}: {}", x.code, x.msg)).collect::<Vec<_>>(),
                            }),
                        });
                    }
                    }
                }
                if samples < 8 && info.expect_error && evaluations % 41 == 1 {
                    samples += 1;
                    rep.sample(json!({"design": render(d), "reference_crossing": info.expect_error, "analyzer_error": obs}));
                }
            }
        }
    }

    let skipped_total: u64 = skipped.0.values().sum();
    rep.set("evaluations", evaluations);
    rep.set("distinct_nontrivial", nontrivial);
    rep.set(
        "rule",
        "designs are pairwise distinct by construction (distinct annotation / item / unsafe tuples); non-trivial = at least one item joins two different domains (inside or outside unsafe (cdc))",
    );
    rep.set("verdict_histogram", verdicts.json());
    rep.set("designs_per_subfamily", per_family.json());
    rep.set(
        "subfamily_sizes",
        serde_json::to_value(
            fam.subs
                .iter()
                .map(|(n, a, s)| (n.clone(), sub_size(a, s)))
                .collect::<BTreeMap<_, _>>(),
        )
        .unwrap(),
    );
    rep.set("outside_family_not_analysed", invalid);
    rep.set("skipped", skipped_total);
    rep.set("skipped_reasons", skipped.json());
    rep.set("analyzer_panics", panics);
    rep.set("modules_per_batch_text", BATCH as u64);
    rep.set("designs_reanalysed_alone", singles);
    rep.set("batch_vs_alone_differences", batch_differs);
    rep.set("chunks_total", chunks.len() as u64);
    rep.set("chunks_completed", chunks_done as u64);
    rep.set("capped_by_budget", capped);
    rep.set("exhaustive", !capped);
    rep.set(
        "disagreement_cases_per_signature",
        serde_json::to_value(&viol_per_sig).unwrap(),
    );
    rep.assume("three domains: 'a, 'b and the implicit domain of un-annotated input ports; an un-annotated variable, output port or interface instance takes the domain of its driver (always_ff clock, common domain of the right-hand side, or the signal on the input of an implicit-domain child), wherever the driver is placed in the text");
    rep.assume("an un-annotated signal driven by an expression that itself joins two domains may only be a sink (designs that read it, and multiply driven destinations, are outside the family)");

    let e_true = verdicts.0.iter().filter(|(k, _)| k.starts_with("reference_crossing=true")).map(|(_, v)| *v).sum::<u64>();
    let e_false = verdicts.0.iter().filter(|(k, _)| k.starts_with("reference_crossing=false")).map(|(_, v)| *v).sum::<u64>();
    let o_true = verdicts.0.iter().filter(|(k, _)| k.ends_with("analyzer_error=true")).map(|(_, v)| *v).sum::<u64>();
    let sup = verdicts.0.iter().filter(|(k, _)| k.contains("suppressed_by_unsafe=true")).map(|(_, v)| *v).sum::<u64>();
    if e_true == 0 || e_false == 0 {
        rep.machinery("vacuity guard: reference verdict is constant");
    }
    if o_true == 0 {
        rep.machinery("vacuity guard: analyzer never reported mismatch_clock_domain");
    }
    if sup == 0 {
        rep.machinery("vacuity guard: no crossing inside unsafe (cdc) was generated");
    }
    if evaluations > 0 && skipped_total * 50 > evaluations {
        rep.machinery(format!(
            "generator bug rate too high: {skipped_total} of {evaluations} designs rejected for unrelated reasons"
        ));
    }
    if nontrivial < 2 {
        rep.machinery("vacuity guard: fewer than 2 non-trivial designs");
    }
    rep
}

pub fn replay(doc: &Value) -> i32 {
    let Some(text) = doc["case"]["design"].as_str() else {
        eprintln!("replay: no case.design");
        return 2;
    };
    match gen_abs::analyze(text) {
        Analysis::Done { diags, .. } => {
            let obs = !mismatch_diags(&diags).is_empty();
            println!("design:\n{text}");
            for d in &diags {
                println!("diagnostic: {}: {}", d.code, d.msg);
            }
            let exp = doc["expected"]["error"].as_bool().unwrap_or(false);
            println!("expected mismatch_clock_domain: {exp}; analyzer reports: {obs}");
            if obs == exp {
                println!("REPLAY: analyzer now agrees with the reference");
                0
            } else {
                println!("REPLAY: disagreement reproduced");
                1
            }
        }
        x => {
            eprintln!("replay: analysis did not complete: {x:?}");
            2
        }
    }
}

//! C09 — formatting only changes layout.
//!
//! Space: the C08 family (corpus + catalogue under layout deviations x [format] settings).
//! Oracle, for every variant x the parser accepts, with y = fmt(x) (the `veryl fmt` sequence):
//!   (1) y parses;
//!   (2) the ordinary-token texts of x and y are equal after dropping the optional trailing
//!       separators (gen_fmt::drop_optional_separators: a comma directly in front of a closing
//!       delimiter — exactly the `[ Comma ]` positions of veryl.par);
//!   (3) the comment texts are equal in order after trimming trailing whitespace;
//!   (4) (sub-family, costs a full analysis each) the SystemVerilog emitted for x and for y has
//!       the same SV token stream (own tokenizer, comments dropped).

use crate::checks::gen_fmt::*;
use crate::checks::gen_text::*;
use crate::core::*;
use serde_json::{Value, json};
use std::collections::{BTreeMap, BTreeSet};

#[derive(Clone)]
struct Case {
    file: usize,
    desc: String,
    text: String,
    setting: FmtSetting,
    emit: bool,
    /// directory of the corpus file (for `include`)
    dir: String,
}

#[derive(Clone)]
struct Bad {
    signature: String,
    what: String,
    expected: Value,
    observed: Value,
}

#[derive(Default)]
struct Out {
    rejected: bool,
    changed: bool,
    out_hash: u64,
    tokens: usize,
    comments: usize,
    separators_changed: bool,
    emitted: bool,
    emit_skipped: Option<String>,
    bad: Vec<Bad>,
}

fn eval(c: &Case) -> Out {
    let mut o = Out::default();
    let Ok((tx, cx)) = streams_here(&c.text) else {
        o.rejected = true;
        return o;
    };
    let y = match fmt_here(&c.text, &c.setting) {
        Ok(y) => y,
        Err(_) => {
            o.rejected = true;
            return o;
        }
    };
    o.changed = y != c.text;
    o.out_hash = u64::from_le_bytes(blake3::hash(y.as_bytes()).as_bytes()[..8].try_into().unwrap());
    o.tokens = tx.len();
    o.comments = cx.len();
    let (ty, cy) = match streams_here(&y) {
        Ok(s) => s,
        Err(e) => {
            o.bad.push(Bad {
                signature: "C09:output-rejected".into(),
                what: "the formatted output is rejected by the parser".into(),
                expected: json!("parses"),
                observed: json!({"error": clip(&e, 400), "formatted": y}),
            });
            return o;
        }
    };
    let (ax, ay) = (drop_optional_separators(&tx), drop_optional_separators(&ty));
    o.separators_changed = tx.len() != ty.len();
    if let Some(i) = first_diff(&ax, &ay) {
        o.bad.push(Bad {
            signature: format!("C09:tokens:{}", seq_class(&ax, &ay, i, &|t| token_kind(t))),
            what: "token sequence of the formatted output differs (beyond optional trailing separators)".into(),
            expected: json!({"index": i, "around": window(&ax, i)}),
            observed: json!({"around": window(&ay, i), "formatted": y}),
        });
    }
    let (kx, ky): (Vec<String>, Vec<String>) = (cx.iter().map(|c| canonical_comment(c)).collect(), cy.iter().map(|c| canonical_comment(c)).collect());
    if let Some(i) = first_diff(&kx, &ky) {
        o.bad.push(Bad {
            signature: format!("C09:comments:{}", seq_class(&kx, &ky, i, &|t| comment_kind(t).to_string())),
            what: "comment sequence of the formatted output differs (beyond trailing whitespace)".into(),
            expected: json!({"index": i, "around": window(&kx, i)}),
            observed: json!({"around": window(&ky, i), "formatted": y}),
        });
    }
    if c.emit && o.bad.is_empty() {
        match (emit_isolated(&c.text, &c.dir), emit_isolated(&y, &c.dir)) {
            (Ok(sx), Ok(sy)) => {
                o.emitted = true;
                let (a, b) = (sv_tokens(&sx), sv_tokens(&sy));
                if let Some(i) = first_diff(&a, &b) {
                    o.bad.push(Bad {
                        signature: format!("C09:sv:{}", seq_class(&a, &b, i, &|t| token_kind(t))),
                        what: "SystemVerilog emitted for the formatted text differs from that of the original".into(),
                        expected: json!({"index": i, "around": window(&a, i)}),
                        observed: json!({"around": window(&b, i), "formatted": y}),
                    });
                }
            }
            (Err(e), _) => o.emit_skipped = Some(format!("original: {}", clip(&e, 120))),
            (_, Err(e)) => {
                o.bad.push(Bad {
                    signature: "C09:sv:emit-fails-on-formatted".into(),
                    what: "emission works for the original but fails for the formatted text".into(),
                    expected: json!("emits"),
                    observed: json!({"error": clip(&e, 300), "formatted": y}),
                });
            }
        }
    }
    o
}

pub fn run(ctx: &Ctx) -> Report {
    install_quiet_panic_hook();
    let mut rep = Report::new(Level::Exploration);
    let budget = ctx.budget(30.0, 1100.0);
    let mut corpus = catalogue_files();
    let mut rest = load_corpus(true, false);
    sort_smallest_first(&mut rest);
    if ctx.seed != 0 && !rest.is_empty() {
        let k = (ctx.seed as usize) % rest.len();
        rest.rotate_left(k); // shard order only
    }
    corpus.extend(rest);
    rep.set("corpus_files", corpus.len() as u64);
    rep.set("letters", FMT_LETTERS.len() as u64);
    rep.set("settings", settings(ctx.thorough()).len() as u64);
    rep.set(
        "rule",
        "a case is non-trivial if the parser accepts the variant and formatting changes it (fmt(x) != x); distinct = distinct fmt(x) outputs among those",
    );
    // letters whose single deviations also get the SV comparison in quick (comment / newline)
    let emit_letters_quick: [usize; 4] = [2, 6, 7, 8];

    let mut outs: BTreeSet<u64> = BTreeSet::new();
    let mut by_sig: BTreeMap<String, (usize, Case, Bad)> = BTreeMap::new();
    let mut phases_done: Vec<(&'static str, usize)> = vec![];
    let mut files_skipped = 0usize;
    let mut exhaustive = true;
    let mut panics = 0u64;

    let phases = phase_plan(ctx.thorough());
    let mut layouts: Vec<Option<Result<Layout, String>>> = corpus.iter().map(|_| None).collect();
    'phases: for phase in &phases {
    let sets = &phase.settings;
    let mut files_done = 0usize;
    for (fi, f) in corpus.iter().enumerate() {
        if ctx.elapsed() > budget {
            exhaustive = false;
            break;
        }
        if layouts[fi].is_none() {
            layouts[fi] = Some(Layout::new(&f.text));
        }
        let lay = match layouts[fi].clone().unwrap() {
            Ok(l) => l,
            Err(e) => {
                if phase.name != "A" {
                    continue;
                }
                files_skipped += 1;
                if f.name.starts_with("cat/") {
                    rep.machinery(format!("catalogue text {} does not parse: {}", f.name, clip(&e, 200)));
                }
                rep.notes.push(format!("corpus file {} skipped: {}", f.name, clip(&e, 120)));
                continue;
            }
        };
        let small = lay.n_tokens() <= 60;
        let specs = phase_specs(&lay, phase);
        let mut seen = BTreeSet::new();
        let mut done = 0usize;
        while done < specs.len() {
            if ctx.elapsed() > budget {
                break;
            }
            let end = (done + 128).min(specs.len());
            let mut cases: Vec<Case> = vec![];
            for (k, spec) in specs[done..end].iter().enumerate() {
                let _ = k;
                for v in render_chunk(&f.text, &lay, &FMT_LETTERS, std::slice::from_ref(spec), &mut seen) {
                    let emit_here = match spec {
                        VSpec::Unchanged | VSpec::Uniform(_) => true,
                        VSpec::Single(_, li) => ctx.thorough() || emit_letters_quick.contains(li),
                        VSpec::Pair(..) => ctx.thorough() && small,
                        VSpec::Item(..) => false,
                    };
                    for (si, s) in sets.iter().enumerate() {
                        cases.push(Case {
                            file: fi,
                            desc: v.desc.clone(),
                            text: v.text.clone(),
                            setting: *s,
                            emit: emit_here && si == 0 && f.text.len() <= 6000,
                            dir: f.path.parent().map(|p| p.to_string_lossy().to_string()).unwrap_or_default(),
                        });
                    }
                }
            }
            let rs = batch_isolated(STACK, 16, &cases, eval);
            for (c, r) in cases.iter().zip(rs) {
                rep.add("evaluations", 1);
                let o = match r {
                    Err(p) => {
                        panics += 1;
                        if rep.notes.len() < 20 {
                            rep.notes.push(format!("panic on {} / {} / {:?}: {}", corpus[c.file].name, c.desc, c.setting, clip(&p, 200)));
                        }
                        continue;
                    }
                    Ok(o) => o,
                };
                if o.rejected {
                    rep.add("variants_rejected_by_parser", 1);
                    continue;
                }
                rep.add("variants_formatted", 1);
                rep.add("tokens_compared", o.tokens as u64);
                rep.add("comments_compared", o.comments as u64);
                if o.separators_changed {
                    rep.add("cases_with_trailing_separator_added_or_removed", 1);
                }
                if o.emitted {
                    rep.add("sv_emissions_compared", 1);
                }
                if let Some(e) = &o.emit_skipped {
                    rep.add("sv_comparison_skipped_original_does_not_emit", 1);
                    if rep.notes.len() < 20 {
                        rep.notes.push(format!("emit skipped for {} / {}: {}", corpus[c.file].name, c.desc, e));
                    }
                }
                if o.changed {
                    rep.add("nontrivial_cases", 1);
                    outs.insert(o.out_hash);
                }
                for b in o.bad {
                    rep.add("violating_cases", 1);
                    // a case becomes the witness of its signature only after it reproduced on a
                    // thread of its own (first case of a signature, and smaller ones later)
                    let candidate = match by_sig.get(&b.signature) {
                        None => true,
                        Some(e) => c.text.len() < e.1.text.len(),
                    };
                    if candidate {
                        let confirmed = match batch_isolated(STACK, 1, std::slice::from_ref(c), eval).pop() {
                            Some(Ok(o2)) => o2.bad.iter().any(|x| x.signature == b.signature),
                            _ => false,
                        };
                        if !confirmed {
                            rep.add("not_reproduced_in_isolation", 1);
                            continue;
                        }
                        let n = by_sig.get(&b.signature).map(|e| e.0).unwrap_or(0);
                        by_sig.insert(b.signature.clone(), (n + 1, c.clone(), b));
                    } else if let Some(e) = by_sig.get_mut(&b.signature) {
                        e.0 += 1;
                    }
                }
            }
            done = end;
        }
        if done < specs.len() {
            exhaustive = false;
            rep.notes.push(format!("budget reached inside file {} ({} of {} variant specs)", f.name, done, specs.len()));
            break;
        }
        files_done += 1;
    }
    rep.set(&format!("phase_{}_files_fully_covered", phase.name), files_done as u64);
    rep.set(&format!("phase_{}_settings", phase.name), phase.settings.len() as u64);
    phases_done.push((phase.name, files_done));
    if !exhaustive {
        break 'phases;
    }
    }
    let files_done = phases_done.first().map(|x| x.1).unwrap_or(0);
    let all_phases_complete = phases_done.len() == phases.len() && phases_done.iter().all(|x| x.1 + files_skipped == corpus.len());

    rep.set("files_fully_covered", files_done as u64);
    rep.set("files_skipped_not_tokenisable", files_skipped as u64);
    rep.set("exhaustive", exhaustive && all_phases_complete);
    rep.set(
        "bound",
        "per file: unchanged + every single-gap deviation x 15 letters + uniform deviations + adjacent-gap pairs x 8 letter pairs (+ all gap pairs in files <= 60 tokens in thorough), x settings (quick: default + 2 alternates; thorough: all 24); SV comparison under the default setting for files <= 6000 bytes: unchanged, uniform and single deviations (quick: newline/comment letters only; thorough: all letters, + pairs of small files); files smallest first until the budget",
    );
    rep.set("distinct_nontrivial", outs.len() as u64);
    rep.set("panics", panics);
    if panics > 0 {
        rep.machinery(format!("{panics} panics in the fmt pipeline (C11's business); see notes"));
    }
    if rep.get_u64("not_reproduced_in_isolation") > 0 {
        rep.machinery("some differences did not reproduce on a fresh thread (state leaking between files?)");
    }
    let evals = rep.get_u64("evaluations");
    let rejected = rep.get_u64("variants_rejected_by_parser");
    if evals < 100 || outs.len() < 2 || rep.get_u64("comments_compared") == 0 || rep.get_u64("sv_emissions_compared") == 0 {
        rep.machinery("vacuous run: too few cases / no comments compared / no SV emission compared");
    }
    if rep.get_u64("cases_with_trailing_separator_added_or_removed") == 0 {
        rep.machinery("vacuous run: the optional-separator rule was never exercised");
    }
    if evals > 0 && rejected * 2 > evals {
        rep.machinery(format!("generator problem: {rejected} of {evals} variants rejected"));
    }
    for (sig, (count, c, b)) in by_sig {
        rep.sample(json!({"signature": sig, "cases": count, "smallest_input": clip(&c.text, 200)}));
        rep.violation(Violation {
            signature: sig,
            what: b.what.clone(),
            case: json!({"input": c.text, "derivation": c.desc, "corpus_file": corpus[c.file].name, "format": c.setting.json(), "emit": c.emit, "dir": c.dir, "cases_in_run": count}),
            expected: b.expected,
            observed: b.observed,
        });
    }
    if rep.coverage.get("samples").is_none() {
        rep.sample(json!({"result": "tokens, comments and emitted SV preserved on every accepted variant"}));
    }
    rep
}

pub fn replay(doc: &Value) -> i32 {
    install_quiet_panic_hook();
    let Some(input) = doc["case"]["input"].as_str() else {
        eprintln!("replay file has no case.input");
        return 2;
    };
    let c = Case {
        file: 0,
        desc: String::new(),
        text: input.to_string(),
        setting: FmtSetting::from_json(&doc["case"]["format"]),
        emit: doc["case"]["emit"].as_bool().unwrap_or(true),
        dir: doc["case"]["dir"].as_str().unwrap_or("").to_string(),
    };
    match batch_isolated(STACK, 1, &[c], eval).pop() {
        Some(Ok(o)) => {
            if o.rejected {
                println!("input rejected by the parser");
                return 2;
            }
            for b in &o.bad {
                println!("{}: {} expected={} observed={}", b.signature, b.what, b.expected, b.observed);
            }
            if o.bad.is_empty() {
                println!("layout-only: tokens, comments{} preserved", if o.emitted { " and emitted SV" } else { "" });
                0
            } else {
                1
            }
        }
        Some(Err(p)) => {
            println!("panic: {p}");
            2
        }
        None => 2,
    }
}

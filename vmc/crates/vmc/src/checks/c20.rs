//! C20 — synthesized netlists are well-formed and the reports match them.
//!
//! Engine E1 over every netlist of the C19 matrix (design family × cell library × RamConfig):
//! R3 structural checks (exactly one driver per used net and consistent driver bookkeeping,
//! in-range net references, cell arity, no combinational cycle), independent recomputation of
//! the area report (Σ library.info(kind).area + ffs·ff_area + RAM bits·bit_area) and of the
//! critical path (longest path by memoised DFS in logic levels and in delay), and a walk of the
//! reported critical path through the netlist (steps consecutive, endpoints real).

use crate::checks::c19::{self, Built};
use crate::checks::gen_synth::Design;
use crate::checks::r3_netlist as r3;
use crate::core::*;
use serde_json::{Value as J, json};
use std::collections::{BTreeMap, BTreeSet};
use veryl_synthesizer::library_for;

#[derive(Default)]
pub struct Acc {
    pub evaluations: u64,
    pub nontrivial: BTreeSet<String>,
    pub structure_issue_free: u64,
    pub used_nets: u64,
    pub cells: u64,
    pub ffs: u64,
    pub ram_blocks: u64,
    pub with_buf_cells: u64,
    pub buf_changes_depth: u64,
    pub depth_hist: BTreeMap<u64, u64>,
    pub endpoint_not_deepest: u64,
    pub depth_ne_path_levels: u64,
    pub secondary_deeper: u64,
    pub area_nonzero: u64,
    pub mem_area_nonzero: u64,
    pub violations: Vec<Violation>,
    pub machinery: Vec<String>,
    pub report_panics_on_malformed: u64,
    pub sample: Option<J>,
}

fn case_json(d: &Design, b: &Built) -> J {
    json!({
        "design": d.name,
        "design_text": d.text,
        "library": b.lib,
        "ram_config": b.ram,
        "netlist": b.dump,
    })
}

pub fn check_built(d: &Design, b: &Built, acc: &mut Acc) {
    let lib = library_for(c19::lib_by_name(b.lib).expect("library name"));
    let nl = &b.nl;
    acc.evaluations += 1;
    acc.cells += nl.cells.len() as u64;
    acc.ffs += nl.ffs.len() as u64;
    acc.ram_blocks += nl.rams.len() as u64;
    let mut viol = |class: &str, what: String, expected: J, observed: J| {
        acc.violations.push(Violation {
            signature: format!("C20:{class}"),
            what: format!("{} [{}/{}]: {what}", d.name, b.lib, b.ram),
            case: case_json(d, b),
            expected,
            observed,
        });
    };

    // ---- structure
    let st = nl.structure();
    acc.used_nets += st.used_nets as u64;
    if st.issues.is_empty() {
        acc.structure_issue_free += 1;
    }
    let mut by_class: BTreeMap<&'static str, Vec<&r3::Issue>> = BTreeMap::new();
    for i in &st.issues {
        by_class.entry(i.class).or_default().push(i);
    }
    for (class, is) in &by_class {
        viol(
            &format!("structure:{class}"),
            format!("{} issue(s), first: {}", is.len(), is[0].detail),
            json!("well-formed netlist"),
            json!(is.iter().take(5).map(|i| i.detail.clone()).collect::<Vec<_>>()),
        );
    }

    // ---- reports present?
    let (Some(rep), Some(tr)) = (&b.area, &b.timing) else {
        let msg = b.report_panic.clone().unwrap_or_default();
        if st.issues.is_empty() {
            // a well-formed netlist on which veryl's own report computation panics: not a verdict
            acc.machinery.push(format!("{} [{}/{}]: compute_area/compute_timing panicked on a structurally clean netlist: {msg}", d.name, b.lib, b.ram));
        } else {
            acc.report_panics_on_malformed += 1;
        }
        return;
    };

    // ---- area
    let a = nl.area(lib);
    if !r3::close(a.total, rep.total) {
        viol("area:total", format!("reported total {} != recomputed {}", rep.total, a.total), json!(a.total), json!(rep.total));
    }
    if !r3::close(a.combinational, rep.combinational) {
        viol("area:combinational", format!("reported {} != recomputed {}", rep.combinational, a.combinational), json!(a.combinational), json!(rep.combinational));
    }
    if !r3::close(a.sequential, rep.sequential) {
        viol("area:sequential", format!("reported {} != recomputed {} ({} flip-flops)", rep.sequential, a.sequential, a.ff_count), json!(a.sequential), json!(rep.sequential));
    }
    if !r3::close(a.memory, rep.memory) {
        viol("area:memory", format!("reported {} != recomputed {} ({} RAM bits)", rep.memory, a.memory, a.ram_bits), json!(a.memory), json!(rep.memory));
    }
    if !r3::close(rep.total, rep.combinational + rep.sequential + rep.memory) {
        viol("area:parts-do-not-add-up", format!("total {} vs parts {}+{}+{}", rep.total, rep.combinational, rep.sequential, rep.memory), json!(rep.combinational + rep.sequential + rep.memory), json!(rep.total));
    }
    if rep.ff_count != a.ff_count || rep.ram_bits != a.ram_bits {
        viol("area:counts", format!("reported ff_count {} ram_bits {}, netlist has {} / {}", rep.ff_count, rep.ram_bits, a.ff_count, a.ram_bits), json!([a.ff_count, a.ram_bits]), json!([rep.ff_count, rep.ram_bits]));
    }
    {
        let mut reported: BTreeMap<&'static str, (usize, f64)> = BTreeMap::new();
        for (k, c, ar) in &rep.by_kind {
            reported.insert(r3::Kind::from_veryl(*k).name(), (*c, *ar));
        }
        let same = reported.len() == a.by_kind.len()
            && a.by_kind.iter().all(|(k, (c, ar))| reported.get(k).is_some_and(|(c2, ar2)| c2 == c && r3::close(*ar, *ar2)));
        if !same {
            viol("area:by-kind", "per-kind breakdown differs from the netlist".into(), json!(a.by_kind), json!(reported));
        }
    }
    if a.total > 0.0 {
        acc.area_nonzero += 1;
    }
    if a.memory > 0.0 {
        acc.mem_area_nonzero += 1;
    }

    // ---- timing (needs sane references and no cycle)
    let evaluable = !st.issues.iter().any(|i| matches!(i.class, "net-out-of-range" | "combinational-cycle"));
    if evaluable {
        match nl.timing(&st, lib) {
            Err(net) => viol("structure:combinational-cycle", format!("cycle through net {net}"), json!("acyclic"), json!(net)),
            Ok(t) => {
                *acc.depth_hist.entry(t.depth_global).or_insert(0) += 1;
                if nl.cells.iter().any(|c| c.kind == r3::Kind::Buf) {
                    acc.with_buf_cells += 1;
                    if t.depth_global_with_buf != t.depth_global {
                        acc.buf_changes_depth += 1;
                    }
                }
                if t.depth_secondary > t.depth_global {
                    acc.secondary_deeper += 1;
                }
                let reported_depth = tr.critical_path_depth as u64;
                // depth at the reported endpoint (the last step's net)
                let end_net = tr.critical_path.last().map(|s| s.net);
                let at_endpoint = end_net.and_then(|n| t.levels.get(n as usize).copied());
                if reported_depth != t.depth_global {
                    if at_endpoint == Some(reported_depth) {
                        acc.endpoint_not_deepest += 1;
                        viol(
                            "depth:delay-critical-endpoint-is-not-the-deepest",
                            format!(
                                "reported critical_path_depth {} is the level count at the delay-critical endpoint (net {}), but the longest combinational path of the netlist has {} levels (to net(s) {:?})",
                                reported_depth,
                                end_net.unwrap_or(0),
                                t.depth_global,
                                t.deepest_endpoints.iter().take(4).collect::<Vec<_>>()
                            ),
                            json!(t.depth_global),
                            json!(reported_depth),
                        );
                    } else {
                        viol(
                            "depth:wrong",
                            format!(
                                "reported critical_path_depth {} ; longest path of the netlist {} levels ; longest path into the reported endpoint {:?}",
                                reported_depth, t.depth_global, at_endpoint
                            ),
                            json!(t.depth_global),
                            json!(reported_depth),
                        );
                    }
                }
                if !r3::close(tr.critical_path_delay, t.delay_global) {
                    viol(
                        "delay:not-the-longest",
                        format!("reported critical_path_delay {} != recomputed longest delay {}", tr.critical_path_delay, t.delay_global),
                        json!(t.delay_global),
                        json!(tr.critical_path_delay),
                    );
                }
                if t.n_endpoints > 0 && tr.critical_path.is_empty() {
                    viol("path:missing", format!("{} endpoints but no critical path reported", t.n_endpoints), json!("a path"), json!([]));
                }
                let (issues, levels_on_path) = nl.check_reported_path(&st, tr, lib);
                let mut pc: BTreeMap<&'static str, Vec<&r3::Issue>> = BTreeMap::new();
                for i in &issues {
                    pc.entry(i.class).or_default().push(i);
                }
                for (class, is) in &pc {
                    viol(
                        &format!("path:{class}"),
                        format!("{} issue(s), first: {}", is.len(), is[0].detail),
                        json!("a real path of the netlist"),
                        json!(is.iter().take(5).map(|i| i.detail.clone()).collect::<Vec<_>>()),
                    );
                }
                if issues.is_empty() && !tr.critical_path.is_empty() && levels_on_path != reported_depth {
                    acc.depth_ne_path_levels += 1;
                }
                // non-trivial: >= 1 cell and (>= 1 FF or >= 2 levels)
                if !nl.cells.is_empty() && (!nl.ffs.is_empty() || t.depth_global >= 2) {
                    acc.nontrivial.insert(format!("{}|{}|{}|{}", nl.cells.len(), nl.ffs.len(), nl.ram_bits(), t.depth_global));
                }
                if acc.sample.is_none() && t.depth_global >= 3 {
                    acc.sample = Some(json!({
                        "design": d.name, "library": b.lib, "ram_config": b.ram,
                        "cells": nl.cells.len(), "ffs": nl.ffs.len(), "ram_bits": nl.ram_bits(),
                        "area_reported": rep.total, "area_recomputed": a.total,
                        "depth_reported": reported_depth, "depth_recomputed": t.depth_global,
                        "delay_reported": tr.critical_path_delay, "delay_recomputed": t.delay_global,
                        "path_steps": tr.critical_path.len(),
                    }));
                }
            }
        }
    }
}

pub fn run(ctx: &Ctx) -> Report {
    install_quiet_panic_hook();
    let mut rep = Report::new(Level::Exploration);
    let budget = ctx.budget(50.0, 600.0);
    let (outs, n_jobs) = c19::run_jobs(ctx, false, true, budget);
    let mut nontrivial: BTreeSet<String> = BTreeSet::new();
    let mut depth_hist: BTreeMap<u64, u64> = BTreeMap::new();
    let mut skipped = 0u64;
    let mut kinds: BTreeMap<&'static str, usize> = BTreeMap::new();
    for o in outs {
        if let Some(s) = &o.skipped {
            skipped += 1;
            rep.notes.push(format!("skipped {}: {}", o.name, s.chars().take(200).collect::<String>()));
            continue;
        }
        rep.add("designs", 1);
        rep.add("synth_rejections", o.synth_errors.len() as u64);
        let a = o.c20;
        rep.add("evaluations", a.evaluations);
        rep.add("netlists_structure_clean", a.structure_issue_free);
        rep.add("used_nets_checked", a.used_nets);
        rep.add("cells_checked", a.cells);
        rep.add("ffs_checked", a.ffs);
        rep.add("ram_blocks_checked", a.ram_blocks);
        rep.add("netlists_with_buf_cells", a.with_buf_cells);
        rep.add("netlists_where_counting_buf_changes_depth", a.buf_changes_depth);
        rep.add("netlists_reported_depth_ne_levels_on_reported_path", a.depth_ne_path_levels);
        rep.add("netlists_delay_critical_endpoint_not_deepest", a.endpoint_not_deepest);
        rep.add("netlists_sync_reset_or_sync_read_pin_deeper_than_endpoints", a.secondary_deeper);
        rep.add("netlists_area_nonzero", a.area_nonzero);
        rep.add("netlists_memory_area_nonzero", a.mem_area_nonzero);
        nontrivial.extend(a.nontrivial);
        for (k, v) in a.depth_hist {
            *depth_hist.entry(k).or_insert(0) += v;
        }
        for (k, n) in &o.kinds {
            *kinds.entry(k).or_insert(0) += n;
        }
        if let Some(s) = a.sample {
            rep.sample(s);
        }
        for m in o.machinery {
            rep.machinery(m);
        }
        for m in a.machinery {
            rep.machinery(m);
        }
        rep.add("malformed_netlists_on_which_report_computation_panicked", a.report_panics_on_malformed);
        for v in a.violations {
            rep.violation(v);
        }
    }
    rep.set("family_size", n_jobs as u64);
    rep.set("designs_skipped", skipped);
    rep.set("distinct_nontrivial", nontrivial.len() as u64);
    rep.set("rule", "a netlist is non-trivial when it has >= 1 cell and (>= 1 flip-flop or a longest path of >= 2 levels); distinct by (cells, ffs, ram bits, depth)");
    rep.set("depth_histogram", json!(depth_hist.iter().map(|(k, v)| (k.to_string(), *v)).collect::<BTreeMap<_, _>>()));
    rep.set("cell_kinds_seen", json!(kinds));
    rep.set("libraries", json!(c19::LIBS.iter().map(|x| x.1).collect::<Vec<_>>()));
    rep.set("exhaustive", skipped == 0);
    rep.assume("a Buf cell is a wire alias (zero area and delay in every library, \"elided before reporting\") and counts 0 levels; every other cell and an asynchronous RAM read count 1 level");
    rep.assume("timing endpoints are flip-flop D pins, output/inout port bits and RAM write-port pins; start points are port inputs, constants, flip-flop Q and registered RAM read data");
    if rep.get_u64("evaluations") < 100 {
        rep.machinery(format!("vacuity guard: only {} netlists checked", rep.get_u64("evaluations")));
    }
    if nontrivial.len() < 2 {
        rep.machinery("vacuity guard: fewer than 2 distinct non-trivial netlists");
    }
    if rep.get_u64("netlists_memory_area_nonzero") == 0 {
        rep.machinery("vacuity guard: no netlist with a RAM macro (memory area never exercised)");
    }
    if skipped * 20 > n_jobs as u64 {
        rep.machinery(format!("generator self-check: {skipped} of {n_jobs} designs rejected by veryl"));
    }
    rep
}

pub fn replay(doc: &J) -> i32 {
    install_quiet_panic_hook();
    let case = doc["case"].clone();
    let sig = doc["signature"].as_str().unwrap_or("").to_string();
    let text = case["design_text"].as_str().unwrap_or("").to_string();
    let lib = case["library"].as_str().unwrap_or("sky130").to_string();
    let ram = case["ram_config"].as_str().unwrap_or("default").to_string();
    let name = case["design"].as_str().unwrap_or("replay").to_string();
    let r = run_isolated(256 << 20, move || -> Result<Vec<(String, String)>, String> {
        let d = Design {
            name,
            template: "replay".into(),
            text,
            inputs: vec![],
            outputs: vec![],
            clocked: false,
            has_reset: false,
            alphabet: None,
            clean: vec![],
            ram_candidate: false,
            quick: false,
        };
        let air = c19::analyze(&d.text)?;
        let l = c19::LIBS.iter().find(|x| x.1 == lib).copied().ok_or("library")?;
        let rc = c19::ram_configs().into_iter().find(|x| x.0 == ram).ok_or("ram config")?;
        let b = c19::synth(&air, l, rc)?;
        let mut acc = Acc::default();
        check_built(&d, &b, &mut acc);
        Ok(acc.violations.into_iter().map(|v| (v.signature, v.what)).collect())
    });
    match r {
        Ok(Ok(vs)) => {
            for (s, w) in &vs {
                println!("{s}: {w}");
            }
            if vs.iter().any(|(s, _)| *s == sig) {
                1
            } else {
                println!("signature {sig} no longer produced");
                0
            }
        }
        Ok(Err(e)) => {
            eprintln!("replay machinery: {e}");
            2
        }
        Err(p) => {
            eprintln!("replay panicked: {p}");
            2
        }
    }
}

//! C11 — analysis, emission and formatting never crash on parseable input.
//!
//! Engine E1: the complete *token-deviation neighbourhood* of every file of `testcases/veryl` and
//! `testcases/error`: every single edit from a fixed edit alphabet at every token position (own
//! tokenizer, no veryl code), and every pair of edits from a reduced alphabet on the smallest
//! files (thorough). Each variant runs in a worker subprocess (`vmc worker full`) on a fresh
//! 8 MiB thread (analyzer state is thread-local): parse -> pass1 -> format (the `veryl fmt`
//! path) -> post_pass1 -> pass2 -> post_pass2 (the language-server path: all passes whatever the
//! earlier diagnostics) -> emit (only when no error-severity diagnostic exists, as `veryl build`
//! does) -> rendering of the diagnostics with miette (what the CLI prints).
//!
//! Oracle: no panic in any stage, no abort, no stack overflow, no allocation failure under a
//! 6 GiB address-space limit. Diagnostics of any kind (including ExceedLimit) are fine. Emission
//! of a design the analyzer *rejected* is run too, but a panic there is only an observation (no
//! user-visible path emits a rejected design). Wall-cap timeouts are observations, never
//! verdicts (wall-clock must not decide pass/fail).

use super::robust_worker::*;
use crate::core::*;
use serde_json::{Value, json};
use std::collections::{BTreeMap, BTreeSet};
use std::path::Path;
use std::sync::{Arc, Mutex};

// ------------------------------------------------------------------------------------- worker

fn stage<R>(name: &str, panics: &mut Vec<Value>, f: impl FnOnce() -> R) -> Option<R> {
    match std::panic::catch_unwind(std::panic::AssertUnwindSafe(f)) {
        Ok(r) => Some(r),
        Err(p) => {
            let loc = take_panic_loc().unwrap_or_else(|| "?".into());
            panics.push(json!({"stage": name, "loc": loc, "msg": clip(&panic_message(p), 300)}));
            None
        }
    }
}

/// Build/format option sets for the emit and format stages.
pub const OPTION_SETS: &[&str] = &[
    "default",
    "strip_comments",
    "vertical_align=false",
    "strip_comments+vertical_align=false",
    "max_width=40",
    "newline_style=windows",
];

fn with_options(base: &veryl_metadata::Metadata, id: usize) -> veryl_metadata::Metadata {
    let mut m = base.clone();
    match id {
        1 => m.build.strip_comments = true,
        2 => m.format.vertical_align = false,
        3 => {
            m.build.strip_comments = true;
            m.format.vertical_align = false;
        }
        4 => m.format.max_width = 40,
        5 => m.format.newline_style = veryl_metadata::NewlineStyle::Windows,
        _ => {}
    }
    m
}

fn option_ids(opts: &Value) -> Vec<usize> {
    opts["emit_options"]
        .as_array()
        .map(|a| a.iter().filter_map(|x| x.as_u64().map(|x| x as usize)).collect())
        .unwrap_or_else(|| vec![0])
}

/// Tags the panics recorded since `from` with the option set they occurred under.
fn tag_options(panics: &mut [Value], from: usize, id: usize) {
    for p in panics.iter_mut().skip(from) {
        p["options"] = json!(id);
        p["options_name"] = json!(OPTION_SETS[id.min(OPTION_SETS.len() - 1)]);
    }
}

pub fn worker_fn(input: &str, opts: &Value) -> Value {
    use veryl_analyzer::{Analyzer, AnalyzerError, Context};
    use veryl_metadata::Metadata;
    use veryl_parser::Parser;

    let render = opts["render"].as_bool().unwrap_or(true);
    let src = std::path::PathBuf::from("/dev/shm/vmc-c11/src/a.veryl");
    let parser = match Parser::parse(input, &src) {
        Ok(p) => p,
        Err(_) => return json!({"o":"noparse"}),
    };
    let mut panics: Vec<Value> = vec![];
    let mut metadata = match Metadata::create_default("prj") {
        Ok(m) => m,
        Err(e) => return json!({"o":"machinery","msg":format!("metadata: {e}")}),
    };
    metadata.build.exclude_std = true;
    let prj = "prj";
    let mut errors: Vec<AnalyzerError> = vec![];
    let mut analysis_complete = false;
    let mut formatted = false;
    let mut emitted = false;
    let mut emitted_rejected = false;

    let analyzer = stage("analyzer_new", &mut panics, || Analyzer::new(&metadata));
    if let Some(analyzer) = analyzer {
        if let Some(mut e) = stage("pass1", &mut panics, || analyzer.analyze_pass1(prj, &parser.veryl)) {
            errors.append(&mut e);
            // `veryl fmt`: parse, pass1, format
            for id in option_ids(opts) {
                if id == 1 || id == 3 && option_ids(opts).contains(&2) {
                    continue; // strip_comments is a build option: the formatter never sees it
                }
                let m = with_options(&metadata, id);
                let from = panics.len();
                if stage("format", &mut panics, || {
                    let mut f = veryl_formatter::Formatter::new(&m);
                    f.format(&parser.veryl, input);
                    f.as_str().len()
                })
                .is_some()
                {
                    formatted = true;
                }
                tag_options(&mut panics, from, id);
            }
            if let Some(mut e) = stage("post_pass1", &mut panics, Analyzer::analyze_post_pass1) {
                errors.append(&mut e);
                let mut context = Context::default();
                let mut ir = veryl_analyzer::ir::Ir::default();
                if let Some(mut e) = stage("pass2", &mut panics, || {
                    analyzer.analyze_pass2(&parser.veryl, &mut context, Some(&mut ir))
                }) {
                    errors.append(&mut e);
                    if let Some(mut e) = stage("post_pass2", &mut panics, || Analyzer::analyze_post_pass2(&ir)) {
                        errors.append(&mut e);
                        analysis_complete = true;
                    }
                }
            }
        }
    }
    let n_err = errors.iter().filter(|e| e.is_error()).count();
    let n_warn = errors.len() - n_err;
    if analysis_complete {
        let rejected = n_err > 0;
        let dst = std::path::PathBuf::from("/dev/shm/vmc-c11/target/a.sv");
        let map = std::path::PathBuf::from("/dev/shm/vmc-c11/target/a.sv.map");
        let name = if rejected { "emit_rejected" } else { "emit" };
        for id in option_ids(opts) {
            let m = with_options(&metadata, id);
            let from = panics.len();
            let ok = stage(name, &mut panics, || {
                let mut em = veryl_emitter::Emitter::new(&m, prj, &src, &dst, &map);
                em.emit(&parser.veryl, input);
                em.as_str().len()
            })
            .is_some();
            tag_options(&mut panics, from, id);
            if rejected {
                emitted_rejected |= ok;
            } else {
                emitted |= ok;
            }
        }
    }
    // what the CLI prints: every diagnostic rendered with its source
    let mut kinds: BTreeSet<String> = BTreeSet::new();
    let mut exceed = false;
    for e in &errors {
        let d = format!("{e:?}");
        let k = d.split(|c: char| !c.is_alphanumeric()).next().unwrap_or("").to_string();
        if k == "ExceedLimit" {
            exceed = true;
        }
        kinds.insert(k);
    }
    if render {
        let errs = &errors;
        stage("render_diagnostics", &mut panics, || {
            let h = miette::GraphicalReportHandler::new_themed(miette::GraphicalTheme::none());
            for e in errs.iter().take(24) {
                let mut s = String::new();
                let _ = h.render_report(&mut s, e as &dyn miette::Diagnostic);
                let _ = e.to_string();
            }
        });
    }
    json!({
        "o": "done", "n_err": n_err, "n_warn": n_warn, "kinds": kinds, "panics": panics,
        "complete": analysis_complete, "formatted": formatted, "emitted": emitted,
        "emitted_rejected": emitted_rejected, "exceed_limit": exceed,
    })
}

/// Multi-file worker: `input` is a JSON array of [file name, text]; files are processed in the
/// given order (the CLI sorts by file name) through the same pass order as `pipeline::analyze`:
/// parse + pass1 per file, post_pass1 (incl. type_dag::apply), pass2 per file with one shared
/// context, post_pass2, then emit + format per file when no error-severity diagnostic exists.
pub fn worker_multi(input: &str, opts: &Value) -> Value {
    use veryl_analyzer::{Analyzer, AnalyzerError, Context};
    use veryl_metadata::Metadata;
    use veryl_parser::Parser;

    let Ok(files) = serde_json::from_str::<Vec<(String, String)>>(input) else {
        return json!({"o":"machinery","msg":"multi: bad input"});
    };
    let mut metadata = match Metadata::create_default("prj") {
        Ok(m) => m,
        Err(e) => return json!({"o":"machinery","msg":format!("metadata: {e}")}),
    };
    metadata.build.exclude_std = true;
    let prj = "prj";
    let mut panics: Vec<Value> = vec![];
    let mut errors: Vec<AnalyzerError> = vec![];
    let mut parsers = vec![];
    for (name, text) in &files {
        let src = std::path::PathBuf::from(format!("/dev/shm/vmc-c11/src/{name}"));
        match Parser::parse(text, &src) {
            Ok(p) => parsers.push((src, text.clone(), p)),
            Err(_) => return json!({"o":"noparse"}),
        }
    }
    let mut complete = false;
    let mut emitted = false;
    let mut formatted = false;
    if let Some(analyzer) = stage("analyzer_new", &mut panics, || Analyzer::new(&metadata)) {
        let mut ok = true;
        for (_, _, p) in &parsers {
            match stage("pass1", &mut panics, || analyzer.analyze_pass1(prj, &p.veryl)) {
                Some(mut e) => errors.append(&mut e),
                None => {
                    ok = false;
                    break;
                }
            }
        }
        if ok {
            if let Some(mut e) = stage("post_pass1", &mut panics, Analyzer::analyze_post_pass1) {
                errors.append(&mut e);
                let mut context = Context::default();
                let mut ir = veryl_analyzer::ir::Ir::default();
                for (_, _, p) in &parsers {
                    context.set_project_name(prj);
                    match stage("pass2", &mut panics, || analyzer.analyze_pass2(&p.veryl, &mut context, Some(&mut ir))) {
                        Some(mut e) => errors.append(&mut e),
                        None => {
                            ok = false;
                            break;
                        }
                    }
                }
                if ok {
                    if let Some(mut e) = stage("post_pass2", &mut panics, || Analyzer::analyze_post_pass2(&ir)) {
                        errors.append(&mut e);
                        complete = true;
                    }
                }
            }
        }
    }
    let n_err = errors.iter().filter(|e| e.is_error()).count();
    let n_warn = errors.len() - n_err;
    if complete && n_err == 0 {
        for id in option_ids(opts) {
            let m = with_options(&metadata, id);
            let from = panics.len();
            let r = stage("emit", &mut panics, || {
                for (src, text, p) in &parsers {
                    let dst = src.with_extension("sv");
                    let map = src.with_extension("sv.map");
                    let mut em = veryl_emitter::Emitter::new(&m, prj, src, &dst, &map);
                    em.emit(&p.veryl, text);
                }
            });
            emitted |= r.is_some();
            let r = stage("format", &mut panics, || {
                for (_, text, p) in &parsers {
                    let mut f = veryl_formatter::Formatter::new(&m);
                    f.format(&p.veryl, text);
                }
            });
            formatted |= r.is_some();
            tag_options(&mut panics, from, id);
        }
    }
    let mut kinds: BTreeSet<String> = BTreeSet::new();
    for e in &errors {
        let d = format!("{e:?}");
        kinds.insert(d.split(|c: char| !c.is_alphanumeric()).next().unwrap_or("").to_string());
    }
    json!({
        "o": "done", "n_err": n_err, "n_warn": n_warn, "kinds": kinds, "panics": panics,
        "complete": complete, "formatted": formatted, "emitted": emitted,
        "emitted_rejected": false, "exceed_limit": false,
    })
}

// ------------------------------------------------------------------------ multi-file sub-family

#[derive(Clone, Copy, PartialEq, Eq, Debug)]
enum NK {
    M, // module
    P, // package
    G, // generic package
}

fn edge_ok(src: NK, dst: NK) -> bool {
    matches!((src, dst), (NK::M, _) | (NK::P, NK::P) | (NK::P, NK::G) | (NK::G, NK::P))
}

/// Text of declaration `i` of kind `kinds[i]` referencing every `j` with `edges[i][j]`.
fn decl_text(i: usize, kinds: &[NK], refs: &[usize], import: bool) -> String {
    let name = |j: usize| match kinds[j] {
        NK::M => format!("M{j}"),
        NK::P => format!("P{j}"),
        NK::G => format!("G{j}"),
    };
    let first_p = refs.iter().copied().find(|j| kinds[*j] == NK::P);
    let mut body = String::new();
    // value of the first referenced plain package: by path, or imported
    let mut arg = "1".to_string();
    if let Some(k) = first_p {
        if import {
            body.push_str(&format!("    import {}::W{k};\n", name(k)));
            arg = format!("W{k}");
        } else {
            arg = format!("{}::W{k}", name(k));
        }
    }
    let mut sum = String::new();
    for &j in refs {
        match kinds[j] {
            NK::M => body.push_str(&format!(
                "    var w{j}: logic;\n    inst u{j}: {} (i_a: i_a, o_a: w{j});\n",
                name(j)
            )),
            NK::P => {
                let v = if Some(j) == first_p { arg.clone() } else { format!("{}::W{j}", name(j)) };
                if kinds[i] == NK::M {
                    body.push_str(&format!("    const c{j}: u32 = {v};\n"));
                } else {
                    sum.push_str(&format!(" + {v}"));
                }
            }
            NK::G => {
                if kinds[i] == NK::M {
                    body.push_str(&format!("    const g{j}: u32 = {}::<{arg}>::X;\n", name(j)));
                } else {
                    sum.push_str(&format!(" + {}::<{arg}>::X", name(j)));
                }
            }
        }
    }
    match kinds[i] {
        NK::M => format!(
            "module M{i} (i_a: input logic, o_a: output logic) {{\n{body}    assign o_a = i_a;\n}}\n"
        ),
        NK::P => format!("package P{i} {{\n{body}    const W{i}: u32 = 1{sum};\n}}\n"),
        NK::G => format!("package G{i}::<T: u32 = 4> {{\n{body}    const X: u32 = T{sum};\n}}\n"),
    }
}

fn permutations(items: &[usize]) -> Vec<Vec<usize>> {
    if items.len() <= 1 {
        return vec![items.to_vec()];
    }
    let mut out = vec![];
    for k in 0..items.len() {
        let mut rest = items.to_vec();
        let x = rest.remove(k);
        for mut p in permutations(&rest) {
            p.insert(0, x);
            out.push(p);
        }
    }
    out
}

/// Every way to write a small acyclic reference graph of modules / packages / generic packages
/// into 1..=`max_files` files: all node kinds, all forward edge sets (references go from a lower
/// to a higher label, so the *symbol* graph is acyclic by construction), both reference styles
/// (path / import), all assignments of declarations to files, and all declaration orders inside
/// a file (`all_orders`) or label order only. All members are valid Veryl projects.
fn multi_cases(n: usize, max_files: usize, all_orders: bool) -> Vec<(String, Vec<(String, String)>)> {
    let mut out = vec![];
    let pairs: Vec<(usize, usize)> = (0..n).flat_map(|i| (i + 1..n).map(move |j| (i, j))).collect();
    let nk = [NK::M, NK::P, NK::G];
    let mut kinds_all: Vec<Vec<NK>> = vec![vec![]];
    for _ in 0..n {
        kinds_all = kinds_all.into_iter().flat_map(|k| nk.iter().map(move |x| { let mut k2 = k.clone(); k2.push(*x); k2 })).collect();
    }
    for kinds in &kinds_all {
        for mask in 1u32..(1 << pairs.len()) {
            let edges: Vec<(usize, usize)> = pairs.iter().enumerate().filter(|(b, _)| mask >> b & 1 == 1).map(|(_, e)| *e).collect();
            if !edges.iter().all(|(i, j)| edge_ok(kinds[*i], kinds[*j])) {
                continue;
            }
            let uses_p = edges.iter().any(|(_, j)| kinds[*j] == NK::P);
            for import in [false, true] {
                if import && !uses_p {
                    continue;
                }
                let decls: Vec<String> = (0..n)
                    .map(|i| {
                        let refs: Vec<usize> = edges.iter().filter(|(a, _)| *a == i).map(|(_, b)| *b).collect();
                        decl_text(i, kinds, &refs, import)
                    })
                    .collect();
                // assignments of declarations to files: file index per declaration, files used
                // must be exactly 0..k (surjective, first occurrence order free: both (0,1) and
                // (1,0) labelings matter because files are processed in name order)
                let total = max_files.pow(n as u32);
                for code in 0..total {
                    let mut c = code;
                    let assign: Vec<usize> = (0..n).map(|_| { let f = c % max_files; c /= max_files; f }).collect();
                    let used: BTreeSet<usize> = assign.iter().copied().collect();
                    let k = used.len();
                    if used.iter().copied().max().unwrap() != k - 1 {
                        continue; // files must be f0..f(k-1) without gaps
                    }
                    let per_file: Vec<Vec<usize>> = (0..k).map(|f| (0..n).filter(|i| assign[*i] == f).collect()).collect();
                    // inside one file veryl wants a package defined before it is referenced:
                    // keep only the orders in which every referenced package of the same file
                    // comes first (label order is descending-safe: references go i -> j, i < j,
                    // so the canonical in-file order is by descending label)
                    let valid = |o: &Vec<usize>| -> bool {
                        edges.iter().all(|(i, j)| {
                            if kinds[*j] == NK::M {
                                return true;
                            }
                            match (o.iter().position(|x| x == i), o.iter().position(|x| x == j)) {
                                (Some(pi), Some(pj)) => pj < pi,
                                _ => true,
                            }
                        })
                    };
                    let orders: Vec<Vec<Vec<usize>>> = per_file
                        .iter()
                        .map(|m| {
                            if all_orders {
                                permutations(m).into_iter().filter(|o| valid(o)).collect()
                            } else {
                                let mut d = m.clone();
                                d.reverse();
                                vec![d]
                            }
                        })
                        .collect();
                    let mut idx = vec![0usize; k];
                    loop {
                        let files: Vec<(String, String)> = (0..k)
                            .map(|f| {
                                let text: String = orders[f][idx[f]].iter().map(|i| decls[*i].as_str()).collect::<Vec<_>>().join("\n");
                                (format!("f{f}.veryl"), text)
                            })
                            .collect();
                        let desc = format!(
                            "kinds={:?} edges={:?} style={} files={:?}",
                            kinds,
                            edges,
                            if import { "import" } else { "path" },
                            (0..k).map(|f| orders[f][idx[f]].clone()).collect::<Vec<_>>()
                        );
                        out.push((desc, files));
                        let mut f = 0;
                        loop {
                            if f == k {
                                break;
                            }
                            idx[f] += 1;
                            if idx[f] < orders[f].len() {
                                break;
                            }
                            idx[f] = 0;
                            f += 1;
                        }
                        if f == k {
                            break;
                        }
                    }
                }
            }
        }
    }
    out
}

// ---------------------------------------------------------------------------------- tokenizer

#[derive(Clone, Copy, PartialEq, Eq, Debug)]
enum K {
    Ident,
    Keyword,
    SysIdent,
    Number,
    Str,
    Punct,
    Embed,
}

#[derive(Clone, Copy, Debug)]
struct Tok {
    s: usize,
    e: usize,
    k: K,
}

const KEYWORDS: &[&str] = &[
    "alias", "always_comb", "always_ff", "assign", "as", "bind", "bit", "block", "bbool", "lbool", "case",
    "clock", "clock_posedge", "clock_negedge", "connect", "const", "converse", "default", "else", "embed",
    "enum", "f32", "f64", "false", "final", "for", "function", "gen", "i8", "i16", "i32", "i64", "if_reset",
    "if", "import", "include", "initial", "inout", "input", "inside", "inst", "interface", "in", "let",
    "logic", "lsb", "mixin", "modport", "module", "msb", "output", "outside", "package", "param", "proto",
    "pub", "repeat", "reset", "reset_async_high", "reset_async_low", "reset_sync_high", "reset_sync_low",
    "return", "rev", "break", "same", "signed", "step", "string", "struct", "switch", "tri", "true", "type",
    "p8", "p16", "p32", "p64", "u8", "u16", "u32", "u64", "union", "unsafe", "var",
];

const PUNCTS: &[&str] = &[
    "<<<=", ">>>=", "<<<", ">>>", "<<=", ">>=", "==?", "!=?", "..=", "::<", "{{{", "}}}", "::", "..", "==", "!=",
    "<=", ">=", "<:", ">:", "&&", "||", "~&", "~|", "~^", "^~", "->", "<-", "+:", "-:", "+=", "-=", "*=", "/=",
    "%=", "&=", "|=", "^=", "**", "<<", ">>", "'{", "#[", "<>",
];

fn tokenize(t: &str) -> Vec<Tok> {
    let b = t.as_bytes();
    let n = b.len();
    let mut i = 0usize;
    let mut v = vec![];
    let is_id0 = |c: u8| c.is_ascii_alphabetic() || c == b'_';
    let is_id = |c: u8| c.is_ascii_alphanumeric() || c == b'_' || c == b'$';
    while i < n {
        let c = b[i];
        if c.is_ascii_whitespace() {
            i += 1;
            continue;
        }
        if c == b'/' && i + 1 < n && b[i + 1] == b'/' {
            while i < n && b[i] != b'\n' {
                i += 1;
            }
            continue;
        }
        if c == b'/' && i + 1 < n && b[i + 1] == b'*' {
            let mut j = i + 2;
            while j + 1 < n && !(b[j] == b'*' && b[j + 1] == b'/') {
                j += 1;
            }
            i = (j + 2).min(n);
            continue;
        }
        let s = i;
        if c == b'"' {
            i += 1;
            while i < n && b[i] != b'"' {
                if b[i] == b'\\' {
                    i += 1;
                }
                i += 1;
            }
            i = (i + 1).min(n);
            v.push(Tok { s, e: i, k: K::Str });
            continue;
        }
        if t[i..].starts_with("{{{") {
            // embed body: opaque up to the matching }}}
            if let Some(p) = t[i + 3..].find("}}}") {
                i = i + 3 + p + 3;
                v.push(Tok { s, e: i, k: K::Embed });
                continue;
            }
        }
        if c == b'$' && i + 1 < n && is_id0(b[i + 1]) {
            i += 1;
            while i < n && is_id(b[i]) {
                i += 1;
            }
            v.push(Tok { s, e: i, k: K::SysIdent });
            continue;
        }
        if is_id0(c) {
            if c == b'r' && i + 2 < n && b[i + 1] == b'#' && is_id0(b[i + 2]) {
                i += 2;
            }
            while i < n && is_id(b[i]) {
                i += 1;
            }
            let k = if KEYWORDS.contains(&&t[s..i]) { K::Keyword } else { K::Ident };
            v.push(Tok { s, e: i, k });
            continue;
        }
        let based = |j: usize| -> Option<usize> {
            // at b[j] == '\'' : 's?[bodh]digits | [01xzXZ]
            let mut k = j + 1;
            if k < n && b[k] == b's' {
                k += 1;
            }
            if k < n && matches!(b[k], b'b' | b'o' | b'd' | b'h') {
                let mut m = k + 1;
                while m < n && (b[m].is_ascii_hexdigit() || matches!(b[m], b'x' | b'z' | b'X' | b'Z' | b'_')) {
                    m += 1;
                }
                if m > k + 1 {
                    return Some(m);
                }
            }
            if j + 1 < n && matches!(b[j + 1], b'0' | b'1' | b'x' | b'z' | b'X' | b'Z') && !(j + 2 < n && is_id(b[j + 2])) {
                return Some(j + 2);
            }
            None
        };
        if c.is_ascii_digit() {
            while i < n && (b[i].is_ascii_digit() || b[i] == b'_') {
                i += 1;
            }
            if i + 1 < n && b[i] == b'.' && b[i + 1].is_ascii_digit() {
                i += 1;
                while i < n && (b[i].is_ascii_digit() || b[i] == b'_') {
                    i += 1;
                }
                if i < n && matches!(b[i], b'e' | b'E') {
                    let mut j = i + 1;
                    if j < n && matches!(b[j], b'+' | b'-') {
                        j += 1;
                    }
                    if j < n && b[j].is_ascii_digit() {
                        while j < n && (b[j].is_ascii_digit() || b[j] == b'_') {
                            j += 1;
                        }
                        i = j;
                    }
                }
            } else if i < n && b[i] == b'\'' {
                if let Some(m) = based(i) {
                    i = m;
                }
            }
            v.push(Tok { s, e: i, k: K::Number });
            continue;
        }
        if c == b'\'' {
            if let Some(m) = based(i) {
                i = m;
                v.push(Tok { s, e: i, k: K::Number });
                continue;
            }
        }
        let mut matched = false;
        for p in PUNCTS {
            if t[i..].starts_with(p) {
                i += p.len();
                matched = true;
                break;
            }
        }
        if !matched {
            i += t[i..].chars().next().map(|c| c.len_utf8()).unwrap_or(1);
        }
        v.push(Tok { s, e: i, k: K::Punct });
    }
    v
}

// -------------------------------------------------------------------------------------- edits

#[derive(Clone, Debug, PartialEq, Eq)]
enum Edit {
    Del(u32),
    Dup(u32),
    Rep(u32, Arc<str>),
    Swap(u32),
    /// delete tokens a..=b (a whole statement / declaration / port / arm)
    Drop(u32, u32),
}

impl Edit {
    fn class(&self) -> &'static str {
        match self {
            Edit::Del(_) => "delete_token",
            Edit::Dup(_) => "duplicate_token",
            Edit::Rep(..) => "replace_token",
            Edit::Swap(_) => "swap_adjacent",
            Edit::Drop(..) => "drop_item",
        }
    }
    fn describe(&self, text: &str, toks: &[Tok]) -> String {
        let tx = |i: u32| &text[toks[i as usize].s..toks[i as usize].e];
        match self {
            Edit::Del(i) => format!("delete token #{i} `{}`", clip(tx(*i), 30)),
            Edit::Dup(i) => format!("duplicate token #{i} `{}`", clip(tx(*i), 30)),
            Edit::Rep(i, r) => format!("replace token #{i} `{}` by `{r}`", clip(tx(*i), 30)),
            Edit::Swap(i) => format!("swap tokens #{i} `{}` and `{}`", clip(tx(*i), 30), clip(tx(*i + 1), 30)),
            Edit::Drop(a, b) => format!("drop tokens #{a}..=#{b} `{}`", clip(&text[toks[*a as usize].s..toks[*b as usize].e], 60)),
        }
    }
    /// byte range replaced and the replacement
    fn splice(&self, text: &str, toks: &[Tok]) -> (usize, usize, String) {
        match self {
            Edit::Del(i) => (toks[*i as usize].s, toks[*i as usize].e, String::new()),
            Edit::Dup(i) => {
                let t = toks[*i as usize];
                (t.e, t.e, format!(" {}", &text[t.s..t.e]))
            }
            Edit::Rep(i, r) => (toks[*i as usize].s, toks[*i as usize].e, r.to_string()),
            Edit::Swap(i) => {
                let (a, b) = (toks[*i as usize], toks[*i as usize + 1]);
                (a.s, b.e, format!("{}{}{}", &text[b.s..b.e], &text[a.e..b.s], &text[a.s..a.e]))
            }
            Edit::Drop(a, b) => (toks[*a as usize].s, toks[*b as usize].e, String::new()),
        }
    }
    fn first_tok(&self) -> u32 {
        match self {
            Edit::Del(i) | Edit::Dup(i) | Edit::Rep(i, _) | Edit::Swap(i) => *i,
            Edit::Drop(a, _) => *a,
        }
    }
    fn last_tok(&self) -> u32 {
        match self {
            Edit::Del(i) | Edit::Dup(i) | Edit::Rep(i, _) => *i,
            Edit::Swap(i) => *i + 1,
            Edit::Drop(_, b) => *b,
        }
    }
}

fn apply(text: &str, toks: &[Tok], edits: &[&Edit]) -> String {
    // edits are on disjoint token ranges, in ascending order
    let mut out = String::with_capacity(text.len() + 64);
    let mut pos = 0usize;
    for e in edits {
        let (s, en, r) = e.splice(text, toks);
        out.push_str(&text[pos..s]);
        out.push_str(&r);
        pos = en;
    }
    out.push_str(&text[pos..]);
    out
}

// The last three: more written digits than the declared width / than 64 bits, with x/z fill above
// bit 63 (truncation of based literals) and a value wider than 64 bits.
const NUMBER_REPLACEMENTS: &[&str] = &[
    "0",
    "1",
    "'x",
    "64'hffff_ffff_ffff_ffff",
    "1000000",
    "8'hz_0000_0000_0000_0000",
    "4'bx000_0000_0000_0000_0000_0000_0000_0000_0000_0000_0000_0000_0000_0000_0000_0000_0001",
    "72'hff_0000_0000_0000_0001",
];
const IDENT_EXTRA: &[&str] = &["undefined_zz", "r#module"];

/// Items that can be dropped as a whole: for every `{`/`(` group, the maximal token runs
/// separated by `;` or `,` at the group's own nesting level, and runs that end with a `}` block.
fn items(text: &str, toks: &[Tok]) -> Vec<(u32, u32)> {
    let tx = |i: usize| &text[toks[i].s..toks[i].e];
    let mut out: BTreeSet<(u32, u32)> = BTreeSet::new();
    // stack of (opening token index, start of current item)
    let mut stack: Vec<(usize, usize)> = vec![(usize::MAX, 0)];
    for i in 0..toks.len() {
        if toks[i].k != K::Punct {
            continue;
        }
        let t = tx(i);
        match t {
            "{" | "(" | "[" | "'{" | "#[" | "::<" => {
                stack.push((i, i + 1));
            }
            "}" | ")" | "]" => {
                if stack.len() > 1 {
                    let (_, start) = stack.pop().unwrap();
                    if start < i {
                        out.insert((start as u32, (i - 1) as u32)); // trailing item without separator
                    }
                    if t == "}" {
                        // a `... { ... }` item ends here unless followed by else / , / ; / )
                        let next = if i + 1 < toks.len() { tx(i + 1) } else { "" };
                        let top = stack.last_mut().unwrap();
                        if !matches!(next, "else" | "," | ";" | ")" | "}" ) || next == "}" {
                            if top.1 <= i && next != "else" {
                                out.insert((top.1 as u32, i as u32));
                                if !matches!(next, "," | ";") {
                                    top.1 = i + 1;
                                }
                            }
                        }
                    }
                }
            }
            ";" | "," => {
                let top = stack.last_mut().unwrap();
                if top.1 <= i {
                    out.insert((top.1 as u32, i as u32));
                }
                top.1 = i + 1;
            }
            _ => {}
        }
    }
    out.into_iter().filter(|(a, b)| b >= a && (*b - *a) >= 1 && ((*b - *a) as usize) < toks.len() - 1).collect()
}

fn single_edits(text: &str, toks: &[Tok], reduced: bool) -> Vec<Edit> {
    let mut v = vec![];
    let tx = |i: usize| &text[toks[i].s..toks[i].e];
    let idents: Vec<Arc<str>> = {
        let mut s: BTreeSet<&str> = BTreeSet::new();
        for (i, t) in toks.iter().enumerate() {
            if t.k == K::Ident {
                s.insert(tx(i));
            }
        }
        s.into_iter().map(Arc::from).collect()
    };
    let extra: Vec<Arc<str>> = IDENT_EXTRA.iter().map(|x| Arc::from(*x)).collect();
    let numbers: Vec<Arc<str>> = NUMBER_REPLACEMENTS.iter().map(|x| Arc::from(*x)).collect();
    for i in 0..toks.len() {
        let iu = i as u32;
        if toks[i].k == K::Embed {
            continue;
        }
        v.push(Edit::Del(iu));
        if !reduced {
            v.push(Edit::Dup(iu));
        }
        match toks[i].k {
            K::Ident => {
                if reduced {
                    v.push(Edit::Rep(iu, extra[0].clone()));
                } else {
                    for r in idents.iter().chain(extra.iter()) {
                        if &**r != tx(i) {
                            v.push(Edit::Rep(iu, r.clone()));
                        }
                    }
                }
            }
            K::Number => {
                for r in numbers.iter().take(if reduced { 1 } else { numbers.len() }) {
                    if &**r != tx(i) {
                        v.push(Edit::Rep(iu, r.clone()));
                    }
                }
            }
            _ => {}
        }
        if i + 1 < toks.len() && toks[i + 1].k != K::Embed && tx(i) != tx(i + 1) {
            v.push(Edit::Swap(iu));
        }
    }
    if !reduced {
        for (a, b) in items(text, toks) {
            v.push(Edit::Drop(a, b));
        }
    }
    v
}

struct Source {
    name: String,
    text: String,
    toks: Vec<Tok>,
}

fn load_sources() -> Vec<Source> {
    let mut v = vec![];
    for sub in ["veryl", "error"] {
        let dir = repo_root().join("testcases").join(sub);
        let Ok(rd) = std::fs::read_dir(&dir) else { continue };
        let mut files: Vec<_> = rd.flatten().map(|e| e.path()).collect();
        files.sort();
        for p in files {
            if p.extension().and_then(|x| x.to_str()) != Some("veryl") {
                continue;
            }
            if let Ok(text) = std::fs::read_to_string(&p) {
                let toks = tokenize(&text);
                v.push(Source {
                    name: format!("{sub}/{}", p.file_name().unwrap().to_string_lossy()),
                    text,
                    toks,
                });
            }
        }
    }
    if let Ok(f) = std::env::var("VMC_C11_ONLY") {
        // development aid: restrict the corpus to files whose name contains the given text
        v.retain(|s| s.name.contains(&f));
    }
    // simplest first; name breaks ties (deterministic)
    v.sort_by(|a, b| (a.toks.len(), &a.name).cmp(&(b.toks.len(), &b.name)));
    v
}

// ------------------------------------------------------------------------------------- oracle

fn msg_class(msg: &str) -> String {
    let m = msg.to_ascii_lowercase();
    let c = if m.contains("result::unwrap()") || m.contains("unwrap()` on an `err`") {
        "unwrap_err"
    } else if m.contains("option::unwrap()") || m.contains("unwrap()` on a `none`") {
        "unwrap_none"
    } else if m.contains("index out of bounds") || m.contains("out of range") || m.contains("out of bounds") {
        "index_out_of_bounds"
    } else if m.contains("overflow") {
        "arithmetic_overflow"
    } else if m.contains("divide by zero") || m.contains("division by zero") || m.contains("remainder with a divisor of zero") {
        "divide_by_zero"
    } else if m.contains("already borrowed") || m.contains("already mutably borrowed") {
        "refcell_borrow"
    } else if m.contains("unreachable") {
        "unreachable"
    } else if m.contains("not implemented") || m.contains("not yet implemented") {
        "unimplemented"
    } else if m.contains("char boundary") {
        "char_boundary"
    } else if m.contains("capacity overflow") || m.contains("allocation") {
        "allocation"
    } else if m.contains("expect") {
        "expect"
    } else {
        "other"
    };
    c.to_string()
}

#[derive(Default)]
struct Acc {
    evaluations: u64,
    parsed: u64,
    rejected_by_parser: u64,
    analysis_clean: u64,
    analysis_with_errors: u64,
    analysis_with_warnings_only: u64,
    emitted: u64,
    emitted_rejected: u64,
    formatted: u64,
    exceed_limit: u64,
    kinds: BTreeMap<String, u64>,
    by_edit_class: BTreeMap<String, (u64, u64)>, // evaluated, parsed
    per_file: BTreeMap<String, (u64, u64)>,
    /// signature -> (count, smallest failing case)
    findings: BTreeMap<String, (u64, Value, Value, String)>,
    observations: BTreeMap<String, (u64, Value)>,
    timeouts: Vec<Value>,
    overflow_candidates: Vec<(Value, String)>,
    machinery: Vec<String>,
    outcome_classes: BTreeSet<String>,
}

impl Acc {
    fn finding(&mut self, sig: String, what: String, case: Value, observed: Value) {
        let size = case["input"].as_str().map(|s| s.len()).unwrap_or(usize::MAX);
        match self.findings.get_mut(&sig) {
            Some(e) => {
                e.0 += 1;
                let old = e.1["input"].as_str().map(|s| s.len()).unwrap_or(usize::MAX);
                if size < old {
                    e.1 = case;
                    e.2 = observed;
                    e.3 = what;
                }
            }
            None => {
                self.findings.insert(sig, (1, case, observed, what));
            }
        }
    }

    fn judge(&mut self, file: &str, edit_class: &str, edit_desc: &str, input: &str, r: &Res) {
        self.evaluations += 1;
        let ec = self.by_edit_class.entry(edit_class.to_string()).or_default();
        ec.0 += 1;
        let pf = self.per_file.entry(file.to_string()).or_default();
        pf.0 += 1;
        let case = || json!({"file": file, "edit": edit_desc, "edit_class": edit_class, "input": input});
        match r {
            Res::Done(v) => match v["o"].as_str().unwrap_or("") {
                "noparse" => self.rejected_by_parser += 1,
                "done" => {
                    self.parsed += 1;
                    self.by_edit_class.get_mut(edit_class).unwrap().1 += 1;
                    self.per_file.get_mut(file).unwrap().1 += 1;
                    let (ne, nw) = (v["n_err"].as_u64().unwrap_or(0), v["n_warn"].as_u64().unwrap_or(0));
                    if ne > 0 {
                        self.analysis_with_errors += 1;
                    } else if nw > 0 {
                        self.analysis_with_warnings_only += 1;
                    } else {
                        self.analysis_clean += 1;
                    }
                    if v["emitted"] == true {
                        self.emitted += 1;
                    }
                    if v["emitted_rejected"] == true {
                        self.emitted_rejected += 1;
                    }
                    if v["formatted"] == true {
                        self.formatted += 1;
                    }
                    if v["exceed_limit"] == true {
                        self.exceed_limit += 1;
                    }
                    let mut ks = vec![];
                    for k in v["kinds"].as_array().cloned().unwrap_or_default() {
                        let k = k.as_str().unwrap_or("").to_string();
                        *self.kinds.entry(k.clone()).or_default() += 1;
                        ks.push(k);
                    }
                    if self.outcome_classes.len() < 100_000 {
                        self.outcome_classes.insert(ks.join("+"));
                    }
                    for p in v["panics"].as_array().cloned().unwrap_or_default() {
                        let st = p["stage"].as_str().unwrap_or("?");
                        let loc = norm_loc(p["loc"].as_str().unwrap_or("?"));
                        let msg = p["msg"].as_str().unwrap_or("");
                        let cls = msg_class(msg);
                        if st == "emit_rejected" {
                            let sig = format!("emit_rejected:{loc}:{cls}");
                            let e = self.observations.entry(sig).or_insert((0, json!({"case": case(), "panic": p})));
                            e.0 += 1;
                            if input.len() < e.1["case"]["input"].as_str().map(|s| s.len()).unwrap_or(usize::MAX) {
                                e.1 = json!({"case": case(), "panic": p});
                            }
                            continue;
                        }
                        let mut c = case();
                        if let Some(o) = p["options"].as_u64() {
                            c["options"] = json!(o);
                            c["options_name"] = p["options_name"].clone();
                        }
                        self.finding(
                            format!("C11:panic:{loc}:{cls}"),
                            format!("{st} panicked at {loc}: {msg}"),
                            c,
                            json!({"stage": st, "panic": p, "analyzer_errors_before": ne, "diagnostic_kinds": ks}),
                        );
                    }
                }
                "machinery" => self.machinery.push(v["msg"].as_str().unwrap_or("").to_string()),
                "panic" => {
                    // escaped every stage guard: parse itself or thread-local destructors
                    let loc = norm_loc(v["loc"].as_str().unwrap_or("?"));
                    let msg = v["msg"].as_str().unwrap_or("");
                    self.finding(
                        format!("C11:panic:{loc}:{}", msg_class(msg)),
                        format!("panicked outside the pass guards at {loc}: {msg}"),
                        case(),
                        v.clone(),
                    );
                }
                other => self.machinery.push(format!("unknown worker outcome {other:?}")),
            },
            Res::Died { signal, code, stack_overflow, stderr_tail, confirmed_alone } => {
                if signal.is_none() && !*stack_overflow {
                    self.machinery.push(format!("worker exited with code {code:?} without result ({file}, {edit_desc}): {stderr_tail}"));
                } else if !*confirmed_alone {
                    self.machinery.push(format!("worker death (signal {signal:?}) not reproducible alone ({file}, {edit_desc}): {stderr_tail}"));
                } else if *stack_overflow {
                    self.overflow_candidates.push((case(), stderr_tail.clone()));
                } else if stderr_tail.contains("memory allocation of") {
                    self.finding(
                        "C11:allocation_failure".to_string(),
                        "allocation failure under the worker's 6 GiB address-space limit".to_string(),
                        case(),
                        json!({"stderr": stderr_tail, "signal": signal}),
                    );
                } else {
                    self.finding(
                        format!("C11:abort:signal{}", signal.unwrap_or(0)),
                        format!("the process was killed by signal {signal:?}"),
                        case(),
                        json!({"stderr": stderr_tail, "signal": signal}),
                    );
                }
            }
            Res::Timeout { cap_s, confirmed_alone } => {
                if self.timeouts.len() < 50 {
                    self.timeouts.push(json!({"file": file, "edit": edit_desc, "cap_s": cap_s, "reproduced_alone": confirmed_alone,
                        "input_hash": hash_hex(input.as_bytes())}));
                }
            }
        }
    }
}

// ------------------------------------------------------------------------------ CLI reproduction

/// Runs the harness-built real `veryl` on a scratch project holding only `input`.
fn project_toml(options: usize) -> String {
    let strip = options == 1 || options == 3;
    let mut fmt = String::new();
    if options == 2 || options == 3 {
        fmt.push_str("vertical_align = false\n");
    }
    if options == 4 {
        fmt.push_str("max_width = 40\n");
    }
    if options == 5 {
        fmt.push_str("newline_style = \"windows\"\n");
    }
    format!(
        "[project]\nname = \"prj\"\nversion = \"0.1.0\"\n\n[build]\nexclude_std = true\nsources = [\"src\"]\nstrip_comments = {strip}\ntarget = {{type = \"directory\", path = \"target\"}}\nsourcemap_target = {{type = \"none\"}}\n\n[format]\n{fmt}"
    )
}

fn cli_reproduce(dir: &Path, files: &[(String, String)], options: usize) -> Value {
    let sb = crate::proj::Sandbox::new(dir);
    sb.write("Veryl.toml", &project_toml(options));
    for (name, text) in files {
        sb.write(&format!("src/{name}"), text);
    }
    let mut out = serde_json::Map::new();
    for cmd in [vec!["check"], vec!["build"], vec!["fmt", "--check"], vec!["dump"]] {
        let r = sb.veryl(&cmd);
        let line = r
            .stderr
            .lines()
            .chain(r.stdout.lines())
            .find(|l| l.contains("panicked at"))
            .map(|l| clip(l, 200));
        out.insert(
            cmd.join(" "),
            json!({"panicked": r.panicked(), "exit": r.code, "signal": r.signal, "timed_out": r.timed_out, "panic_line": line}),
        );
    }
    Value::Object(out)
}

/// Greedy reduction: drop items, then lines, while the same signature still shows.
fn minimize(dir: &Path, cfg: &Cfg, sig: &str, input: &str, max_runs: usize) -> String {
    let same = |t: &str| -> bool {
        let r = run_batch(dir, cfg, &[t]);
        let mut a = Acc::default();
        a.judge("min", "min", "min", t, &r[0]);
        a.findings.contains_key(sig)
    };
    let mut cur = input.to_string();
    let mut runs = 0usize;
    loop {
        let mut progressed = false;
        let toks = tokenize(&cur);
        let mut cands: Vec<(usize, usize)> = items(&cur, &toks)
            .into_iter()
            .map(|(a, b)| (toks[a as usize].s, toks[b as usize].e))
            .collect();
        // whole lines too
        let mut p = 0usize;
        for l in cur.split_inclusive('\n') {
            cands.push((p, p + l.len()));
            p += l.len();
        }
        cands.sort_by_key(|(a, b)| std::cmp::Reverse(b - a));
        for (a, b) in cands {
            if runs >= max_runs {
                return cur;
            }
            if b > cur.len() || a >= b || !cur.is_char_boundary(a) || !cur.is_char_boundary(b) {
                continue;
            }
            let t = format!("{}{}", &cur[..a], &cur[b..]);
            runs += 1;
            if same(&t) {
                cur = t;
                progressed = true;
                break; // offsets are stale: recompute candidates
            }
        }
        if !progressed {
            return cur;
        }
    }
}

/// Same greedy reduction for stack overflows (criterion: the 8 MiB worker still overflows).
fn minimize_overflow(dir: &Path, cfg: &Cfg, input: &str, max_runs: usize) -> String {
    let same = |t: &str| -> bool {
        let r = run_batch(dir, cfg, &[t]);
        matches!(&r[0], Res::Died { stack_overflow: true, .. })
    };
    let mut cur = input.to_string();
    let mut runs = 0usize;
    loop {
        let mut progressed = false;
        let toks = tokenize(&cur);
        let mut cands: Vec<(usize, usize)> = items(&cur, &toks)
            .into_iter()
            .map(|(a, b)| (toks[a as usize].s, toks[b as usize].e))
            .collect();
        cands.sort_by_key(|(a, b)| std::cmp::Reverse(b - a));
        for (a, b) in cands {
            if runs >= max_runs {
                return cur;
            }
            if b > cur.len() || a >= b || !cur.is_char_boundary(a) || !cur.is_char_boundary(b) {
                continue;
            }
            let t = format!("{}{}", &cur[..a], &cur[b..]);
            runs += 1;
            if same(&t) {
                cur = t;
                progressed = true;
                break;
            }
        }
        if !progressed {
            return cur;
        }
    }
}

// -------------------------------------------------------------------------------------- driver

fn cfg(cap_s: f64, batch: usize) -> Cfg {
    // variants: default options and the set that disables both the align pass and comments
    Cfg { kind: "full", cap_s, stack: CLI_STACK, batch, fresh_thread: true, opts: json!({"render": true, "emit_options": [0, 3]}), mem_limit: 6 << 30 }
}

pub fn run(ctx: &Ctx) -> Report {
    let mut rep = Report::new(Level::Exploration);
    let thorough = ctx.thorough();
    let budget = ctx.budget(22.0, 22.0 * 60.0);
    let dir = ctx.dir("w");
    let sources = Arc::new(load_sources());
    if sources.len() < 100 && std::env::var("VMC_C11_ONLY").is_err() {
        rep.machinery(format!("corpus not found: {} files under testcases/veryl + testcases/error", sources.len()));
        return rep;
    }
    let acc = Mutex::new(Acc::default());
    let mut fam_report: Vec<Value> = vec![];
    let mut exhaustive = true;

    // ---- family 0: the unchanged files (baseline: all must parse; vacuity reference)
    // ---- family 1: every single edit of every file (quick: as many files, simplest first, as the budget allows)
    let mut index: Vec<(u32, Edit)> = vec![]; // (source, edit)
    for (si, s) in sources.iter().enumerate() {
        for e in single_edits(&s.text, &s.toks, false) {
            index.push((si as u32, e));
        }
    }
    let index = Arc::new(index);


    // ---- family M: small valid multi-file projects (all distributions of an acyclic reference
    // graph over files); quick: 3 declarations over <= 2 files, all in-file orders; thorough adds
    // 3 declarations over 3 files and 4 declarations over 2 files (label order inside a file)
    let mut multi: Vec<(String, Vec<(String, String)>)> = multi_cases(3, 2, true);
    if thorough {
        multi.extend(multi_cases(3, 3, true).into_iter().filter(|(_, f)| f.len() == 3));
        multi.extend(multi_cases(4, 2, false));
    }
    let multi = Arc::new(multi);
    // budgets count from here: corpus loading and family generation are setup
    let t_setup = ctx.elapsed();
    let budget = budget + t_setup;
    let mut multi_complete = false;
    let mut unchanged_complete = false;
    {
        let src = sources.clone();
        let n = src.len();
        let t0u = ctx.elapsed();
        let mut c = cfg(60.0, 8);
        c.opts = json!({"render": true, "emit_options": [0, 1, 2, 3, 4, 5]});
        let done = run_all(
            &dir,
            &c,
            n,
            &|i| src[i].text.clone(),
            &|i, input, r| acc.lock().unwrap().judge(&src[i].name, "unchanged", "none", input, r),
            &|| ctx.elapsed() > t_setup + (budget - t_setup) * 0.3,
        );
        if done < n {
            exhaustive = false;
        }
        unchanged_complete = done == n;
        fam_report.push(json!({"family": "unchanged_files_all_option_sets", "size": n, "completed": done, "complete": done == n,
            "wall_s": ((ctx.elapsed() - t0u) * 10.0).round() / 10.0}));
    }
    let baseline_parsed_abs = acc.lock().unwrap().parsed;
    let multi_invalid = Mutex::new((0u64, BTreeMap::<String, u64>::new(), Vec::<Value>::new()));
    {
        let m = multi.clone();
        let n = m.len();
        let t0 = ctx.elapsed();
        let mcfg = Cfg { kind: "multi", cap_s: 30.0, stack: CLI_STACK, batch: 32, fresh_thread: true, opts: json!({"emit_options": [0, 3]}), mem_limit: 6 << 30 };
        let multi_deadline = t_setup + (budget - t_setup) * if thorough { 0.25 } else { 0.6 };
        let done = run_all(
            &dir,
            &mcfg,
            n,
            &|i| serde_json::to_string(&m[i].1).unwrap(),
            &|i, input, r| {
                acc.lock().unwrap().judge("multi_file", "multi_file", &m[i].0, input, r);
                if let Res::Done(v) = r {
                    if v["o"] == "noparse" || v["n_err"].as_u64().unwrap_or(0) > 0 {
                        let mut g = multi_invalid.lock().unwrap();
                        g.0 += 1;
                        for k in v["kinds"].as_array().cloned().unwrap_or_default() {
                            *g.1.entry(k.as_str().unwrap_or("").to_string()).or_default() += 1;
                        }
                        if g.2.len() < 3 {
                            g.2.push(json!({"case": m[i].0, "files": m[i].1, "result": v}));
                        }
                    }
                }
            },
            &|| ctx.elapsed() > multi_deadline,
        );
        if done < n {
            exhaustive = false;
        }
        multi_complete = done == n;
        fam_report.push(json!({"family": "multi_file_projects", "size": n, "completed": done, "complete": done == n,
            "wall_s": ((ctx.elapsed() - t0) * 10.0).round() / 10.0}));
    }
    let multi_parsed = acc.lock().unwrap().parsed - baseline_parsed_abs;
    let baseline_parsed = baseline_parsed_abs;

    let single_deadline = if thorough { t_setup + (budget - t_setup) * 0.75 } else { budget };
    {
        let (src, idx) = (sources.clone(), index.clone());
        let n = idx.len();
        let t0 = ctx.elapsed();
        let done = run_all(
            &dir,
            &cfg(20.0, 48),
            n,
            &|i| {
                let (si, e) = &idx[i];
                let s = &src[*si as usize];
                apply(&s.text, &s.toks, &[e])
            },
            &|i, input, r| {
                let (si, e) = &idx[i];
                let s = &src[*si as usize];
                acc.lock().unwrap().judge(&s.name, e.class(), &e.describe(&s.text, &s.toks), input, r);
            },
            &|| ctx.elapsed() > single_deadline,
        );
        if done < n {
            exhaustive = false;
        }
        // batches are scheduled in index order: files fully covered = those whose whole index range was scheduled
        fam_report.push(json!({"family": "single_edits", "size": n, "completed": done, "complete": done == n,
            "wall_s": ((ctx.elapsed() - t0) * 10.0).round() / 10.0}));
    }

    // ---- family 2 (thorough): every pair of reduced-alphabet edits on the smallest files
    if thorough {
        let mut pairs: Vec<(u32, Edit, Edit)> = vec![];
        let mut files_paired = 0usize;
        for (si, s) in sources.iter().enumerate() {
            if s.toks.len() < 6 {
                continue;
            }
            let es = single_edits(&s.text, &s.toks, true);
            let mut n_here = 0usize;
            for a in 0..es.len() {
                for b in a + 1..es.len() {
                    if es[a].last_tok() < es[b].first_tok() {
                        n_here += 1;
                    }
                }
            }
            if pairs.len() + n_here > 400_000 {
                break;
            }
            for a in 0..es.len() {
                for b in a + 1..es.len() {
                    if es[a].last_tok() < es[b].first_tok() {
                        pairs.push((si as u32, es[a].clone(), es[b].clone()));
                    }
                }
            }
            files_paired += 1;
            if files_paired >= 20 {
                break;
            }
        }
        let pairs = Arc::new(pairs);
        let (src, idx) = (sources.clone(), pairs.clone());
        let n = idx.len();
        let t0 = ctx.elapsed();
        let done = run_all(
            &dir,
            &cfg(20.0, 48),
            n,
            &|i| {
                let (si, a, b) = &idx[i];
                let s = &src[*si as usize];
                apply(&s.text, &s.toks, &[a, b])
            },
            &|i, input, r| {
                let (si, a, b) = &idx[i];
                let s = &src[*si as usize];
                let d = format!("{}; {}", a.describe(&s.text, &s.toks), b.describe(&s.text, &s.toks));
                acc.lock().unwrap().judge(&s.name, "two_edits", &d, input, r);
            },
            &|| ctx.elapsed() > budget,
        );
        if done < n {
            exhaustive = false;
        }
        fam_report.push(json!({"family": "edit_pairs_reduced_alphabet", "size": n, "files": files_paired, "completed": done,
            "complete": done == n, "wall_s": ((ctx.elapsed() - t0) * 10.0).round() / 10.0}));
    }

    let mut a = acc.into_inner().unwrap();

    // ---- stack overflows: frame sizes depend on the optimisation level, so an overflow of the
    // opt-level 1 build proves nothing about the release binary — unless it is *unbounded*
    // recursion: re-run the smallest candidates on a 16x larger stack (128 MiB). Still
    // overflowing => no build can survive (frames would have to shrink 16x) => violation.
    // Otherwise it is an observation that needs a release-profile confirmation.
    let mut overflow_obs: Vec<Value> = vec![];
    {
        let mut cands = std::mem::take(&mut a.overflow_candidates);
        cands.sort_by_key(|(c, _)| c["input"].as_str().map(|s| s.len()).unwrap_or(0));
        let n_cands = cands.len();
        let mut seen_files: BTreeSet<String> = BTreeSet::new();
        for (case, stderr) in cands {
            let file = case["file"].as_str().unwrap_or("").to_string();
            if !seen_files.insert(file) || seen_files.len() > 3 {
                continue;
            }
            let input = case["input"].as_str().unwrap_or("").to_string();
            let kind = if case["edit_class"] == "multi_file" { "multi" } else { "full" };
            let big = Cfg { kind, cap_s: 300.0, stack: CLI_STACK * 16, batch: 1, fresh_thread: true,
                opts: json!({"render": false, "emit_options": [0]}), mem_limit: 0 };
            let r = run_batch(&dir, &big, &[input.as_str()]);
            let still = matches!(&r[0], Res::Died { stack_overflow: true, .. });
            if still {
                a.finding(
                    "C11:stack_overflow:unbounded_recursion".to_string(),
                    "stack overflow that persists on a 128 MiB stack (16x the CLI's): unbounded recursion, independent of the optimisation level".to_string(),
                    case,
                    json!({"stderr_8MiB": stderr, "stack_128MiB": "overflows too", "overflowing_variants": n_cands}),
                );
            } else {
                overflow_obs.push(json!({"file": case["file"], "edit": case["edit"], "input_hash": hash_hex(input.as_bytes()),
                    "harness_build_8MiB": clip(&stderr, 160), "stack_128MiB": format!("{:?}", r[0]).chars().take(200).collect::<String>()}));
            }
        }
    }

    // ---- findings: minimise, reproduce with the real CLI, report
    let one = Cfg { kind: "full", cap_s: 60.0, stack: CLI_STACK, batch: 1, fresh_thread: true, opts: json!({"render": true, "emit_options": [0, 1, 2, 3, 4, 5]}), mem_limit: 6 << 30 };
    let findings = std::mem::take(&mut a.findings);
    let fl: Vec<(String, (u64, Value, Value, String))> = findings.into_iter().collect();
    // known findings need no fresh minimisation / CLI reproduction (keeps the quick tier short)
    let known: BTreeSet<String> = load_known_findings()
        .into_iter()
        .filter(|k| k.property == ctx.id && k.status != "fixed")
        .map(|k| k.signature)
        .collect();
    let processed: Vec<Violation> = par_map(&fl, |(sig, (count, case, observed, what))| {
        if known.contains(sig) {
            let mut observed = observed.clone();
            observed["cases_with_this_signature"] = json!(count);
            return Violation {
                signature: sig.clone(),
                what: what.clone(),
                case: case.clone(),
                expected: json!("every stage returns; problems are reported as diagnostics"),
                observed,
            };
        }
        let input = case["input"].as_str().unwrap_or("").to_string();
        let sub = dir.join(format!("min-{}", hash_hex(sig.as_bytes())));
        let _ = std::fs::create_dir_all(&sub);
        let is_multi = case["edit_class"] == "multi_file";
        let minimal = if sig.starts_with("C11:panic:") && !is_multi {
            minimize(&sub, &one, sig, &input, 150)
        } else if sig.starts_with("C11:stack_overflow") && !is_multi {
            minimize_overflow(&sub, &one, &input, 60)
        } else {
            input.clone()
        };
        let files: Vec<(String, String)> = if is_multi {
            serde_json::from_str(&input).unwrap_or_default()
        } else {
            vec![("a.veryl".to_string(), minimal.clone())]
        };
        let options = case["options"].as_u64().unwrap_or(0) as usize;
        let cli = cli_reproduce(&sub.join("cli"), &files, options);
        let _ = std::fs::remove_dir_all(&sub);
        let mut case = case.clone();
        case["minimized_input"] = json!(minimal);
        let mut observed = observed.clone();
        observed["cases_with_this_signature"] = json!(count);
        observed["real_veryl_cli_on_minimized_input"] = cli;
        Violation {
            signature: sig.clone(),
            what: what.clone(),
            case,
            expected: json!("every stage returns; problems are reported as diagnostics"),
            observed,
        }
    });

    rep.set(
        "findings_summary",
        json!(processed
            .iter()
            .map(|v| json!({"signature": v.signature, "file": v.case["file"], "edit": v.case["edit"], "options": v.case["options_name"],
                "cases": v.observed["cases_with_this_signature"]}))
            .collect::<Vec<_>>()),
    );
    rep.set("evaluations", a.evaluations);
    rep.set("variants_parsed", a.parsed);
    rep.set("variants_rejected_by_parser", a.rejected_by_parser);
    rep.set("unchanged_files", sources.len() as u64);
    rep.set("unchanged_files_parsed", baseline_parsed);
    rep.set("analysis_clean", a.analysis_clean);
    rep.set("analysis_with_warnings_only", a.analysis_with_warnings_only);
    rep.set("analysis_with_errors", a.analysis_with_errors);
    rep.set("emitted_accepted_designs", a.emitted);
    rep.set("emitted_rejected_designs_observation_only", a.emitted_rejected);
    rep.set("formatted", a.formatted);
    rep.set("exceed_limit_diagnostics", a.exceed_limit);
    rep.set("distinct_diagnostic_kinds", a.kinds.len() as u64);
    rep.set("diagnostic_kinds", json!(a.kinds));
    rep.set("distinct_nontrivial", a.outcome_classes.len() as u64);
    rep.set("by_edit_class_evaluated_parsed", json!(a.by_edit_class));
    rep.set("files_touched", a.per_file.len() as u64);
    rep.set("families", json!(fam_report));
    {
        let g = multi_invalid.lock().unwrap();
        rep.set("multi_file_cases", multi.len() as u64);
        rep.set("multi_file_cases_analysed", multi_parsed);
        rep.set("multi_file_cases_rejected_by_veryl_generator_skips", g.0);
        rep.set("multi_file_rejection_kinds", json!(g.1));
        rep.set("multi_file_rejection_samples", json!(g.2));
    }
    rep.set("emit_on_rejected_design_panics_observation", json!(a.observations));
    rep.set("timeouts_observation", json!(a.timeouts));
    rep.set("stack_overflow_only_on_8MiB_in_harness_build_observation", json!(overflow_obs));
    rep.set("option_sets_on_unchanged_files", json!(OPTION_SETS));
    rep.set("option_sets_on_variants", json!([OPTION_SETS[0], OPTION_SETS[3]]));
    rep.set("exhaustive", exhaustive);
    rep.set("budget_s", budget - t_setup);
    rep.set("setup_s", (t_setup * 10.0).round() / 10.0);
    rep.set(
        "rule",
        "a variant is non-trivial if the parser accepts it; distinct_nontrivial counts distinct sets of diagnostic kinds produced by accepted variants",
    );
    let mut k = 0;
    for (c, (n, p)) in &a.by_edit_class {
        if k < 8 {
            rep.sample(json!({"edit_class": c, "evaluated": n, "parsed": p}));
            k += 1;
        }
    }
    rep.assume("each variant is analysed alone (project `prj`, exclude_std, default build/lint options); cross-file references are unresolved diagnostics");
    rep.assume("all four analyzer passes run whatever the earlier diagnostics (language-server path); emission counts only for designs without error-severity diagnostics (veryl build path)");
    rep.assume("wall-cap timeouts are observations, never verdicts");
    for m in a.machinery.iter().take(20) {
        rep.machinery(m.clone());
    }
    if multi_complete && multi_parsed < 100 {
        rep.machinery(format!("vacuity guard: only {multi_parsed} multi-file projects were analysed"));
    }
    if unchanged_complete && (baseline_parsed < sources.len() as u64 - 2 || a.parsed < 200 || a.kinds.len() < 10 || a.emitted < 20) {
        rep.machinery(format!(
            "vacuity guard: unchanged files parsed {}/{}; variants parsed {}; diagnostic kinds {}; emitted {}",
            baseline_parsed, sources.len(), a.parsed, a.kinds.len(), a.emitted
        ));
    }
    for v in processed {
        rep.violation(v);
    }
    rep
}

pub fn replay(doc: &Value) -> i32 {
    let input = doc["case"]["minimized_input"].as_str().or(doc["case"]["input"].as_str());
    let Some(input) = input else {
        eprintln!("no input in replay file");
        return 2;
    };
    let ctx = Ctx::new("C11-replay", Tier::Quick);
    let dir = ctx.dir("w");
    let mut c = cfg(120.0, 1);
    if doc["case"]["edit_class"] == "multi_file" {
        c.kind = "multi";
    }
    let r = run_batch(&dir, &c, &[input]);
    println!("{}", serde_json::to_string_pretty(&match &r[0] { Res::Done(v) => v.clone(), x => json!(format!("{x:?}")) }).unwrap());
    let mut a = Acc::default();
    a.judge("replay", "replay", "replay", input, &r[0]);
    if a.findings.is_empty() {
        println!("no crash");
        0
    } else {
        for (s, f) in &a.findings {
            println!("still failing: {s}: {}", f.3);
        }
        1
    }
}

//! C32 — test results do not depend on scheduling; `$tb::random` is reproducible and in bounds.
//!
//! Part A (schedules, model checking).  A native-test project (shared DUT, `$tb::random` handles,
//! `$display`, one deliberately failing `$assert`, one test with a different handle name and a
//! `$comp` instance that prints its per-instance seed) is run by the real `veryl test` binary
//! under *every* configuration of
//!   seed x worker count x dispatch order x pop schedule
//! where the dispatch order is imposed by writing `.build/test_timings` (cmd_test sorts the
//! pending tests slowest-first from that file) and the pop schedule + worker count are imposed by
//! the `#[cfg(veryl_verif)]` hook in cmd_test.rs (`VERYL_VERIF_WORKERS`,
//! `VERYL_VERIF_POP_SCHEDULE`).  The hook logs every pop (`verif:pop i= worker= test=`); the
//! harness validates that log against the configuration it asked for, so a configuration only
//! counts as a state when the implementation really executed it.  Oracle: per test, status /
//! message / captured output of the `--format json` report equal the 1-worker run without any
//! recorded timings for the same seed and backend.
//!
//! Part B (RNG, exhaustive small domains).  `veryl_simulator::random_table` (the functions the
//! testbench statements call) is driven directly: get / get_range for widths 1..=4 (thorough:
//! ..=6) x signedness x all (min,max) payload pairs x first 64 draws x 3 seeds x 2 handle names,
//! boundary widths {31,32,33,63,64} with extreme bounds.  Every draw must lie in the interval
//! computed by an independent interpretation of the bounds; the whole enumeration is repeated on
//! a second thread and must give identical streams; explicit re-seeding and interleaving with
//! another handle must not change a handle's stream.  The same is then observed through the CLI
//! (generated testbenches that `$display` their draws), which adds the analyzer/testbench glue
//! between the source text and `get_range`.

use crate::core::*;
use crate::proj::{CANON, RunOut, Sandbox};
use serde_json::{Value, json};
use std::collections::{BTreeMap, BTreeSet};
use std::path::PathBuf;
use std::sync::Mutex;

// ======================================================================= project under test

const VERYL_TOML: &str = r#"[project]
name    = "c32"
version = "0.1.0"

[build]
clock_type = "posedge"
reset_type = "async_low"
sources    = ["src"]

[test]
"#;

const COMPONENTS_TOML: &str = r#"
[[components]]
path = "comp"
"#;

const COMP_CARGO_TOML: &str = r#"[package]
name = "vmc-c32-comp"
version = "0.0.0"
edition = "2021"

[lib]
crate-type = ["cdylib"]
"#;

const DUT: &str = r#"module C32Dut (
    clk: input  clock    ,
    rst: input  reset    ,
    d  : input  logic<16>,
    acc: output logic<16>,
) {
    always_ff {
        if_reset {
            acc = 0;
        } else {
            acc = {acc[14:0], acc[15]} ^ d;
        }
    }
}
"#;

/// Clock cycles between two `$display` lines: makes a test body last several milliseconds so
/// that bodies popped back-to-back by different workers really overlap.
const PAD: u32 = 20_001;

/// The four tests.  `c32_ta` and `c32_tc` deliberately use the same handle name and element type
/// (same stream for the same seed wherever they run); `c32_tb` reuses the handle name with another
/// element type; `c32_td` uses another handle name and (if enabled) a `$comp` instance.
fn test_text(idx: usize, with_comp: bool) -> String {
    match idx {
        0 => {
            let (decl, body) = if with_comp {
                (
                    "    var p  : $comp::seed_probe;\n    var ps : u64;\n",
                    "        ps = p.seed();\n        $display(\"ta comp seed=%h\", ps);\n        ps = p.next();\n        $display(\"ta comp next=%h\", ps);\n",
                )
            } else {
                ("", "")
            };
            format!(
            r#"#[test(c32_ta)]
module c32_ta {{
    inst clk: $tb::clock_gen;
    inst rst: $tb::reset_gen ( clk );
    var r  : $tb::random::<u16>;
    var d  : logic<16>;
    var acc: logic<16>;
    var x  : u16;
{decl}    inst dut: C32Dut ( clk, rst, d, acc );
    initial {{
        d = 0;
        rst.assert();
{body}        for i in 0..6 {{
            d = r.get();
            clk.next({PAD});
            $display("ta %d d=%h acc=%h", i, d, acc);
        }}
        for i in 0..4 {{
            x = r.get_range(100, 200);
            $display("ta range %d %d", i, x);
            $assert(x >= 100 && x <= 200, "ta range");
        }}
        $finish();
    }}
}}
"#
        )},
        1 => format!(
            r#"#[test(c32_tb)]
module c32_tb {{
    inst clk: $tb::clock_gen;
    inst rst: $tb::reset_gen ( clk );
    var r  : $tb::random::<i8>;
    var s  : i8;
    var d  : logic<16>;
    var acc: logic<16>;
    inst dut: C32Dut ( clk, rst, d, acc );
    initial {{
        d = 0;
        rst.assert();
        for i in 0..6 {{
            s = r.get_range(-100, 100);
            d = {{8'h5a, s}};
            clk.next({PAD});
            $display("tb %d s=%d d=%h acc=%h", i, s, d, acc);
            $assert(s >= -100 && s <= 100, "tb range");
        }}
        $finish();
    }}
}}
"#
        ),
        2 => format!(
            r#"#[test(c32_tc)]
module c32_tc {{
    inst clk: $tb::clock_gen;
    inst rst: $tb::reset_gen ( clk );
    var r  : $tb::random::<u16>;
    var d  : logic<16>;
    var acc: logic<16>;
    inst dut: C32Dut ( clk, rst, d, acc );
    initial {{
        d = 0;
        rst.assert();
        for i in 0..4 {{
            d = r.get();
            clk.next({PAD});
            $display("tc %d d=%h acc=%h", i, d, acc);
        }}
        $assert(acc == 16'hffff && acc == 16'h0000, "c32 deliberate failure");
        $display("tc unreachable acc=%h", acc);
        $finish();
    }}
}}
"#
        ),
        3 => {
            let (decl, body) = if with_comp {
                (
                    "    var p  : $comp::seed_probe;\n    var ps : u64;\n    var pn : u64;\n",
                    "        ps = p.seed();\n        $display(\"td comp seed=%h\", ps);\n        for i in 0..3 {\n            pn = p.next();\n            $display(\"td comp %d next=%h\", i, pn);\n        }\n",
                )
            } else {
                ("", "")
            };
            format!(
                r#"#[test(c32_td)]
module c32_td {{
    inst clk: $tb::clock_gen;
    inst rst: $tb::reset_gen ( clk );
    var other_gen: $tb::random::<u64>;
    var w  : u64;
    var sd : u64;
    var d  : logic<16>;
    var acc: logic<16>;
{decl}    inst dut: C32Dut ( clk, rst, d, acc );
    initial {{
        d = 0;
        rst.assert();
{body}        for i in 0..5 {{
            w = other_gen.get();
            d = w[15:0];
            clk.next({PAD});
            sd = other_gen.get_seed();
            $display("td %d w=%h acc=%h seed=%h", i, w, acc, sd);
        }}
        $finish();
    }}
}}
"#
            )
        }
        _ => unreachable!(),
    }
}

const TEST_NAMES: [&str; 4] = ["c32_ta", "c32_tb", "c32_tc", "c32_td"];
const FAILING_TEST: &str = "c32_tc";
/// Every `$display` line of a test starts with this tag (used by the text-mode observation).
const TEST_TAGS: [&str; 4] = ["ta ", "tb ", "tc ", "td "];

#[derive(Clone, Debug)]
struct ProjSpec {
    /// indices into TEST_NAMES of the tests present, ascending
    tests: Vec<usize>,
    with_comp: bool,
}

impl ProjSpec {
    fn names(&self) -> Vec<&'static str> {
        self.tests.iter().map(|i| TEST_NAMES[*i]).collect()
    }
    fn to_json(&self) -> Value {
        json!({"tests": self.names(), "with_component": self.with_comp})
    }
}

fn comp_library() -> PathBuf {
    bin_dir().join("libvmc_c32_comp.so")
}

/// Writes the project into a sandbox (old, fixed mtimes: nothing here is about staleness).
fn write_project(sb: &Sandbox, spec: &ProjSpec) {
    let mut toml = VERYL_TOML.to_string();
    if spec.with_comp {
        toml.push_str(COMPONENTS_TOML);
        sb.write_old("comp/Cargo.toml", COMP_CARGO_TOML);
        sb.write_old("comp/src/lib.rs", "// built by the harness workspace (crates/c32-comp)\n");
        // `veryl test` shells out to `cargo build --release --message-format=json` for every
        // `[[components]]` package and reads the cdylib path from cargo's JSON.  The component is
        // compiled once with the harness (crates/c32-comp); this stand-in for the *external tool*
        // answers with that artifact, so no veryl code is bypassed (dlopen, manifest, instance
        // seeds are the real thing) and a CLI run does not cost a cargo invocation.
        let shim = format!(
            "#!/bin/sh\ncase \"$1\" in\n  --version) echo 'cargo 0.0.0 (vmc C32 stand-in)'; exit 0;;\n  build) printf '%s\\n' '{{\"reason\":\"compiler-artifact\",\"manifest_path\":\"{CANON}/p/comp/Cargo.toml\",\"target\":{{\"kind\":[\"cdylib\"]}},\"filenames\":[\"{}\"]}}'; exit 0;;\nesac\nexit 1\n",
            comp_library().display()
        );
        // cargo would have created its target directory; veryl writes the manifest sidecar there
        std::fs::create_dir_all(sb.proj().join("target/veryl-components/release")).unwrap();
        let bin = sb.root.join("bin");
        std::fs::create_dir_all(&bin).unwrap();
        let p = bin.join("cargo");
        std::fs::write(&p, shim).unwrap();
        use std::os::unix::fs::PermissionsExt;
        std::fs::set_permissions(&p, std::fs::Permissions::from_mode(0o755)).unwrap();
    }
    sb.write_old("Veryl.toml", &toml);
    sb.write_old("src/dut.veryl", DUT);
    let mut t = String::new();
    for i in &spec.tests {
        t.push_str(&test_text(*i, spec.with_comp));
        t.push('\n');
    }
    sb.write_old("src/tests.veryl", &t);
}

/// Environment of every `veryl` child: PATH (with the cargo stand-in first) and the allocator's
/// purge switched off (mimalloc otherwise spends most of a short run in madvise on a loaded
/// machine; no effect on what the program computes).
fn child_env(path: &str) -> Vec<(&str, &str)> {
    vec![("PATH", path), ("MIMALLOC_PURGE_DELAY", "-1")]
}

fn child_path() -> String {
    format!("{CANON}/bin:/usr/local/bin:/usr/bin:/bin")
}

// ======================================================================= configurations

#[derive(Clone, Copy, Debug, PartialEq, Eq, PartialOrd, Ord)]
enum Mode {
    Json,
    Text,
}

/// What is written to `.build/test_timings` before the run.
#[derive(Clone, Debug, PartialEq, Eq, PartialOrd, Ord)]
enum Timings {
    /// no file: first-run behaviour
    Absent,
    /// distinct timings inducing exactly this dispatch order (positions into ProjSpec.tests)
    Order(Vec<usize>),
    /// every test has the same recorded time (order is whatever the implementation does)
    Ties,
    /// only the tests at these positions have a record (the others must be dispatched first)
    Partial(Vec<usize>),
    /// garbage lines (must be ignored)
    Corrupt,
}

#[derive(Clone, Debug)]
struct Cfg {
    seed: u64,
    backend: &'static str,
    mode: Mode,
    /// None = hook inert (the binary's own thread count and free-running pops)
    workers: Option<usize>,
    /// the i-th pop is taken by worker pops[i]
    pops: Option<Vec<usize>>,
    timings: Timings,
}

impl Cfg {
    fn to_json(&self, spec: &ProjSpec) -> Value {
        json!({
            "project": spec.to_json(),
            "seed": self.seed.to_string(),
            "backend": self.backend,
            "mode": format!("{:?}", self.mode),
            "workers": self.workers,
            "pop_schedule": self.pops,
            "timings": format!("{:?}", self.timings),
            "timings_file": timings_file(&self.timings, spec),
        })
    }
}

fn timings_file(t: &Timings, spec: &ProjSpec) -> Option<String> {
    let names = spec.names();
    match t {
        Timings::Absent => None,
        Timings::Order(o) => {
            // slowest first: position k of the order gets the k-th largest time
            let mut lines: Vec<String> = o
                .iter()
                .enumerate()
                .map(|(k, pos)| format!("{} {:.6}", names[*pos], (o.len() - k) as f64 * 0.5))
                .collect();
            lines.sort();
            Some(lines.join("\n"))
        }
        Timings::Ties => Some(names.iter().map(|n| format!("{n} 0.250000")).collect::<Vec<_>>().join("\n")),
        Timings::Partial(ps) => Some(
            ps.iter()
                .enumerate()
                .map(|(k, pos)| format!("{} {:.6}", names[*pos], (ps.len() - k) as f64 * 0.5))
                .collect::<Vec<_>>()
                .join("\n"),
        ),
        Timings::Corrupt => Some(format!("{} not-a-number\n\n{} 1.0 extra\n\u{1}\u{2}", names[0], names[names.len() - 1])),
    }
}

/// The dispatch order the recorded timings *must* induce according to the documented rule
/// (no record: first, by name; then slowest first).  None where the rule leaves it open (ties).
fn expected_order(t: &Timings, spec: &ProjSpec) -> Option<Vec<usize>> {
    let n = spec.tests.len();
    match t {
        Timings::Absent | Timings::Corrupt => Some((0..n).collect()), // names ascend with position
        Timings::Order(o) => Some(o.clone()),
        Timings::Ties => None,
        Timings::Partial(ps) => {
            let mut v: Vec<usize> = (0..n).filter(|p| !ps.contains(p)).collect();
            v.extend(ps.iter().copied());
            Some(v)
        }
    }
}

fn permutations(n: usize) -> Vec<Vec<usize>> {
    fn rec(cur: &mut Vec<usize>, used: &mut Vec<bool>, n: usize, out: &mut Vec<Vec<usize>>) {
        if cur.len() == n {
            out.push(cur.clone());
            return;
        }
        for i in 0..n {
            if !used[i] {
                used[i] = true;
                cur.push(i);
                rec(cur, used, n, out);
                cur.pop();
                used[i] = false;
            }
        }
    }
    let mut out = vec![];
    rec(&mut vec![], &mut vec![false; n], n, &mut out);
    out
}

/// All w^n assignments "the i-th pop is taken by worker s[i]".
fn pop_schedules(w: usize, n: usize) -> Vec<Vec<usize>> {
    let mut out = vec![];
    let total = w.pow(n as u32);
    for mut k in 0..total {
        let mut s = vec![0; n];
        for slot in s.iter_mut() {
            *slot = k % w;
            k /= w;
        }
        out.push(s);
    }
    out
}

// ======================================================================= observation

#[derive(Clone, Debug, PartialEq, Eq, PartialOrd, Ord)]
struct TestObs {
    status: String,
    message: Option<String>,
    output: String,
}

#[derive(Clone, Debug, Default)]
struct Obs {
    tests: BTreeMap<String, TestObs>,
    duplicates: Vec<String>,
    passed: i64,
    failed: i64,
    exit: i32,
    /// (i, worker, test or "-")
    pops: Vec<(usize, usize, String)>,
    /// text mode only: a test's lines were not contiguous on stdout
    interleaved: Vec<String>,
    stray_stdout: Vec<String>,
}

impl Obs {
    fn canonical(&self) -> Value {
        json!({
            "tests": self.tests.iter().map(|(k, v)| json!({"name": k, "status": v.status, "message": v.message, "output": v.output})).collect::<Vec<_>>(),
            "passed": self.passed,
            "failed": self.failed,
            "exit": self.exit,
        })
    }
    fn digest(&self) -> String {
        hash_hex(self.canonical().to_string().as_bytes())
    }
}

fn parse_pops(stderr: &str) -> Vec<(usize, usize, String)> {
    let mut v = vec![];
    for l in stderr.lines() {
        if let Some(rest) = l.trim().strip_prefix("verif:pop ") {
            let mut i = None;
            let mut w = None;
            let mut t = None;
            for kv in rest.split_whitespace() {
                if let Some(x) = kv.strip_prefix("i=") {
                    i = x.parse().ok();
                } else if let Some(x) = kv.strip_prefix("worker=") {
                    w = x.parse().ok();
                } else if let Some(x) = kv.strip_prefix("test=") {
                    t = Some(x.to_string());
                }
            }
            if let (Some(i), Some(w), Some(t)) = (i, w, t) {
                v.push((i, w, t));
            }
        }
    }
    v
}

fn observe_json(out: &RunOut) -> Result<Obs, String> {
    let start = out.stdout.find('{').ok_or_else(|| "no JSON object on stdout".to_string())?;
    let doc: Value = serde_json::from_str(&out.stdout[start..]).map_err(|e| format!("stdout is not a JSON report: {e}"))?;
    let mut o = Obs { exit: out.code, pops: parse_pops(&out.stderr), ..Default::default() };
    if !out.stdout[..start].trim().is_empty() {
        o.stray_stdout.push(out.stdout[..start].trim().to_string());
    }
    o.passed = doc["passed"].as_i64().unwrap_or(-1);
    o.failed = doc["failed"].as_i64().unwrap_or(-1);
    for t in doc["tests"].as_array().cloned().unwrap_or_default() {
        let name = t["name"].as_str().unwrap_or("").to_string();
        let obs = TestObs {
            status: t["status"].as_str().unwrap_or("").to_string(),
            message: t["message"].as_str().map(|x| x.to_string()),
            output: t["output"].as_str().unwrap_or("").to_string(),
        };
        if o.tests.insert(name.clone(), obs).is_some() {
            o.duplicates.push(name);
        }
    }
    Ok(o)
}

/// Text report: verdicts from the log lines on stderr, output from stdout.  stdout carries no
/// attribution, so every `$display` line of the project starts with its test's tag.
fn observe_text(out: &RunOut, spec: &ProjSpec) -> Result<Obs, String> {
    let mut o = Obs { exit: out.code, pops: parse_pops(&out.stderr), ..Default::default() };
    let names = spec.names();
    let mut outputs: BTreeMap<&str, String> = BTreeMap::new();
    let mut last: Option<&str> = None;
    let mut closed: BTreeSet<&str> = BTreeSet::new();
    for line in out.stdout.lines() {
        let owner = spec.tests.iter().find(|i| line.starts_with(TEST_TAGS[**i])).map(|i| TEST_NAMES[*i]);
        match owner {
            Some(n) => {
                if last != Some(n) {
                    if let Some(prev) = last {
                        closed.insert(prev);
                    }
                    if closed.contains(n) && !o.interleaved.iter().any(|x| x == n) {
                        o.interleaved.push(n.to_string());
                    }
                    last = Some(n);
                }
                let e = outputs.entry(n).or_default();
                e.push_str(line);
                e.push('\n');
            }
            None => o.stray_stdout.push(line.to_string()),
        }
    }
    for l in out.stderr.lines() {
        let grab = |marker: &str| -> Option<(String, Option<String>)> {
            let p = l.find(marker)?;
            let rest = &l[p + marker.len()..];
            let end = rest.find(')')?;
            let name = rest[..end].to_string();
            let msg = rest[end + 1..].strip_prefix(": ").map(|x| x.to_string());
            Some((name, msg))
        };
        let (name, status, msg) = if let Some((n, _)) = grab("Succeeded test (") {
            (n, "pass", None)
        } else if let Some((n, m)) = grab("Failed test (") {
            (n, if m.is_some() { "fail" } else { "error" }, m)
        } else if let Some((n, _)) = grab("Failed to elaborate test (") {
            (n, "error", None)
        } else {
            continue;
        };
        let output = outputs.get(name.as_str()).cloned().unwrap_or_default();
        match status {
            "pass" => o.passed += 1,
            _ => o.failed += 1,
        }
        if o.tests.insert(name.clone(), TestObs { status: status.to_string(), message: msg, output }).is_some() {
            o.duplicates.push(name);
        }
    }
    if o.tests.is_empty() {
        return Err(format!("no verdict lines on stderr (tests expected: {names:?})"));
    }
    Ok(o)
}

// ======================================================================= running

struct Pool {
    root: PathBuf,
    /// a prepared (project written, caches warm) sandbox every worker sandbox is copied from
    template: PathBuf,
    boxes: Vec<Mutex<Option<Sandbox>>>,
}

/// Copies a sandbox (project incl. `.build`, home, cache, bin) keeping mtimes and permissions.
/// Legitimate because every run sees its sandbox at the same canonical path.
fn clone_sandbox(template: &std::path::Path, dst: &std::path::Path) -> Sandbox {
    let sb = Sandbox::new(dst);
    let st = std::process::Command::new("cp")
        .arg("-a")
        .arg(format!("{}/.", template.display()))
        .arg(format!("{}/", dst.display()))
        .status();
    assert!(matches!(st, Ok(s) if s.success()), "cp -a {} {} failed", template.display(), dst.display());
    sb
}

impl Pool {
    fn new(root: PathBuf, template: PathBuf) -> Pool {
        let n = rayon::current_num_threads() + 1;
        Pool { root, template, boxes: (0..n).map(|_| Mutex::new(None)).collect() }
    }
    fn with<R>(&self, f: impl FnOnce(&Sandbox) -> R) -> R {
        let i = rayon::current_thread_index().unwrap_or(self.boxes.len() - 1).min(self.boxes.len() - 1);
        let mut g = self.boxes[i].lock().unwrap();
        if g.is_none() {
            *g = Some(clone_sandbox(&self.template, &self.root.join(format!("s{i}"))));
        }
        f(g.as_ref().unwrap())
    }
}

fn run_cfg(sb: &Sandbox, spec: &ProjSpec, cfg: &Cfg) -> (RunOut, Result<Obs, String>) {
    let tpath = sb.proj().join(".build").join("test_timings");
    match timings_file(&cfg.timings, spec) {
        Some(text) => {
            let _ = std::fs::create_dir_all(tpath.parent().unwrap());
            std::fs::write(&tpath, text).unwrap();
        }
        None => {
            let _ = std::fs::remove_file(&tpath);
        }
    }
    let seed = cfg.seed.to_string();
    let mut args: Vec<&str> = vec!["test", "--seed", &seed, "--backend", cfg.backend];
    if cfg.mode == Mode::Json {
        args.extend(["--format", "json"]);
    }
    let path = child_path();
    let workers = cfg.workers.map(|w| w.to_string());
    let pops = cfg.pops.as_ref().map(|p| p.iter().map(|x| x.to_string()).collect::<Vec<_>>().join(","));
    let mut env: Vec<(&str, &str)> = child_env(&path);
    if let Some(w) = &workers {
        env.push(("VERYL_VERIF_WORKERS", w));
    }
    if let Some(p) = &pops {
        env.push(("VERYL_VERIF_POP_SCHEDULE", p));
    }
    let mut out = sb.veryl_env(&args, &env);
    if out.timed_out {
        // A stalled machine (seen under heavy load: several unrelated runs frozen at once, at
        // different phases) is not an observation; one more attempt, same configuration. A real
        // hang under this schedule times out again and is reported (never silently dropped).
        if let Some(text) = timings_file(&cfg.timings, spec) {
            std::fs::write(&tpath, text).unwrap();
        } else {
            let _ = std::fs::remove_file(&tpath);
        }
        out = sb.veryl_env(&args, &env);
    }
    let obs = if out.timed_out {
        Err("timed out twice (120 s each)".to_string())
    } else if out.panicked() {
        Err(format!("veryl crashed: code {} signal {:?}", out.code, out.signal))
    } else {
        match cfg.mode {
            Mode::Json => observe_json(&out),
            Mode::Text => observe_text(&out, spec),
        }
    };
    (out, obs)
}

fn tail(s: &str, n: usize) -> String {
    let lines: Vec<&str> = s.lines().filter(|l| !l.contains("Processing file")).collect();
    let from = lines.len().saturating_sub(n);
    lines[from..].join("\n")
}

/// Result of one configuration.
struct Outcome {
    cfg: Cfg,
    /// harness-side problem (hook not effective, unreadable report…): never a verdict
    machinery: Option<String>,
    /// (signature class, test, expected, observed)
    diffs: Vec<(String, String, Value, Value)>,
    digest: Option<String>,
    executions: u64,
    workers_used: usize,
    dispatch: Vec<String>,
}

fn check_cfg(sb: &Sandbox, spec: &ProjSpec, cfg: &Cfg, base: &Obs) -> Outcome {
    let (out, obs) = run_cfg(sb, spec, cfg);
    let mut oc = Outcome {
        cfg: cfg.clone(),
        machinery: None,
        diffs: vec![],
        digest: None,
        executions: 0,
        workers_used: 0,
        dispatch: vec![],
    };
    let obs = match obs {
        Ok(o) => o,
        Err(e) => {
            // A crash / unreadable report under some schedule *is* a scheduling dependence when
            // the baseline was fine; a timeout or a missing report without a crash is not decidable.
            if out.panicked() {
                oc.diffs.push(("sched.crash".into(), "*".into(), json!("a report"), json!({"error": e, "stderr_tail": tail(&out.stderr, 12)})));
            } else {
                oc.machinery = Some(format!("{e}; cfg={} stderr: {}", cfg.to_json(spec), tail(&out.stderr, 8)));
            }
            return oc;
        }
    };
    let names = spec.names();
    let n = names.len();
    // -- the implementation really executed the requested schedule
    let real: Vec<&(usize, usize, String)> = obs.pops.iter().filter(|p| p.2 != "-").collect();
    if cfg.workers.is_some() || cfg.pops.is_some() {
        if real.len() != n {
            oc.machinery = Some(format!("hook log shows {} test pops, expected {n}; cfg={} stderr: {}", real.len(), cfg.to_json(spec), tail(&out.stderr, 8)));
            return oc;
        }
        for (k, p) in real.iter().enumerate() {
            if p.0 != k {
                oc.machinery = Some(format!("hook log out of sequence at pop {k}: {:?}", obs.pops));
                return oc;
            }
            if let Some(s) = &cfg.pops {
                if p.1 != s[k] {
                    oc.machinery = Some(format!("pop {k} taken by worker {} instead of {}: {:?}", p.1, s[k], obs.pops));
                    return oc;
                }
            }
            if let Some(w) = cfg.workers {
                if p.1 >= w {
                    oc.machinery = Some(format!("worker index {} with {w} workers: {:?}", p.1, obs.pops));
                    return oc;
                }
            }
        }
        oc.dispatch = real.iter().map(|p| p.2.clone()).collect();
        if let Some(exp) = expected_order(&cfg.timings, spec) {
            let exp_names: Vec<String> = exp.iter().map(|p| names[*p].to_string()).collect();
            if oc.dispatch != exp_names {
                oc.machinery = Some(format!(
                    "dispatch order not the one the timings file should induce: wanted {exp_names:?}, pops {:?}, timings {:?}",
                    oc.dispatch, cfg.timings
                ));
                return oc;
            }
        }
        oc.workers_used = real.iter().map(|p| p.1).collect::<BTreeSet<_>>().len();
    }
    // -- oracle
    for name in &names {
        match (base.tests.get(*name), obs.tests.get(*name)) {
            (Some(b), Some(o)) => {
                oc.executions += 1;
                if b.status != o.status {
                    oc.diffs.push(("sched.status".into(), name.to_string(), json!(b.status), json!(o.status)));
                }
                if b.message != o.message {
                    oc.diffs.push(("sched.message".into(), name.to_string(), json!(b.message), json!(o.message)));
                }
                if b.output != o.output {
                    oc.diffs.push(("sched.output".into(), name.to_string(), json!(b.output), json!(o.output)));
                }
            }
            (Some(_), None) => oc.diffs.push(("sched.test-missing".into(), name.to_string(), json!("reported"), json!("absent from the report"))),
            _ => {}
        }
    }
    for extra in obs.tests.keys().filter(|k| !names.contains(&k.as_str())) {
        oc.diffs.push(("sched.test-extra".into(), extra.clone(), json!("absent"), json!("reported")));
    }
    for d in &obs.duplicates {
        oc.diffs.push(("sched.test-duplicated".into(), d.clone(), json!("reported once"), json!("reported more than once")));
    }
    if (base.passed, base.failed) != (obs.passed, obs.failed) {
        oc.diffs.push(("sched.summary".into(), "*".into(), json!([base.passed, base.failed]), json!([obs.passed, obs.failed])));
    }
    if base.exit != obs.exit {
        oc.diffs.push(("sched.exit-code".into(), "*".into(), json!(base.exit), json!(obs.exit)));
    }
    for t in &obs.interleaved {
        oc.diffs.push(("text.interleaved".into(), t.clone(), json!("one contiguous block per test"), json!(tail(&out.stdout, 40))));
    }
    if cfg.mode == Mode::Text && !obs.stray_stdout.is_empty() {
        oc.diffs.push(("text.stray-stdout".into(), "*".into(), json!("only the tests' output on stdout"), json!(obs.stray_stdout)));
    }
    oc.digest = Some(obs.digest());
    oc
}

// ======================================================================= Part A driver

struct PartA {
    states: BTreeSet<String>,
    transitions: u64,
    cli_runs: u64,
    digests: BTreeMap<String, BTreeSet<String>>,
    max_workers_used: usize,
    dispatch_orders_seen: BTreeSet<Vec<String>>,
}

fn baseline_cfg(seed: u64, backend: &'static str, mode: Mode) -> Cfg {
    Cfg { seed, backend, mode, workers: Some(1), pops: None, timings: Timings::Absent }
}

fn part_a(ctx: &Ctx, rep: &mut Report, budget_end: f64) {
    let thorough = ctx.thorough();
    let with_comp = std::env::var("VMC_C32_NO_COMPONENT").is_err();
    if with_comp && !comp_library().exists() {
        rep.machinery(format!(
            "{} is missing: build the harness workspace with its crates/c32-comp member (or set VMC_C32_NO_COMPONENT=1 to run without the $comp instance-seed test)",
            comp_library().display()
        ));
        return;
    }
    rep.set("component_instance_seed_covered", with_comp);
    let spec = ProjSpec { tests: if thorough { vec![0, 1, 2, 3] } else { vec![0, 2, 3] }, with_comp };
    let n = spec.tests.len();
    let seeds: Vec<u64> = if thorough { vec![0, 1, u64::MAX] } else { vec![1, u64::MAX] };
    let max_w = if thorough { 3 } else { 2 };
    rep.set("bounds_requested", json!({
        "tests": spec.names(), "seeds": seeds.iter().map(|s| s.to_string()).collect::<Vec<_>>(),
        "workers": (1..=max_w).collect::<Vec<_>>(), "dispatch_orders": permutations(n).len(),
        "pop_schedules": "all w^n for each worker count w",
    }));
    // ---- template sandbox: the only cold build; every worker sandbox is a copy of it.
    let root = ctx.dir("c32a");
    let template = Sandbox::new(&root.join("template"));
    write_project(&template, &spec);
    let mut first: BTreeMap<(u64, &'static str, Mode), (RunOut, Result<Obs, String>)> = BTreeMap::new();
    {
        let cfg = baseline_cfg(seeds[0], "cranelift", Mode::Json);
        first.insert((seeds[0], "cranelift", Mode::Json), run_cfg(&template, &spec, &cfg));
    }
    let pool = Pool::new(root.clone(), template.root.clone());

    // ---- baselines: 1 worker, no recorded timings; one per (seed, backend, mode).  The
    // template run is repeated in a copy and must agree (same seed, same everything).
    let mut keys: Vec<(u64, &'static str, Mode)> = vec![];
    for s in &seeds {
        keys.push((*s, "cranelift", Mode::Json));
        keys.push((*s, "cranelift", Mode::Text));
    }
    keys.push((seeds[0], "cc", Mode::Json));
    if thorough {
        keys.push((seeds[0], "interpret", Mode::Json));
    }
    let second = par_map(&keys, |(s, b, m)| {
        let cfg = baseline_cfg(*s, b, *m);
        pool.with(|sb| {
            let (o, r) = run_cfg(sb, &spec, &cfg);
            (cfg, o, r)
        })
    });
    let mut base_runs = vec![];
    for (cfg, o2, r2) in second {
        match first.remove(&(cfg.seed, cfg.backend, cfg.mode)) {
            Some((o1, r1)) => base_runs.push((cfg, o1, r1, r2, 2u64)),
            None => base_runs.push((cfg, o2, r2.clone(), r2, 1u64)),
        }
    }
    let mut bases: BTreeMap<(u64, &'static str, Mode), Obs> = BTreeMap::new();
    let mut cli_runs = 0u64;
    for (cfg, o1, r1, r2, runs) in base_runs {
        cli_runs += runs;
        match (r1, r2) {
            (Ok(a), Ok(b)) => {
                if a.digest() != b.digest() {
                    rep.violation(Violation {
                        signature: "C32:sched.rerun".into(),
                        what: "two identical 1-worker runs (same seed, no recorded timings) report different results".into(),
                        case: cfg.to_json(&spec),
                        expected: a.canonical(),
                        observed: b.canonical(),
                    });
                }
                bases.insert((cfg.seed, cfg.backend, cfg.mode), b);
            }
            (Err(e), _) | (_, Err(e)) => {
                rep.machinery(format!("baseline run failed ({e}); cfg={} stderr: {}", cfg.to_json(&spec), tail(&o1.stderr, 15)));
            }
        }
    }
    if !rep.machinery_errors.is_empty() {
        return;
    }
    // ---- vacuity guards on the baselines
    for ((seed, backend, mode), b) in &bases {
        let what = format!("baseline seed={seed} backend={backend} mode={mode:?}");
        if b.tests.len() != n {
            rep.machinery(format!("{what}: {} tests reported, expected {n}: {:?}", b.tests.len(), b.tests.keys().collect::<Vec<_>>()));
            continue;
        }
        for (name, t) in &b.tests {
            if t.status == "error" {
                rep.machinery(format!("{what}: test {name} did not run: {:?}", t.message));
            }
            if t.output.lines().count() < 3 {
                rep.machinery(format!("{what}: test {name} captured fewer than 3 lines of output"));
            }
            let should_fail = name == FAILING_TEST;
            if should_fail != (t.status == "fail") {
                rep.machinery(format!("{what}: test {name} has status {} (the deliberately failing test is {FAILING_TEST})", t.status));
            }
        }
        if b.exit == 0 {
            rep.machinery(format!("{what}: exit code 0 although one test fails"));
        }
    }
    // the seed matters, the handle name matters, same handle+type gives the same stream
    let j0 = &bases[&(seeds[0], "cranelift", Mode::Json)];
    let j1 = &bases[&(seeds[1], "cranelift", Mode::Json)];
    for name in spec.names() {
        if j0.tests[name].output == j1.tests[name].output {
            rep.machinery(format!("vacuity: test {name} prints the same output for seeds {} and {}", seeds[0], seeds[1]));
        }
    }
    if with_comp && !j0.tests["c32_td"].output.contains("td comp seed=") {
        rep.machinery("vacuity: c32_td did not print its component instance seed".to_string());
    }
    let draws = |out: &str, tag: &str| -> Vec<String> {
        out.lines().filter(|l| l.starts_with(tag) && l.contains(" d=")).take(4).map(|l| l.split(" d=").nth(1).unwrap_or("").to_string()).collect()
    };
    let shared_stream = draws(&j0.tests["c32_ta"].output, "ta ") == draws(&j0.tests["c32_tc"].output, "tc ");
    rep.set("same_handle_same_type_same_stream_in_two_tests", shared_stream);
    if !shared_stream {
        rep.violation(Violation {
            signature: "C32:rng.repro.handle-name".into(),
            what: "two tests declaring the same handle name and element type see different streams for the same seed".into(),
            case: json!({"project": spec.to_json(), "seed": seeds[0].to_string(), "tests": ["c32_ta", "c32_tc"], "handle": "r: $tb::random::<u16>"}),
            expected: json!(draws(&j0.tests["c32_ta"].output, "ta ")),
            observed: json!(draws(&j0.tests["c32_tc"].output, "tc ")),
        });
    }
    if !rep.machinery_errors.is_empty() {
        return;
    }
    rep.set("vacuity_guard", json!({
        "failing_test": FAILING_TEST,
        "failing_test_fails_in_every_baseline": true,
        "min_output_lines_per_test": bases.values().flat_map(|b| b.tests.values().map(|t| t.output.lines().count())).min().unwrap_or(0),
        "outputs_differ_between_seeds": true,
        "component_seed_printed": with_comp,
    }));
    rep.sample(json!({"baseline": {"seed": seeds[0].to_string(), "report": j0.canonical()}}));

    // ---- the configuration space, in chunks (one dispatch order per chunk) so that a budget
    // cap cuts between chunks and what is reported as completed is complete.
    let mut orders = permutations(n);
    if ctx.seed != 0 {
        let k = (ctx.seed as usize) % orders.len();
        orders.rotate_left(k); // VERIF_SEED only changes the shard order
    }
    let mut chunks: Vec<(String, Vec<Cfg>)> = vec![];
    for order in &orders {
        for seed in &seeds {
            let mut v = vec![];
            for w in 1..=max_w {
                for pops in pop_schedules(w, n) {
                    v.push(Cfg { seed: *seed, backend: "cranelift", mode: Mode::Json, workers: Some(w), pops: Some(pops), timings: Timings::Order(order.clone()) });
                }
            }
            chunks.push((format!("order {order:?} seed {seed}"), v));
        }
    }
    // visit the (order, seed) chunks alternately from both ends, so that a budget cap leaves a
    // spread of dispatch orders and seeds rather than the lexicographically first ones
    {
        let mut spread = vec![];
        let mut dq: std::collections::VecDeque<_> = chunks.drain(..).collect();
        let mut front = true;
        while let Some(c) = if front { dq.pop_front() } else { dq.pop_back() } {
            spread.push(c);
            front = !front;
        }
        chunks = spread;
    }
    // other timing-file shapes (ties / partial / absent / corrupt), every pop schedule
    {
        let mut v = vec![];
        let shapes = vec![Timings::Absent, Timings::Ties, Timings::Corrupt, Timings::Partial(vec![n - 1]), Timings::Partial(vec![0, n - 1])];
        for t in shapes {
            for w in 1..=max_w {
                for pops in pop_schedules(w, n) {
                    v.push(Cfg { seed: seeds[0], backend: "cranelift", mode: Mode::Json, workers: Some(w), pops: Some(pops), timings: t.clone() });
                }
            }
        }
        chunks.insert(2.min(chunks.len()), ("timing-file shapes".into(), v));
    }
    // text report (streamed with 1 worker, buffered blocks otherwise): every order, every worker
    // count, the pop schedules "round robin" and "all on the last worker"
    {
        let mut v = vec![];
        for order in &orders {
            for w in 1..=max_w {
                let mut scheds = vec![(0..n).map(|i| i % w).collect::<Vec<_>>()];
                if w > 1 {
                    scheds.push(vec![w - 1; n]);
                    scheds.push((0..n).map(|i| (n - 1 - i) % w).collect());
                }
                for pops in scheds {
                    for seed in &seeds[..if thorough { 2 } else { 1 }] {
                        v.push(Cfg { seed: *seed, backend: "cranelift", mode: Mode::Text, workers: Some(w), pops: Some(pops.clone()), timings: Timings::Order(order.clone()) });
                    }
                }
            }
        }
        chunks.insert(3.min(chunks.len()), ("text report".into(), v));
    }
    // default backend (cc: one gcc run per test): one order per worker count, every pop schedule
    {
        let mut v = vec![];
        for w in 1..=max_w {
            let order = orders[(w * 7) % orders.len()].clone();
            let scheds = pop_schedules(w, n);
            let scheds: Vec<_> = if thorough { scheds } else { scheds.into_iter().step_by(3).collect() };
            for pops in scheds {
                v.push(Cfg { seed: seeds[0], backend: "cc", mode: Mode::Json, workers: Some(w), pops: Some(pops), timings: Timings::Order(order.clone()) });
            }
        }
        if thorough {
            for w in 1..=max_w {
                for pops in pop_schedules(w, n).into_iter().step_by(4) {
                    v.push(Cfg { seed: seeds[0], backend: "interpret", mode: Mode::Json, workers: Some(w), pops: Some(pops), timings: Timings::Order(orders[orders.len() - 1].clone()) });
                }
            }
        }
        chunks.insert(4.min(chunks.len()), ("default backend".into(), v));
    }
    // hook inert: the binary's own worker count (min(cores, tests)) and free-running pops
    {
        let mut v = vec![];
        for order in orders.iter().step_by(if thorough { 1 } else { 2 }) {
            for seed in &seeds {
                v.push(Cfg { seed: *seed, backend: "cranelift", mode: Mode::Json, workers: None, pops: None, timings: Timings::Order(order.clone()) });
            }
        }
        chunks.insert(5.min(chunks.len()), ("free running".into(), v));
    }

    let total_cfgs: usize = chunks.iter().map(|c| c.1.len()).sum();
    let total_chunks = chunks.len();
    let mut pa = PartA {
        states: BTreeSet::new(),
        transitions: 0,
        cli_runs,
        digests: BTreeMap::new(),
        max_workers_used: 0,
        dispatch_orders_seen: BTreeSet::new(),
    };
    let mut done_chunks = vec![];
    let mut partial_chunk: Option<String> = None;
    let mut capped = false;
    let mut free_runs = 0u64;
    let mut viol_count: BTreeMap<String, usize> = BTreeMap::new();
    let mut sampled = 0;
    for (label, cfgs) in &chunks {
        if ctx.elapsed() > budget_end {
            capped = true;
            break;
        }
        let outs = par_map(cfgs, |cfg| {
            if ctx.elapsed() > budget_end {
                return None; // budget: do not start another process
            }
            let base = &bases[&(cfg.seed, cfg.backend, cfg.mode)];
            Some(pool.with(|sb| check_cfg(sb, &spec, cfg, base)))
        });
        let complete = outs.iter().all(|o| o.is_some());
        for oc in outs.into_iter().flatten() {
            pa.cli_runs += 1;
            if let Some(m) = oc.machinery {
                if rep.machinery_errors.len() < 5 {
                    rep.machinery(m);
                }
                continue;
            }
            pa.transitions += oc.executions;
            if oc.cfg.workers.is_some() {
                pa.states.insert(format!("{:?}|{:?}|{:?}|{}|{}|{:?}|{:?}", oc.dispatch, oc.cfg.pops, oc.cfg.workers, oc.cfg.seed, oc.cfg.backend, oc.cfg.mode, oc.cfg.timings));
                pa.dispatch_orders_seen.insert(oc.dispatch.clone());
            } else {
                free_runs += 1;
            }
            pa.max_workers_used = pa.max_workers_used.max(oc.workers_used);
            if let Some(d) = &oc.digest {
                pa.digests.entry(format!("seed={} backend={} mode={:?}", oc.cfg.seed, oc.cfg.backend, oc.cfg.mode)).or_default().insert(d.clone());
            }
            if sampled < 3 && oc.workers_used >= 2 && oc.diffs.is_empty() {
                sampled += 1;
                rep.sample(json!({"config": oc.cfg.to_json(&spec), "dispatch_observed": oc.dispatch, "workers_used": oc.workers_used, "report_digest": oc.digest, "equal_to_baseline": true}));
            }
            for (class, test, exp, obs) in oc.diffs {
                let sig = format!("C32:{class}");
                let c = viol_count.entry(sig.clone()).or_default();
                *c += 1;
                if *c <= 3 {
                    rep.violation(Violation {
                        signature: sig,
                        what: format!("test {test}: result under this schedule differs from the 1-worker run with the same seed"),
                        case: json!({"part": "A", "config": oc.cfg.to_json(&spec), "test": test, "dispatch_observed": oc.dispatch}),
                        expected: exp,
                        observed: obs,
                    });
                }
            }
        }
        if !complete {
            capped = true;
            partial_chunk = Some(label.clone());
            break;
        }
        done_chunks.push(label.clone());
    }
    for (sig, c) in &viol_count {
        if *c > 3 {
            rep.notes.push(format!("{sig}: {c} differing (configuration, test) pairs in total, first 3 kept"));
        }
    }
    rep.set("states", pa.states.len() as u64);
    rep.set("transitions", pa.transitions);
    rep.set("traces_validated_against_impl", pa.cli_runs);
    rep.set("free_running_runs", free_runs);
    rep.set("configurations_planned", total_cfgs as u64);
    rep.set("chunks_planned", total_chunks as u64);
    rep.set("chunks_completed", json!(done_chunks));
    rep.set("chunk_cut_by_budget", json!(partial_chunk));
    rep.set("exhaustive", !capped);
    rep.set("max_workers_actually_used", pa.max_workers_used as u64);
    rep.set("distinct_dispatch_orders_observed", pa.dispatch_orders_seen.len() as u64);
    let per: BTreeMap<String, usize> = pa.digests.iter().map(|(k, v)| (k.clone(), v.len())).collect();
    rep.set("distinct_reports_per_seed_backend_mode", json!(per));
    rep.set("max_distinct_reports_per_seed", per.values().copied().max().unwrap_or(0) as u64);
    if capped {
        rep.notes.push(format!("budget cap: {} of {} chunks completed", done_chunks.len(), total_chunks));
    }
    if done_chunks.is_empty() && pa.states.is_empty() {
        rep.machinery(format!("budget ({budget_end:.0} s) exhausted before the first chunk of configurations completed"));
    }
    if rep.machinery_errors.is_empty() {
        if pa.max_workers_used < 2 {
            rep.machinery("vacuity: no run used two workers");
        }
        // (a budget cap may stop after the chunks of a single order: reported, not vacuous)
        if pa.dispatch_orders_seen.len() < 2 && !capped {
            rep.machinery("vacuity: fewer than two distinct dispatch orders observed");
        }
    }
}

// ======================================================================= Part B: library level

fn mask_of(w: u32) -> u64 {
    if w >= 64 { u64::MAX } else { (1u64 << w) - 1 }
}

/// Independent reading of a `w`-bit payload as an integer.
fn as_int(raw: u64, w: u32, signed: bool) -> i128 {
    let v = (raw & mask_of(w)) as i128;
    if signed && w > 0 && (v >> (w - 1)) & 1 == 1 { v - (1i128 << w) } else { v }
}

#[derive(Clone, Debug)]
struct RngViolation {
    class: String,
    case: Value,
    expected: Value,
    observed: Value,
}

#[derive(Default)]
struct RngStats {
    draws: u64,
    ranges: u64,
    ranges_max_reached: u64,
    ranges_min_reached: u64,
    inverted_ranges: u64,
    /// stream digests keyed by "seed|handle|width|signed|min|max"
    streams: BTreeMap<String, String>,
    violations: Vec<RngViolation>,
    panics: Vec<(Value, String)>,
}

const HANDLES: [&str; 2] = ["r", "other_gen"];
const RNG_SEEDS: [u64; 3] = [0, 1, u64::MAX];
const DRAWS: usize = 64;

fn boundary_payloads(w: u32) -> Vec<u64> {
    let m = mask_of(w);
    let half = 1u64 << (w - 1);
    let mut v = vec![0, 1, half - 1, half, half + 1, m - 1, m];
    v.dedup();
    v
}

/// One full enumeration on the calling thread (random_table and resource_table are thread-local).
fn rng_enumerate(small_widths: &[u32], boundary_widths: &[u32]) -> RngStats {
    use veryl_parser::resource_table;
    use veryl_simulator::random_table as rt;
    let mut st = RngStats::default();
    let ids: Vec<_> = HANDLES.iter().map(|h| resource_table::insert_str(h)).collect();
    let mut push = |st: &mut RngStats, class: &str, case: Value, exp: Value, obs: Value| {
        if st.violations.iter().filter(|v| v.class == class).count() < 3 {
            st.violations.push(RngViolation { class: class.to_string(), case, expected: exp, observed: obs });
        }
    };
    let mut plans: Vec<(u32, bool, Vec<(u64, u64)>)> = vec![];
    for &w in small_widths {
        for signed in [false, true] {
            let mut pairs = vec![];
            for a in 0..=mask_of(w) {
                for b in 0..=mask_of(w) {
                    pairs.push((a, b));
                }
            }
            plans.push((w, signed, pairs));
        }
    }
    for &w in boundary_widths {
        for signed in [false, true] {
            let e = boundary_payloads(w);
            let mut pairs = vec![];
            for a in &e {
                for b in &e {
                    pairs.push((*a, *b));
                }
            }
            plans.push((w, signed, pairs));
        }
    }
    for seed in RNG_SEEDS {
        for (hi, hname) in HANDLES.iter().enumerate() {
            let id = ids[hi];
            for (w, signed, pairs) in &plans {
                let (w, signed) = (*w, *signed);
                // ---- get()
                rt::reset(seed);
                let mut h = blake3::Hasher::new();
                for k in 0..DRAWS {
                    let v = rt::get(id, w, signed);
                    let p = v.payload_u64();
                    st.draws += 1;
                    h.update(&p.to_le_bytes());
                    if p > mask_of(w) || v.width() != w as usize || v.signed() != signed {
                        push(
                            &mut st,
                            "rng.get.width",
                            json!({"part": "B-lib", "seed": seed.to_string(), "handle": hname, "width": w, "signed": signed, "draw": k}),
                            json!(format!("a {w}-bit value, signed={signed}")),
                            json!({"payload": p.to_string(), "width": v.width(), "signed": v.signed()}),
                        );
                    }
                }
                st.streams.insert(format!("{seed}|{hname}|{w}|{signed}|get"), h.finalize().to_hex()[..16].to_string());
                // ---- get_range()
                for (a, b) in pairs {
                    let (x, y) = (as_int(*a, w, signed), as_int(*b, w, signed));
                    let (lo, hi_) = (x.min(y), x.max(y));
                    let inverted = x > y;
                    rt::reset(seed);
                    let mut h = blake3::Hasher::new();
                    let (mut min_hit, mut max_hit) = (false, false);
                    for k in 0..DRAWS {
                        let v = rt::get_range(id, *a, *b, w, signed);
                        let p = v.payload_u64();
                        st.draws += 1;
                        h.update(&p.to_le_bytes());
                        let val = as_int(p, w, signed);
                        min_hit |= val == lo;
                        max_hit |= val == hi_;
                        if p > mask_of(w) || val < lo || val > hi_ {
                            let class = format!(
                                "rng.bounds.{}{}",
                                if signed { "signed" } else { "unsigned" },
                                if inverted { ".inverted" } else { "" }
                            );
                            push(
                                &mut st,
                                &class,
                                json!({"part": "B-lib", "seed": seed.to_string(), "handle": hname, "width": w, "signed": signed,
                                       "min_payload": a.to_string(), "max_payload": b.to_string(), "draw": k}),
                                json!(format!("a value in [{lo}, {hi_}]")),
                                json!({"value": val.to_string(), "payload": p.to_string()}),
                            );
                        }
                    }
                    st.ranges += 1;
                    st.inverted_ranges += inverted as u64;
                    st.ranges_min_reached += min_hit as u64;
                    st.ranges_max_reached += max_hit as u64;
                    st.streams.insert(format!("{seed}|{hname}|{w}|{signed}|{a}|{b}"), h.finalize().to_hex()[..16].to_string());
                }
            }
        }
    }
    // ---- reproducibility clauses that need no second thread
    for seed in RNG_SEEDS {
        let (a, b) = (ids[0], ids[1]);
        let take = |id, n: usize| -> Vec<u64> { (0..n).map(|_| rt::get_range(id, 3, 200, 8, false).payload_u64()).collect() };
        rt::reset(seed);
        let alone = take(a, DRAWS);
        // interleaved with another handle
        rt::reset(seed);
        let mut inter = vec![];
        for _ in 0..DRAWS {
            inter.push(rt::get_range(a, 3, 200, 8, false).payload_u64());
            let _ = rt::get(b, 64, false);
        }
        st.draws += 3 * DRAWS as u64;
        if alone != inter {
            push(&mut st, "rng.repro.interleave", json!({"part": "B-lib", "seed": seed.to_string(), "handle": HANDLES[0], "interleaved_with": HANDLES[1]}), json!(alone), json!(inter));
        }
        // reading the derived seed back and applying it explicitly restarts the same stream
        rt::reset(seed);
        let derived = rt::get_seed_handle(a);
        let first = take(a, DRAWS);
        rt::seed_handle(a, derived);
        let again = take(a, DRAWS);
        let readback = rt::get_seed_handle(a);
        st.draws += 2 * DRAWS as u64;
        if first != again || first != alone || readback != derived {
            push(&mut st, "rng.repro.reseed", json!({"part": "B-lib", "seed": seed.to_string(), "handle": HANDLES[0], "derived_seed": derived.to_string(), "seed_read_back": readback.to_string()}), json!(first), json!(again));
        }
        // explicit seed: same stream for the same explicit seed on either handle, after any history
        rt::seed_handle(a, 1234);
        let e1 = take(a, DRAWS);
        let _ = take(a, 7);
        rt::seed_handle(a, 1234);
        let e2 = take(a, DRAWS);
        st.draws += (2 * DRAWS + 7) as u64;
        if e1 != e2 || rt::get_seed_handle(a) != 1234 {
            push(&mut st, "rng.repro.explicit-seed", json!({"part": "B-lib", "seed": seed.to_string(), "handle": HANDLES[0], "explicit_seed": 1234}), json!(e1), json!(e2));
        }
        // a reset forgets explicit seeds and consumed draws
        rt::reset(seed);
        let after_reset = take(a, DRAWS);
        st.draws += DRAWS as u64;
        if after_reset != alone {
            push(&mut st, "rng.repro.reset", json!({"part": "B-lib", "seed": seed.to_string(), "handle": HANDLES[0]}), json!(alone), json!(after_reset));
        }
    }
    st
}

fn part_b_lib(ctx: &Ctx, rep: &mut Report) {
    let small: Vec<u32> = if ctx.thorough() { vec![1, 2, 3, 4, 5, 6] } else { vec![1, 2, 3, 4] };
    let boundary: Vec<u32> = vec![31, 32, 33, 63, 64];
    rep.set("rng_bounds_requested", json!({
        "widths_all_pairs": small, "boundary_widths": boundary, "signedness": ["unsigned", "signed"],
        "draws_per_stream": DRAWS, "seeds": RNG_SEEDS.iter().map(|s| s.to_string()).collect::<Vec<_>>(), "handles": HANDLES,
    }));
    let mut runs = vec![];
    for _ in 0..2 {
        let (s, b) = (small.clone(), boundary.clone());
        match run_isolated(64 << 20, move || rng_enumerate(&s, &b)) {
            Ok(st) => runs.push(st),
            Err(p) => {
                rep.violation(Violation {
                    signature: "C32:rng.panic".into(),
                    what: format!("random_table panicked during the enumeration: {p}"),
                    case: json!({"part": "B-lib", "widths": small, "boundary_widths": boundary}),
                    expected: json!("a value"),
                    observed: json!(p),
                });
                return;
            }
        }
    }
    let (a, b) = (&runs[0], &runs[1]);
    // identical streams for equal (seed, handle, request) on two threads
    let mut diff = 0;
    for (k, d) in &a.streams {
        if b.streams.get(k) != Some(d) {
            diff += 1;
            if diff <= 3 {
                rep.violation(Violation {
                    signature: "C32:rng.repro.thread".into(),
                    what: "the same (seed, handle, request) gives different streams on two threads".into(),
                    case: json!({"part": "B-lib", "stream": k}),
                    expected: json!(d),
                    observed: json!(b.streams.get(k)),
                });
            }
        }
    }
    for v in &a.violations {
        rep.violation(Violation {
            signature: format!("C32:{}", v.class),
            what: "random_table draw violates its contract".into(),
            case: v.case.clone(),
            expected: v.expected.clone(),
            observed: v.observed.clone(),
        });
    }
    rep.add("rng_draws_checked", a.draws + b.draws);
    rep.set("rng_lib_streams", a.streams.len() as u64);
    rep.set("rng_lib_ranges", a.ranges);
    rep.set("rng_lib_inverted_ranges", a.inverted_ranges);
    rep.set("rng_lib_ranges_min_reached", a.ranges_min_reached);
    rep.set("rng_lib_ranges_max_reached", a.ranges_max_reached);
    let distinct: BTreeSet<&String> = a.streams.values().collect();
    rep.set("rng_lib_distinct_streams", distinct.len() as u64);
    // vacuity: seeds and handle names select different streams; maxima are reachable
    let k = |seed: u64, h: &str| format!("{seed}|{h}|64|false|get");
    if a.streams.get(&k(0, HANDLES[0])) == a.streams.get(&k(1, HANDLES[0])) || a.streams.get(&k(0, HANDLES[0])) == a.streams.get(&k(0, HANDLES[1])) {
        rep.machinery("vacuity: the 64-bit get() stream does not depend on the seed / the handle name");
    }
    if a.ranges_max_reached * 2 < a.ranges || a.ranges_min_reached * 2 < a.ranges {
        rep.machinery(format!("vacuity: max reached in {} and min in {} of {} ranges", a.ranges_max_reached, a.ranges_min_reached, a.ranges));
    }
    rep.sample(json!({"rng_lib": {"streams": a.streams.len(), "example_stream_key": "1|r|4|true|9|6", "digest": a.streams.get("1|r|4|true|9|6")}}));
}

// ======================================================================= Part B: through the CLI

/// One generated test: a handle of some element type, a list of requests.
struct RngTest {
    name: String,
    handle: &'static str,
    /// veryl element type text and what it means
    ty: String,
    width: u32,
    signed: bool,
    /// None: nested loops over all (lo,hi) payload pairs of the width; Some: explicit literal pairs
    /// (source text, meaning as integer)
    literal_pairs: Option<Vec<((String, i128), (String, i128))>>,
}

fn lit(v: i128, w: u32, signed: bool, style: u8) -> String {
    // style 0: plain decimal (self-determined 32-bit for small values); 1: sized hex payload
    match style {
        0 => format!("{v}"),
        _ => {
            let p = (v as u128) & (mask_of(w) as u128);
            let _ = signed;
            format!("{w}'h{p:x}")
        }
    }
}

fn rng_tests(thorough: bool) -> Vec<RngTest> {
    let mut v = vec![];
    for handle in HANDLES {
        for w in 1..=(if thorough { 4u32 } else { 3u32 }) {
            v.push(RngTest { name: format!("rng_u{w}_{handle}"), handle, ty: format!("bit<{w}>"), width: w, signed: false, literal_pairs: None });
        }
        // signed and boundary element types with literal bounds, decimal and sized-hex spellings
        let types: Vec<(&str, u32, bool)> = vec![
            ("i8", 8, true), ("i16", 16, true), ("i32", 32, true), ("i64", 64, true),
            ("u8", 8, false), ("u32", 32, false), ("u64", 64, false),
            ("bit<31>", 31, false), ("bit<33>", 33, false), ("bit<63>", 63, false),
        ];
        for (ty, w, signed) in types {
            let (min, max): (i128, i128) = if signed { (-(1i128 << (w - 1)), (1i128 << (w - 1)) - 1) } else { (0, (1i128 << w) - 1) };
            let mut points: Vec<i128> = vec![min, min + 1, max - 1, max, 0, 1];
            if signed {
                points.extend([-1, -2, -3, 5, -100, 100]);
            } else {
                points.extend([2, 5, 100]);
            }
            points.retain(|p| *p >= min && *p <= max);
            points.sort();
            points.dedup();
            let mut pairs = vec![];
            for a in &points {
                for b in &points {
                    if a <= b {
                        for style in [0u8, 1u8] {
                            // plain decimal literals beyond 32 bits are not valid unsized literals
                            if style == 0 && (*a < -(1i128 << 31) || *b >= (1i128 << 31) || *a >= (1i128 << 31) || *b < -(1i128 << 31)) {
                                continue;
                            }
                            pairs.push(((lit(*a, w, signed, style), *a), (lit(*b, w, signed, style), *b)));
                        }
                    }
                }
            }
            if !thorough {
                // quick: every second pair of points, both spellings kept together
                let mut kept = vec![];
                let mut last_key: Option<(i128, i128)> = None;
                let mut idx = 0usize;
                for p in pairs {
                    let key = (p.0.1, p.1.1);
                    if last_key != Some(key) {
                        idx += 1;
                        last_key = Some(key);
                    }
                    if idx % 2 == 1 {
                        kept.push(p);
                    }
                }
                pairs = kept;
            }
            let tyname = ty.replace(['<', '>'], "");
            v.push(RngTest { name: format!("rng_{tyname}_{handle}"), handle, ty: ty.to_string(), width: w, signed, literal_pairs: Some(pairs) });
        }
    }
    v
}

const CLI_DRAWS: usize = 16;

fn rng_test_text(t: &RngTest) -> String {
    let mut s = String::new();
    let h = t.handle;
    s.push_str(&format!("#[test({0})]\nmodule {0} {{\n    gen elem_t: type = {1};\n    var {h}: $tb::random::<elem_t>;\n    var x: {1};\n    initial {{\n", t.name, t.ty));
    match &t.literal_pairs {
        None => {
            let n = 1u64 << t.width;
            s.push_str(&format!(
                "        for lo in 0..{n} {{\n            for hi in 0..{n} {{\n                for k in 0..{DRAWS} {{\n                    x = {h}.get_range(lo, hi);\n                    $display(\"R %d %d %d %h\", lo, hi, k, x);\n                }}\n            }}\n        }}\n        for k in 0..{DRAWS} {{\n            x = {h}.get();\n            $display(\"G %d %h\", k, x);\n        }}\n"
            ));
        }
        Some(pairs) => {
            for (i, ((a, _), (b, _))) in pairs.iter().enumerate() {
                s.push_str(&format!(
                    "        for k in 0..{CLI_DRAWS} {{\n            x = {h}.get_range({a}, {b});\n            $display(\"L {i} %d %h\", k, x);\n        }}\n"
                ));
            }
            s.push_str(&format!("        for k in 0..{DRAWS} {{\n            x = {h}.get();\n            $display(\"G %d %h\", k, x);\n        }}\n"));
        }
    }
    s.push_str("        $finish();\n    }\n}\n");
    s
}

fn part_b_cli(ctx: &Ctx, rep: &mut Report) {
    let tests = rng_tests(ctx.thorough());
    let root = ctx.dir("c32b");
    let seeds: Vec<u64> = if ctx.thorough() { RNG_SEEDS.to_vec() } else { vec![1] };
    // two sandboxes = two independent processes per seed (reproducibility across processes)
    let jobs: Vec<(u64, usize)> = seeds.iter().flat_map(|s| [(*s, 0usize), (*s, 1usize)]).collect();
    let outs = par_map(&jobs, |(seed, rep_i)| {
        let sb = Sandbox::new(&root.join(format!("b{}_{}", seed % 1000, rep_i)));
        sb.write_old("Veryl.toml", VERYL_TOML);
        let mut text = String::new();
        for t in &tests {
            text.push_str(&rng_test_text(t));
            text.push('\n');
        }
        sb.write_old("src/rng.veryl", &text);
        let seed_s = seed.to_string();
        let path = child_path();
        // one worker: this part is about the generator, not about output capture under concurrency
        let mut env = child_env(&path);
        env.push(("VERYL_VERIF_WORKERS", "1"));
        let out = sb.veryl_env(&["test", "--format", "json", "--backend", "cranelift", "--seed", &seed_s], &env);
        (*seed, *rep_i, observe_json(&out), out)
    });
    let mut by_seed: BTreeMap<u64, Vec<Obs>> = BTreeMap::new();
    for (seed, _i, obs, out) in outs {
        rep.add("traces_validated_against_impl", 1);
        match obs {
            Ok(o) => by_seed.entry(seed).or_default().push(o),
            Err(e) => {
                rep.machinery(format!("RNG project run failed for seed {seed}: {e}; stderr: {}", tail(&out.stderr, 20)));
                return;
            }
        }
    }
    let mut cli_draws = 0u64;
    let mut skipped: BTreeMap<String, u64> = BTreeMap::new();
    let mut viol: BTreeMap<String, usize> = BTreeMap::new();
    let mut checked_tests = 0u64;
    for (seed, runs) in &by_seed {
        let (a, b) = (&runs[0], &runs[1]);
        for t in &tests {
            let (Some(ta), Some(tb)) = (a.tests.get(&t.name), b.tests.get(&t.name)) else {
                *skipped.entry("test missing from the report".into()).or_default() += 1;
                continue;
            };
            if ta.status != "pass" {
                *skipped.entry(format!("generated test does not run: {}", ta.message.clone().unwrap_or_default().lines().next().unwrap_or(""))).or_default() += 1;
                continue;
            }
            checked_tests += 1;
            if ta.output != tb.output {
                let c = viol.entry("C32:rng.repro.process".into()).or_default();
                *c += 1;
                if *c <= 3 {
                    rep.violation(Violation {
                        signature: "C32:rng.repro.process".into(),
                        what: "two `veryl test` processes with the same seed print different draws for the same handle".into(),
                        case: json!({"part": "B-cli", "seed": seed.to_string(), "test": t.name, "source": rng_test_text(t)}),
                        expected: json!(tail(&ta.output, 6)),
                        observed: json!(tail(&tb.output, 6)),
                    });
                }
            }
            for line in ta.output.lines() {
                let f: Vec<&str> = line.split_whitespace().collect();
                let parse_hex = |x: &str| u64::from_str_radix(x, 16).ok();
                let (lo, hi, k, payload, req): (i128, i128, String, Option<u64>, String) = match f.first().copied() {
                    Some("R") if f.len() == 5 => {
                        let (a, b) = (f[1].parse::<u64>().unwrap_or(0), f[2].parse::<u64>().unwrap_or(0));
                        let (x, y) = (as_int(a, t.width, t.signed), as_int(b, t.width, t.signed));
                        (x.min(y), x.max(y), f[3].to_string(), parse_hex(f[4]), format!("get_range({a}, {b})"))
                    }
                    Some("L") if f.len() == 4 => {
                        let i: usize = f[1].parse().unwrap_or(0);
                        let p = &t.literal_pairs.as_ref().unwrap()[i];
                        (p.0.1, p.1.1, f[2].to_string(), parse_hex(f[3]), format!("get_range({}, {})", p.0.0, p.1.0))
                    }
                    Some("G") if f.len() == 3 => {
                        let (min, max) = if t.signed { (-(1i128 << (t.width - 1)), (1i128 << (t.width - 1)) - 1) } else { (0, mask_of(t.width) as i128) };
                        (min, max, f[1].to_string(), parse_hex(f[2]), "get()".to_string())
                    }
                    _ => {
                        *skipped.entry("unparsable output line".into()).or_default() += 1;
                        continue;
                    }
                };
                let Some(p) = payload else {
                    *skipped.entry("unparsable payload".into()).or_default() += 1;
                    continue;
                };
                cli_draws += 1;
                let val = as_int(p, t.width, t.signed);
                if p > mask_of(t.width) || val < lo || val > hi {
                    let neg_literal = req.contains("(-") || req.contains(", -");
                    let sig = format!(
                        "C32:rng.cli.bounds.{}{}",
                        if t.signed { "signed" } else { "unsigned" },
                        if t.signed && t.width > 32 && neg_literal { ".negative-literal-wider-than-32" } else { "" }
                    );
                    let c = viol.entry(sig.clone()).or_default();
                    *c += 1;
                    if *c <= 3 {
                        rep.violation(Violation {
                            signature: sig,
                            what: format!("`{}.{req}` on a `$tb::random::<{}>` handle returned {val}, outside [{lo}, {hi}]", t.handle, t.ty),
                            case: json!({"part": "B-cli", "seed": seed.to_string(), "test": t.name, "element_type": t.ty, "request": req, "draw": k,
                                         "lo": lo.to_string(), "hi": hi.to_string(),
                                         "minimal_source": format!("#[test(t)]\nmodule t {{\n    var {h}: $tb::random::<{ty}>;\n    var x: {ty};\n    initial {{\n        x = {h}.{req};\n        $display(\"%d\", x);\n        $finish();\n    }}\n}}\n", h = t.handle, ty = t.ty)}),
                            expected: json!(format!("a value in [{lo}, {hi}]")),
                            observed: json!({"value": val.to_string(), "payload_hex": format!("{p:x}")}),
                        });
                    }
                }
            }
        }
        // equal (seed, handle name, element type, request sequence) in different tests: the all-pairs
        // tests of the two handles must differ from each other (names differ) — vacuity only
        if let (Some(x), Some(y)) = (a.tests.get("rng_u3_r"), a.tests.get("rng_u3_other_gen")) {
            if x.status == "pass" && y.status == "pass" && x.output == y.output {
                rep.machinery(format!("vacuity: handles `r` and `other_gen` print identical draws for seed {seed}"));
            }
        }
    }
    for (sig, c) in &viol {
        if *c > 3 {
            rep.notes.push(format!("{sig}: {c} draws in total, first 3 kept"));
        }
    }
    rep.add("rng_draws_checked", cli_draws);
    rep.set("rng_cli_draws_checked", cli_draws);
    rep.set("rng_cli_tests_generated", (tests.len() * by_seed.len()) as u64);
    rep.set("rng_cli_tests_checked", checked_tests);
    rep.set("rng_cli_skipped", json!(skipped));
    if checked_tests * 10 < (tests.len() * by_seed.len()) as u64 * 9 {
        rep.machinery(format!("more than 10% of the generated RNG tests were not usable: {skipped:?}"));
    }
}

// ======================================================================= entry points

pub fn run(ctx: &Ctx) -> Report {
    let mut rep = Report::new(Level::ModelChecking);
    rep.assume("What is scheduled: which worker takes the i-th test off the queue (all w^n assignments), the queue order (all n! orders, via .build/test_timings) and the worker count. After a pop the test bodies run on real threads: their relative progress (who finishes first, interleaving of their simulator steps and of report pushes) is NOT controlled; every body lasts several ms so that bodies popped back-to-back overlap, but no particular interleaving of overlapping bodies is enumerated.");
    rep.assume("Worker indices are assigned in thread start order by the hook; the implementation has no worker identity of its own, so the w^n schedules contain renamings of each other (kept: the bound is stated as w^n).");
    rep.assume("The cargo invocation `veryl test` makes for the [[components]] package is answered by a stand-in script that returns the cdylib compiled with the harness (crates/c32-comp); everything on veryl's side (artifact selection, dlopen, manifest, instance_seed) is the real code.");
    rep.assume("RNG part: a request with min > max is checked against the swapped interval (separate signature class); bounds are payloads of the element width. Signed element types narrower than 8 bits are reachable only at library level (a `gen` alias of `signed bit<N>` is unsigned to the analyzer), so the CLI part uses bit<1..4>, i8..i64, u8/u32/u64 and bit<31|33|63>.");
    let budget = ctx.budget(40.0, 780.0);
    part_b_lib(ctx, &mut rep);
    let t1 = ctx.elapsed();
    // The CLI half of the RNG part (a handful of long single-worker processes) runs beside the
    // schedule part; the two share nothing but the machine.
    let mut rep_b = Report::new(Level::ModelChecking);
    let mut wall_b = 0.0;
    std::thread::scope(|s| {
        let h = s.spawn(|| {
            part_b_cli(ctx, &mut rep_b);
            wall_b = ctx.elapsed() - t1;
        });
        let earlier = std::mem::take(&mut rep.machinery_errors);
        part_a(ctx, &mut rep, budget);
        let later = std::mem::replace(&mut rep.machinery_errors, earlier);
        rep.machinery_errors.extend(later);
        let _ = h.join();
    });
    let wall_a = ctx.elapsed() - t1;
    // merge
    for (k, v) in std::mem::take(&mut rep_b.coverage) {
        match (rep.coverage.get(&k).and_then(|x| x.as_u64()), v.as_u64()) {
            (Some(a), Some(b)) if k == "traces_validated_against_impl" || k == "rng_draws_checked" => {
                rep.coverage.insert(k, json!(a + b));
            }
            (Some(_), _) | (None, _) => {
                rep.coverage.insert(k, v);
            }
        }
    }
    rep.violations.append(&mut rep_b.violations);
    rep.machinery_errors.append(&mut rep_b.machinery_errors);
    rep.notes.append(&mut rep_b.notes);
    rep.set("wall_s_parts", json!({"rng_library": t1, "rng_cli (concurrent with schedules)": wall_b, "schedules": wall_a}));
    rep.set("budget_s", budget);
    rep
}

pub fn replay(doc: &Value) -> i32 {
    let case = &doc["case"];
    let ctx = Ctx::new("C32-replay", Tier::Quick);
    match case["part"].as_str().unwrap_or("") {
        "A" => {
            let c = &case["config"];
            let names: Vec<String> = c["project"]["tests"].as_array().map(|a| a.iter().filter_map(|x| x.as_str().map(|s| s.to_string())).collect()).unwrap_or_default();
            let spec = ProjSpec {
                tests: (0..4).filter(|i| names.iter().any(|n| n == TEST_NAMES[*i])).collect(),
                with_comp: c["project"]["with_component"].as_bool().unwrap_or(false),
            };
            let seed: u64 = c["seed"].as_str().and_then(|s| s.parse().ok()).unwrap_or(0);
            let backend: &'static str = match c["backend"].as_str() {
                Some("cc") => "cc",
                Some("interpret") => "interpret",
                _ => "cranelift",
            };
            let mode = if c["mode"].as_str() == Some("Text") { Mode::Text } else { Mode::Json };
            let sb = Sandbox::new(&ctx.dir("r"));
            write_project(&sb, &spec);
            let base_cfg = baseline_cfg(seed, backend, mode);
            let (o, base) = run_cfg(&sb, &spec, &base_cfg);
            let Ok(base) = base else {
                eprintln!("baseline failed: {}", tail(&o.stderr, 20));
                return 2;
            };
            // replay uses the literal timings file of the case
            let tfile = c["timings_file"].as_str().map(|s| s.to_string());
            let order: Vec<usize> = case["dispatch_observed"]
                .as_array()
                .map(|a| a.iter().filter_map(|x| spec.names().iter().position(|n| Some(*n) == x.as_str())).collect())
                .unwrap_or_default();
            let timings = match (&tfile, order.len() == spec.tests.len()) {
                (None, _) => Timings::Absent,
                (_, true) => Timings::Order(order),
                _ => Timings::Ties,
            };
            let cfg = Cfg {
                seed,
                backend,
                mode,
                workers: c["workers"].as_u64().map(|w| w as usize),
                pops: c["pop_schedule"].as_array().map(|a| a.iter().filter_map(|x| x.as_u64().map(|w| w as usize)).collect()),
                timings,
            };
            let oc = check_cfg(&sb, &spec, &cfg, &base);
            if let Some(m) = oc.machinery {
                eprintln!("machinery: {m}");
                return 2;
            }
            if oc.diffs.is_empty() {
                println!("configuration agrees with the baseline");
                0
            } else {
                for (class, test, e, o) in oc.diffs {
                    println!("still failing: {class} test={test}\nexpected: {e}\nobserved: {o}");
                }
                1
            }
        }
        "B-lib" => {
            let w = case["width"].as_u64().unwrap_or(4) as u32;
            let r = run_isolated(64 << 20, move || if w <= 8 { rng_enumerate(&[w], &[]) } else { rng_enumerate(&[], &[w]) });
            match r {
                Ok(st) if st.violations.is_empty() => {
                    println!("no violation at width {w}");
                    0
                }
                Ok(st) => {
                    for v in st.violations {
                        println!("still failing: {} case={} expected={} observed={}", v.class, v.case, v.expected, v.observed);
                    }
                    1
                }
                Err(p) => {
                    println!("still failing: panic {p}");
                    1
                }
            }
        }
        "B-cli" => {
            let Some(src) = case["minimal_source"].as_str().or(case["source"].as_str()) else {
                eprintln!("no source in the case");
                return 2;
            };
            let sb = Sandbox::new(&ctx.dir("r"));
            sb.write_old("Veryl.toml", VERYL_TOML);
            sb.write_old("src/t.veryl", src);
            let seed = case["seed"].as_str().unwrap_or("1").to_string();
            let path = child_path();
            let out = sb.veryl_env(&["test", "--format", "json", "--backend", "cranelift", "--seed", &seed], &child_env(&path));
            let Ok(obs) = observe_json(&out) else {
                eprintln!("no report: {}", tail(&out.stderr, 20));
                return 2;
            };
            let (Some(lo), Some(hi)) = (case["lo"].as_str().and_then(|x| x.parse::<i128>().ok()), case["hi"].as_str().and_then(|x| x.parse::<i128>().ok())) else {
                for t in obs.tests.values() {
                    println!("{}", t.output);
                }
                eprintln!("case carries no bounds; output printed above");
                return 2;
            };
            let mut bad = 0;
            for t in obs.tests.values() {
                for l in t.output.lines() {
                    match l.trim().parse::<i128>() {
                        Ok(v) if v < lo || v > hi => {
                            println!("still failing: drew {v}, outside [{lo}, {hi}]");
                            bad += 1;
                        }
                        Ok(v) => println!("drew {v}, inside [{lo}, {hi}]"),
                        Err(_) => {}
                    }
                }
            }
            if bad > 0 { 1 } else { 0 }
        }
        _ => {
            eprintln!("unknown case part");
            2
        }
    }
}

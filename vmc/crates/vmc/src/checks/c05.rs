//! C05 — crashes and cache damage never leave a build wrong.
//!
//! Engine E4. Crash points are enumerated at *system-call granularity on the real binary*: the
//! command is traced once under `strace`, every mutating system call of the main thread
//! (open-for-write/create, write to a file, rename, unlink, mkdir, fchmod, ftruncate …) becomes a
//! crash point, and for each point the command is re-run from the same snapshot with
//! `strace -e inject=<syscall>:signal=SIGKILL:when=<n>` so that the process dies immediately
//! *before* that call. Then an optional follow-up edit, then the recovery `veryl build`, compared
//! with a clean build of the same sources in an empty directory. No source hook is needed and
//! writes added by a code change are covered automatically.
//!
//! Damage: every file under `.build` × {delete, truncations, every byte XOR mask, cross-wiring
//! with another valid blob}, then `build` / `check`; no panic, result equals the clean build.

use crate::checks::c04::{self, Edit, Obs};
use crate::core::*;
use crate::fixture;
use crate::proj::{self, Sandbox, Snap};
use rayon::prelude::*;
use serde_json::{Value, json};
use std::collections::{BTreeMap, BTreeSet, HashMap, HashSet};
use std::path::Path;
use std::sync::Mutex;
use std::time::Duration;

const SYSCALLS: &str = "openat,open,creat,write,pwrite64,writev,rename,renameat,renameat2,unlink,unlinkat,mkdir,mkdirat,rmdir,ftruncate,truncate,link,linkat,symlink,symlinkat,fchmod,fchmodat,chmod,utimensat,copy_file_range,sendfile";

#[derive(Clone, Debug)]
struct CrashPoint {
    syscall: String,
    nth: usize, // n-th invocation of that syscall by the main thread (1-based)
    label: String,
}

/// Parses an strace -f -o log; returns the mutating calls of the main (first) pid.
fn parse_trace(log: &str) -> Vec<CrashPoint> {
    let mut main_pid: Option<String> = None;
    let mut counts: HashMap<String, usize> = HashMap::new();
    let mut out = vec![];
    for line in log.lines() {
        let mut it = line.splitn(2, char::is_whitespace);
        let pid = it.next().unwrap_or("");
        let rest = it.next().unwrap_or("").trim_start();
        if main_pid.is_none() {
            main_pid = Some(pid.to_string());
        }
        if Some(pid) != main_pid.as_deref() {
            continue;
        }
        if rest.starts_with("+++") || rest.starts_with("---") || rest.starts_with("<...") {
            continue;
        }
        let Some(par) = rest.find('(') else { continue };
        let name = &rest[..par];
        if !name.chars().all(|c| c.is_ascii_alphanumeric() || c == '_') {
            continue;
        }
        let c = counts.entry(name.to_string()).or_insert(0);
        *c += 1;
        let args = &rest[par + 1..];
        let mutating = match name {
            "openat" | "open" => args.contains("O_WRONLY") || args.contains("O_RDWR") || args.contains("O_CREAT") || args.contains("O_TRUNC"),
            "write" | "pwrite64" | "writev" => {
                let fd: i32 = args.split(',').next().unwrap_or("0").trim().parse().unwrap_or(0);
                fd > 2
            }
            _ => true,
        };
        if !mutating {
            continue;
        }
        // label with scratch-independent path tail
        let label = abstract_label(name, args);
        out.push(CrashPoint { syscall: name.to_string(), nth: *c, label });
    }
    out
}

fn abstract_label(name: &str, args: &str) -> String {
    // first quoted string, made relative to the project, temp names and hashes abstracted
    let path = args.split('"').nth(1).unwrap_or("");
    let last = if name.starts_with("rename") { args.split('"').nth(3).unwrap_or(path) } else { path };
    let rel = last.strip_prefix(&format!("{}/p/", proj::CANON)).unwrap_or(last);
    let mut rel = rel.to_string();
    if let Some(i) = rel.find("fragments/") {
        rel = format!("{}fragments/<blob>", &rel[..i]);
    }
    if let Some(i) = rel.find(".tmp") {
        rel = format!("{}<tmp>", &rel[..i]);
    }
    if rel.is_empty() { name.to_string() } else { format!("{name}:{rel}") }
}

fn strace_trace(sb: &Sandbox, cmd: &str) -> Result<Vec<CrashPoint>, String> {
    let log = sb.root.join("trace.txt");
    let _ = std::fs::remove_file(&log);
    let veryl = bin_dir().join("veryl");
    let mut args: Vec<String> = vec![
        "-f".into(),
        "-o".into(),
        format!("{}/trace.txt", proj::CANON),
        "-e".into(),
        format!("trace={SYSCALLS}"),
        veryl.to_string_lossy().to_string(),
    ];
    args.extend(cmd.split_whitespace().map(|x| x.to_string()));
    let a: Vec<&str> = args.iter().map(|x| x.as_str()).collect();
    let out = sb.run_program(Path::new("/usr/bin/strace"), &a, &[], Duration::from_secs(120));
    let text = std::fs::read_to_string(&log).map_err(|e| format!("no strace log ({e}); strace stderr: {}", out.stderr))?;
    let _ = std::fs::remove_file(&log);
    Ok(parse_trace(&text))
}

fn strace_kill(sb: &Sandbox, cmd: &str, cp: &CrashPoint) -> proj::RunOut {
    let veryl = bin_dir().join("veryl");
    let mut args: Vec<String> = vec![
        "-f".into(),
        "-o".into(),
        "/dev/null".into(),
        "-e".into(),
        format!("trace={}", cp.syscall),
        "-e".into(),
        format!("inject={}:signal=SIGKILL:when={}", cp.syscall, cp.nth),
        veryl.to_string_lossy().to_string(),
    ];
    args.extend(cmd.split_whitespace().map(|x| x.to_string()));
    let a: Vec<&str> = args.iter().map(|x| x.as_str()).collect();
    sb.run_program(Path::new("/usr/bin/strace"), &a, &[], Duration::from_secs(120))
}

/// Clean build of the sources contained in `s` (nothing else), cached per source set.
fn clean_obs(sb: &Sandbox, s: &Snap, cmd: &str, cache: &Mutex<HashMap<String, Obs>>) -> Obs {
    let mut src = Snap::default();
    let mut key = blake3::Hasher::new();
    key.update(cmd.as_bytes());
    for (rel, v) in &s.files {
        if rel == "p/Veryl.toml" || rel.starts_with("p/src/") || rel.starts_with("p/examples/") {
            src.files.insert(rel.clone(), v.clone());
            key.update(rel.as_bytes());
            key.update(&v.0);
        }
    }
    let k = key.finalize().to_hex().to_string();
    if let Some(o) = cache.lock().unwrap().get(&k) {
        return o.clone();
    }
    src.dirs = vec!["p".into(), "home".into(), "cache".into()];
    proj::restore(&sb.root, &src);
    let o = c04::run_and_observe(sb, cmd);
    cache.lock().unwrap().insert(k, o.clone());
    o
}

/// recovery must reproduce every output of the clean build; leftovers are not outputs.
fn compare(rec: &Obs, clean: &Obs) -> Option<&'static str> {
    if rec.panicked {
        return Some("panic");
    }
    if rec.exit != clean.exit {
        return Some("exit");
    }
    if rec.diags != clean.diags {
        return Some("diagnostics");
    }
    for (f, h) in &clean.outputs {
        if f.ends_with("Veryl.lock") {
            continue;
        }
        if rec.outputs.get(f) != Some(h) {
            return Some("outputs");
        }
    }
    None
}

struct StartState {
    name: &'static str,
    snap: Snap,
    /// the file edited last (target of the "revert" follow-ups)
    edited: Option<(&'static str, &'static str)>, // (file, previous variant)
}

fn make_start_states(sb: &Sandbox, thorough: bool) -> Result<Vec<StartState>, String> {
    let mut v = vec![];
    proj::restore(&sb.root, &Snap { files: BTreeMap::new(), dirs: vec!["p".into(), "home".into(), "cache".into()] });
    c04::base_project(sb, thorough, true);
    let fresh = proj::snapshot(&sb.root);
    v.push(StartState { name: "fresh", snap: fresh.clone(), edited: None });
    let out = sb.veryl(&["build"]);
    if out.code != 0 {
        return Err(format!("base project does not build: {}", out.stderr));
    }
    let built = proj::snapshot(&sb.root);
    let mut mk = |name: &'static str, e: Edit, file: &'static str| {
        let mut s = built.clone();
        c04::apply_edit(&mut s, &e);
        v.push(StartState { name, snap: s, edited: Some((file, "v0")) });
    };
    mk("built+set-a-v1", Edit::Set("src/a.veryl".into(), "v1".into()), "src/a.veryl");
    mk("built+set-pkg-v1", Edit::Set("src/pkg.veryl".into(), "v1".into()), "src/pkg.veryl");
    if thorough {
        mk("built+set-a-warn", Edit::Set("src/a.veryl".into(), "warn".into()), "src/a.veryl");
        mk("built+set-b-v1", Edit::Set("src/b.veryl".into(), "v1".into()), "src/b.veryl");
        mk("built+rm-b", Edit::Remove("src/b.veryl".into()), "src/b.veryl");
        mk("built+toml-strip", Edit::TomlStrip, "Veryl.toml");
    }
    Ok(v)
}

fn follow_ups(st: &StartState, thorough: bool) -> Vec<Vec<Edit>> {
    let mut f: Vec<Vec<Edit>> = vec![vec![]];
    if let Some((file, prev)) = st.edited {
        if file != "Veryl.toml" {
            f.push(vec![Edit::OldSet(file.into(), prev.into())]); // revert, old mtime preserved
            if thorough {
                f.push(vec![Edit::Set(file.into(), prev.into())]); // revert, new mtime
            }
        }
    }
    if thorough {
        f.push(vec![Edit::Set("src/b.veryl".into(), "v1".into())]);
        f.push(vec![Edit::Touch("src/a.veryl".into())]);
    }
    f
}

#[derive(Clone)]
struct Damage {
    file: String, // relative to sandbox root, e.g. p/.build/cache/manifest.toml
    kind: String, // delete | trunc:<n> | xor:<i>:<mask> | swap:<other>
}

fn apply_damage(s: &mut Snap, d: &Damage) -> bool {
    let Some((data, mt)) = s.files.get(&d.file).cloned() else { return false };
    let parts: Vec<&str> = d.kind.split(':').collect();
    match parts[0] {
        "delete" => {
            s.files.remove(&d.file);
            true
        }
        "trunc" => {
            let n: usize = parts[1].parse().unwrap();
            if n >= data.len() {
                return false;
            }
            s.files.insert(d.file.clone(), (data[..n].to_vec(), mt));
            true
        }
        "xor" => {
            let i: usize = parts[1].parse().unwrap();
            let m: u8 = parts[2].parse().unwrap();
            if i >= data.len() {
                return false;
            }
            let mut x = data.clone();
            x[i] ^= m;
            s.files.insert(d.file.clone(), (x, mt));
            true
        }
        "swap" => {
            let other = parts[1..].join(":");
            let Some((od, _)) = s.files.get(&other).cloned() else { return false };
            if od == data {
                return false;
            }
            s.files.insert(d.file.clone(), (od, mt));
            true
        }
        _ => false,
    }
}

fn file_kind(rel: &str) -> &'static str {
    if rel.ends_with("manifest.toml") {
        "manifest"
    } else if rel.ends_with(".frag") {
        "blob"
    } else if rel.ends_with("info.toml") {
        "info"
    } else if rel.ends_with("test_timings") {
        "test_timings"
    } else {
        "other"
    }
}

pub fn run(ctx: &Ctx) -> Report {
    let mut rep = Report::new(Level::FaultEnumeration);
    if let Err(e) = proj::ensure_canon() {
        rep.machinery(e);
        return rep;
    }
    if !Path::new("/usr/bin/strace").exists() {
        rep.machinery("strace not found (needed for syscall-level crash injection)");
        return rep;
    }
    let budget = ctx.budget(55.0, 2400.0);
    let nthreads = rayon::current_num_threads().max(1);
    let sandboxes: Vec<Sandbox> = (0..nthreads + 1).map(|i| Sandbox::new(&ctx.scratch.join(format!("w{i}")))).collect();
    let sb0 = &sandboxes[nthreads];
    let starts = match make_start_states(sb0, ctx.thorough()) {
        Ok(x) => x,
        Err(e) => {
            rep.machinery(e);
            return rep;
        }
    };
    let clean_cache: Mutex<HashMap<String, Obs>> = Mutex::new(HashMap::new());
    let crash_cmds: Vec<&str> = if ctx.thorough() { vec!["build", "check", "test --backend cranelift"] } else { vec!["build"] };

    // ---------------------------------------------------------------- crash enumeration
    struct CrashTask<'a> {
        st: &'a StartState,
        cmd: &'a str,
        cp: CrashPoint,
        idx: usize,
        total: usize,
        /// which kinds of mutation had completed before the kill: O = an output file (target/map/
        /// filelist) was opened for writing, M = manifest renamed into place, I = info.toml opened
        phase: String,
    }
    let mut tasks: Vec<CrashTask> = vec![];
    let mut points_per: Vec<Value> = vec![];
    let part = std::env::var("VMC_C05_PART").unwrap_or_default(); // development aid: "crash" | "damage"
    for st in &starts {
        if part == "damage" {
            break;
        }
        for cmd in &crash_cmds {
            proj::restore(&sb0.root, &st.snap);
            match strace_trace(sb0, cmd) {
                Ok(cps) => {
                    points_per.push(json!({"state": st.name, "command": cmd, "crash_points": cps.len()}));
                    let total = cps.len();
                    let (mut o, mut m, mut i) = (false, false, false);
                    for (idx, cp) in cps.into_iter().enumerate() {
                        let phase = format!("O{}M{}I{}", o as u8, m as u8, i as u8);
                        let l = cp.label.clone();
                        tasks.push(CrashTask { st, cmd, cp, idx, total, phase });
                        if l.starts_with("openat:target/") || l.starts_with("openat:map/") || (l.starts_with("openat:") && l.ends_with(".f")) {
                            o = true;
                        }
                        if l.starts_with("rename") && l.ends_with("manifest.toml") {
                            m = true;
                        }
                        if l.starts_with("openat:") && l.ends_with("info.toml") {
                            i = true;
                        }
                    }
                }
                Err(e) => {
                    rep.machinery(format!("strace trace failed: {e}"));
                    return rep;
                }
            }
        }
    }
    let evaluations = std::sync::atomic::AtomicU64::new(0);
    let changed = std::sync::atomic::AtomicU64::new(0);
    let capped = std::sync::atomic::AtomicBool::new(false);
    let distinct_crash_states: Mutex<HashSet<[u8; 32]>> = Mutex::new(HashSet::new());
    let viols: Mutex<Vec<Violation>> = Mutex::new(vec![]);
    let kill_misses = std::sync::atomic::AtomicU64::new(0);

    tasks.par_iter().for_each(|t| {
        if ctx.elapsed() > budget * 0.6 {
            capped.store(true, std::sync::atomic::Ordering::Relaxed);
            return;
        }
        let sb = &sandboxes[rayon::current_thread_index().unwrap_or(0)];
        proj::restore(&sb.root, &t.st.snap);
        let out = strace_kill(sb, t.cmd, &t.cp);
        if out.signal != Some(9) && out.code != 137 {
            // the run is deterministic, so the n-th call must exist; a miss is a harness problem
            kill_misses.fetch_add(1, std::sync::atomic::Ordering::Relaxed);
            return;
        }
        let crashed = proj::snapshot(&sb.root);
        let ck = c04::state_key(&crashed);
        distinct_crash_states.lock().unwrap().insert(ck);
        if ck != c04::state_key(&t.st.snap) {
            changed.fetch_add(1, std::sync::atomic::Ordering::Relaxed);
        }
        for fu in follow_ups(t.st, ctx.thorough()) {
            let mut s = crashed.clone();
            let mut ok = true;
            for e in &fu {
                ok &= c04::apply_edit(&mut s, e);
            }
            if !ok && !fu.is_empty() {
                continue;
            }
            proj::restore(&sb.root, &s);
            let rec = c04::run_and_observe(sb, "build");
            let clean = clean_obs(sb, &s, "build", &clean_cache);
            evaluations.fetch_add(1, std::sync::atomic::Ordering::Relaxed);
            if let Some(field) = compare(&rec, &clean) {
                let fu_text: Vec<String> = fu.iter().map(|e| e.text()).collect();
                let fu_kind: Vec<String> = fu.iter().map(|e| e.text().split(' ').next().unwrap().to_string()).collect();
                viols.lock().unwrap().push(Violation {
                    signature: format!("C05:crash:{}:{}:followup[{}]:{}", t.cmd.replace(' ', "_"), t.phase, fu_kind.join(","), field),
                    what: format!(
                        "after `veryl {}` is killed before {} (crash point {}/{} from state {}), follow-up {:?}, the recovery build differs from a clean build in {}",
                        t.cmd, t.cp.label, t.idx + 1, t.total, t.st.name, fu_text, field
                    ),
                    case: json!({"engine":"E4-crash","state": t.st.name, "command": t.cmd, "syscall": t.cp.syscall, "nth": t.cp.nth, "label": t.cp.label, "phase": t.phase, "follow_up": fu_text}),
                    expected: c04::obs_json(&clean),
                    observed: c04::obs_json(&rec),
                });
            }
        }
    });

    // ---------------------------------------------------------------- damage enumeration
    // state: built with a warning in a.veryl fixed by check (so a diagnostics blob exists) is not
    // reachable through `build` alone; use `check` on the warn variant, then build.
    proj::restore(&sb0.root, &starts[0].snap);
    sb0.write("src/b.veryl", &fixture::content("src/b.veryl", "warn"));
    // a user of the package's function, so that an interface change of pkg.veryl is only
    // noticed by a dependent's pass 2 (a lost `dependents` list then shows as a wrong restore)
    sb0.write("src/c.veryl", &fixture::content("src/c.veryl", "v0"));
    sb0.veryl(&["build"]);
    let dstate = proj::snapshot(&sb0.root);
    let build_files: Vec<String> = dstate
        .files
        .keys()
        .filter(|k| k.starts_with("p/.build/") && !k.ends_with("/lock"))
        .cloned()
        .collect();
    let blobs: Vec<String> = build_files.iter().filter(|k| k.ends_with(".frag")).cloned().collect();
    // smallest blob first (quick tier damages only the smallest)
    let mut blobs_sorted = blobs.clone();
    blobs_sorted.sort_by_key(|b| dstate.files[b].0.len());
    let mut damages: Vec<(Damage, Vec<Edit>, &'static str)> = vec![];
    let iface = vec![Edit::Set("src/pkg.veryl".into(), "iface".into())];
    let fu_sets: Vec<Vec<Edit>> = if ctx.thorough() {
        vec![vec![], vec![Edit::Touch("src/a.veryl".into())], vec![Edit::Set("src/b.veryl".into(), "v1".into())], iface.clone()]
    } else {
        vec![vec![Edit::Touch("src/a.veryl".into())], iface.clone()]
    };
    for f in &build_files {
        let len = dstate.files[f].0.len();
        let kind = file_kind(f);
        let full = ctx.thorough() || kind == "manifest" || kind == "info" || Some(f) == blobs_sorted.first();
        let mut kinds: Vec<String> = vec!["delete".into()];
        for n in [0usize, 1, 4, 7, 8, 9, len / 2, len.saturating_sub(1)] {
            if n < len {
                kinds.push(format!("trunc:{n}"));
            }
        }
        if kind == "manifest" || kind == "info" {
            // a torn text file: every line boundary (a writer killed between two lines, a
            // file system that persisted only whole blocks ...)
            let data = &dstate.files[f].0;
            for (i, b) in data.iter().enumerate() {
                if *b == b'\n' && i + 1 < len {
                    kinds.push(format!("trunc:{}", i + 1));
                }
            }
        }
        if full {
            for i in 0..len {
                kinds.push(format!("xor:{i}:1"));
                if ctx.thorough() || kind == "blob" {
                    kinds.push(format!("xor:{i}:128"));
                }
            }
        } else {
            // header region only (magic, version, first fields)
            for i in 0..len.min(16) {
                kinds.push(format!("xor:{i}:1"));
            }
        }
        if kind == "blob" {
            for o in &blobs {
                if o != f {
                    kinds.push(format!("swap:{o}"));
                }
            }
        }
        kinds.sort();
        kinds.dedup();
        for k in kinds {
            for fu in &fu_sets {
                for cmd in if ctx.thorough() { vec!["build", "check"] } else { vec!["build"] } {
                    damages.push((Damage { file: f.clone(), kind: k.clone() }, fu.clone(), cmd));
                }
            }
        }
    }
    // order: manifest and info.toml first, deletions and truncations before byte flips, so that a
    // budget cap cuts the long tail of blob byte flips and not the structural damages
    damages.sort_by_key(|(d, _, _)| {
        let fk = match file_kind(&d.file) {
            "manifest" => 0,
            "info" => 1,
            _ => 2,
        };
        let dk = if d.kind.starts_with("xor") { 1 } else { 0 };
        (dk, fk)
    });
    if part == "crash" {
        damages.clear();
    }
    let damage_total = damages.len();
    let damage_done = std::sync::atomic::AtomicU64::new(0);
    let damage_outcomes: Mutex<BTreeSet<String>> = Mutex::new(BTreeSet::new());
    damages.par_iter().for_each(|(d, fu, cmd)| {
        if ctx.elapsed() > budget {
            capped.store(true, std::sync::atomic::Ordering::Relaxed);
            return;
        }
        let sb = &sandboxes[rayon::current_thread_index().unwrap_or(0)];
        let mut s = dstate.clone();
        if !apply_damage(&mut s, d) {
            return;
        }
        for e in fu {
            c04::apply_edit(&mut s, e);
        }
        proj::restore(&sb.root, &s);
        let rec = c04::run_and_observe(sb, cmd);
        let clean = clean_obs(sb, &s, cmd, &clean_cache);
        damage_done.fetch_add(1, std::sync::atomic::Ordering::Relaxed);
        damage_outcomes.lock().unwrap().insert(format!("exit{}diag{}", rec.exit, rec.diags.len()));
        if let Some(field) = compare(&rec, &clean) {
            let dk = d.kind.split(':').next().unwrap().to_string();
            let region = if dk == "xor" {
                let i: usize = d.kind.split(':').nth(1).unwrap().parse().unwrap();
                if file_kind(&d.file) == "blob" && i < 8 { "header" } else { "body" }
            } else {
                ""
            };
            let fu_text: Vec<String> = fu.iter().map(|e| e.text()).collect();
            viols.lock().unwrap().push(Violation {
                signature: format!("C05:damage:{}:{}{}:{}:{}", file_kind(&d.file), dk, region, cmd, field),
                what: format!("after damaging {} ({}) and follow-up {:?}, `veryl {}` differs from a clean build in {}", d.file, d.kind, fu_text, cmd, field),
                case: json!({"engine":"E4-damage","state":"built(b=warn)","file": d.file, "damage": d.kind, "follow_up": fu_text, "command": cmd}),
                expected: c04::obs_json(&clean),
                observed: c04::obs_json(&rec),
            });
        }
    });

    // collapse violations by signature keeping the first
    let mut seen = HashSet::new();
    let mut all = viols.into_inner().unwrap();
    all.sort_by(|a, b| a.signature.cmp(&b.signature));
    let mut per_sig: BTreeMap<String, u64> = BTreeMap::new();
    for v in all {
        *per_sig.entry(v.signature.clone()).or_insert(0) += 1;
        if seen.insert(v.signature.clone()) {
            rep.violation(v);
        }
    }
    let ev = evaluations.load(std::sync::atomic::Ordering::Relaxed);
    let dd = damage_done.load(std::sync::atomic::Ordering::Relaxed);
    let is_capped = capped.load(std::sync::atomic::Ordering::Relaxed);
    rep.set("evaluations", ev + dd);
    rep.set("crash_recoveries", ev);
    rep.set("crash_points_total", tasks.len() as u64);
    rep.set("crash_points_by_state", json!(points_per));
    rep.set("crash_runs_that_changed_disk", changed.load(std::sync::atomic::Ordering::Relaxed));
    rep.set("distinct_crashed_states", distinct_crash_states.lock().unwrap().len() as u64);
    rep.set("damage_cases_total", damage_total as u64);
    rep.set("damage_cases_run", dd);
    rep.set("distinct_damage_outcomes", damage_outcomes.lock().unwrap().len() as u64);
    rep.set(
        "distinct_nontrivial",
        distinct_crash_states.lock().unwrap().len() as u64 + dd,
    );
    rep.set("violation_cases_by_signature", json!(per_sig));
    rep.set("capped_by_budget", is_capped);
    rep.set("exhaustive", !is_capped);
    rep.set(
        "rule",
        "crash: every mutating system call of the main thread of `veryl <cmd>` (found by strace) is a crash point; the process is SIGKILLed before it, then follow-up edit, then `veryl build`, compared with a clean build of the same sources; non-trivial = distinct crashed on-disk states. damage: every .build file x {delete, truncations, every byte xor mask, blob swap}; non-trivial = every applied damage (all change >= 1 byte)",
    );
    rep.sample(json!({"crash_point_labels": tasks.iter().take(12).map(|t| format!("{}#{}", t.cp.label, t.cp.nth)).collect::<Vec<_>>() }));
    rep.sample(json!({"damage": damages.iter().take(5).map(|(d, fu, c)| json!({"file": d.file, "kind": d.kind, "follow_up": fu.iter().map(|e| e.text()).collect::<Vec<_>>(), "cmd": c})).collect::<Vec<_>>() }));
    rep.assume("a process death cannot tear a single write(2) to a regular file; crash states are those before each system call");
    rep.assume("only the main thread performs file mutations (checked: other threads' mutating calls would be missing from the crash list)");
    // The system-call sequence of a build is not perfectly reproducible: fragment blobs are not
    // byte-stable between runs (hash-map order inside the payload), and an identical blob that
    // already exists is not rewritten, so the n-th call of the traced run may not exist in the
    // re-run. Such a crash point is simply not reached; it is counted, and only a high miss rate
    // (the trace does not describe the command at all) is a machinery failure.
    let km = kill_misses.load(std::sync::atomic::Ordering::Relaxed);
    rep.set("crash_points_not_reached_in_rerun", km);
    if km > 0 {
        rep.notes.push(format!("{km} crash point(s) of the traced run did not occur in the re-run (non-reproducible blob writes); not judged"));
    }
    if !tasks.is_empty() && km as usize * 5 > tasks.len() {
        rep.machinery(format!("{km} of {} crash runs were not killed at the requested system call (trace not reproducible)", tasks.len()));
    }
    if part.is_empty() && (tasks.is_empty() || ev == 0) {
        rep.machinery("vacuity guard: no crash point explored");
    }
    rep
}

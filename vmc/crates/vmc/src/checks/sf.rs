//! SF — hand-enumerated finite SystemVerilog family for C22 (translator subset).
//!
//! Every member is a complete SystemVerilog text whose top module is `m`, with data inputs of at
//! most 4 bits in total, at most one clock and one reset. Each `class` isolates ONE SystemVerilog
//! construct (it is part of a finding's signature); inside a class the members are the cross
//! product template x small width pairs x signedness.

use super::df::{Port, pin};
use serde::{Deserialize, Serialize};

#[derive(Clone, Debug, Serialize, Deserialize)]
pub struct SvCase {
    pub id: String,
    pub class: String,
    /// "sf" | "roundtrip" | "fixture"
    pub origin: String,
    pub core: bool,
    pub sv: String,
    pub top: String,
    pub inputs: Vec<Port>,
    pub outputs: Vec<Port>,
    /// clock port, active edge is the rising one
    pub clock: Option<(String, bool)>,
    /// reset port, active high, asynchronous (in the sensitivity list)
    pub reset: Option<(String, bool, bool)>,
}

fn dim(w: usize) -> String {
    if w == 1 { String::new() } else { format!("[{}:0] ", w - 1) }
}

fn port_decl(dir: &str, p: &Port) -> String {
    format!("    {dir} logic {}{}{}", if p.signed { "signed " } else { "" }, dim(p.width), p.name)
}

pub struct S {
    pub out: Vec<SvCase>,
}

#[derive(Clone, Copy, PartialEq, Eq, Debug)]
pub enum Rst {
    None,
    SyncHigh,
    SyncLow,
    AsyncHigh,
    AsyncLow,
}

impl S {
    /// `pre`: text before module `m`; `params`: parameter port list text ("" or "#(...)");
    /// `clk`: Some(rising); `rst`: (port name, kind).
    #[allow(clippy::too_many_arguments)]
    pub fn add(&mut self, id: &str, class: &str, core: bool, pre: &str, params: &str, ins: Vec<Port>, outs: Vec<Port>, clk: Option<bool>, rst: Option<(&str, Rst)>, body: &str) {
        let mut ports = vec![];
        if clk.is_some() {
            ports.push("    input logic clk".to_string());
        }
        if let Some((n, _)) = rst {
            ports.push(format!("    input logic {n}"));
        }
        for p in &ins {
            ports.push(port_decl("input", p));
        }
        for p in &outs {
            ports.push(port_decl("output", p));
        }
        self.add_raw(id, class, core, pre, params, &ports.join(",\n"), ins, outs, clk, rst, body);
    }

    /// like `add` with a hand-written port list text
    #[allow(clippy::too_many_arguments)]
    pub fn add_raw(&mut self, id: &str, class: &str, core: bool, pre: &str, params: &str, ports: &str, ins: Vec<Port>, outs: Vec<Port>, clk: Option<bool>, rst: Option<(&str, Rst)>, body: &str) {
        let mut sv = String::new();
        if !pre.is_empty() {
            sv.push_str(pre.trim_matches('\n'));
            sv.push_str("\n\n");
        }
        let sp = if params.is_empty() { String::new() } else { format!(" {params}") };
        sv.push_str(&format!("module m{sp} (\n{ports}\n);\n{}\nendmodule\n", body.trim_matches('\n')));
        let nbits: usize = ins.iter().map(|p| p.width).sum();
        assert!(nbits <= 4, "{id}: {nbits} input bits");
        assert!(!self.out.iter().any(|d| d.id == id), "duplicate SF id {id}");
        let reset = rst.and_then(|(n, k)| match k {
            Rst::None => None,
            Rst::SyncHigh => Some((n.to_string(), true, false)),
            Rst::SyncLow => Some((n.to_string(), false, false)),
            Rst::AsyncHigh => Some((n.to_string(), true, true)),
            Rst::AsyncLow => Some((n.to_string(), false, true)),
        });
        self.out.push(SvCase {
            id: id.to_string(),
            class: class.to_string(),
            origin: "sf".to_string(),
            core,
            sv,
            top: "m".to_string(),
            inputs: ins,
            outputs: outs,
            clock: clk.map(|r| ("clk".to_string(), r)),
            reset,
        });
    }
}

fn su(s: bool) -> &'static str {
    if s { "s" } else { "u" }
}

const BINOPS: [(&str, &str); 27] = [
    ("+", "add"), ("-", "sub"), ("*", "mul"), ("/", "div"), ("%", "mod"), ("**", "pow"),
    ("&", "and"), ("|", "or"), ("^", "xor"), ("~^", "xnor"), ("^~", "xnor2"),
    ("<<", "shl"), (">>", "shr"), ("<<<", "ashl"), (">>>", "ashr"),
    ("<", "lt"), ("<=", "le"), (">", "gt"), (">=", "ge"),
    ("==", "eq"), ("!=", "ne"), ("===", "ceq"), ("!==", "cne"), ("==?", "weq"), ("!=?", "wne"),
    ("&&", "land"), ("||", "lor"),
];

const UNOPS: [(&str, &str); 11] = [
    ("+", "plus"), ("-", "neg"), ("~", "not"), ("!", "lnot"),
    ("&", "rand"), ("|", "ror"), ("^", "rxor"), ("~&", "rnand"), ("~|", "rnor"), ("~^", "rxnor"), ("^~", "rxnor2"),
];

fn ops(s: &mut S) {
    let pairs: [(usize, usize); 5] = [(2, 2), (1, 3), (3, 1), (1, 2), (2, 1)];
    for (op, name) in BINOPS {
        for (pi, (wa, wb)) in pairs.iter().enumerate() {
            for sa in [false, true] {
                for sb in [false, true] {
                    let core = pi == 0 && sa == sb;
                    let wm = (*wa).max(*wb);
                    let body = format!("    assign y1 = a {op} b;\n    assign ym = a {op} b;\n    assign y6 = a {op} b;\n    assign ys = a {op} b;");
                    s.add(
                        &format!("op.{name}.{wa}{}{wb}{}", su(sa), su(sb)),
                        &format!("op.{name}"),
                        core,
                        "",
                        "",
                        vec![pin("a", *wa, sa), pin("b", *wb, sb)],
                        vec![pin("y1", 1, false), pin("ym", wm, false), pin("y6", 6, false), pin("ys", 5, true)],
                        None,
                        None,
                        &body,
                    );
                }
            }
        }
    }
    // wildcard comparison against literals carrying x / z / ?
    for (op, name) in [("==?", "weq"), ("!=?", "wne")] {
        for (li, lit) in ["2'b1x", "2'bx0", "2'bz1", "2'b?1"].iter().enumerate() {
            s.add(&format!("op.{name}.lit{li}"), &format!("op.{name}.xzlit"), li == 0, "", "", vec![pin("a", 2, false)], vec![pin("y", 1, false), pin("y3", 3, false)], None, None,
                &format!("    assign y = a {op} {lit};\n    assign y3 = a {op} {lit};"));
        }
    }
    for (op, name) in UNOPS {
        for w in 1..=4usize {
            for sa in [false, true] {
                let core = w == 2;
                s.add(
                    &format!("unary.{name}.{w}{}", su(sa)),
                    &format!("unary.{name}"),
                    core,
                    "",
                    "",
                    vec![pin("a", w, sa)],
                    vec![pin("y1", 1, false), pin("y4", 4, false), pin("ys", 5, true)],
                    None,
                    None,
                    &format!("    assign y1 = {op}a;\n    assign y4 = {op}a;\n    assign ys = {op}a;"),
                );
            }
        }
    }
}

/// one expression per member: (class suffix, member suffix, expression, core)
fn exprs(s: &mut S) {
    let list: Vec<(&str, &str, &str, bool)> = vec![
        ("concat", "ab", "{a, b}", true),
        ("concat", "lit", "{b, a, 1'b1}", false),
        ("concat", "nested", "{a, {b, a[0]}}", false),
        ("repl", "2a", "{2{a}}", true),
        ("repl", "3b", "{3{b}}", false),
        ("repl", "mixed", "{a, {2{b}}}", false),
        ("repl", "param", "{L{a}}", false),
        ("select", "bit0", "a[0]", true),
        ("select", "bitvar", "c[b]", true),
        ("select", "range", "c[2:1]", true),
        ("select", "pluscolon", "c[b+:2]", true),
        ("select", "minuscolon", "c[3-:2]", false),
        ("select", "minuscolonvar", "c[b-:2]", false),
        ("select", "pluscolonparam", "c[1+:L]", false),
        ("ternary", "simple", "b[0] ? a : ~a", true),
        ("ternary", "nested", "b[1] ? a : b[0] ? ~a : 2'd1", true),
        ("ternary", "inconcat", "{b[0] ? a : 2'd0, b}", false),
        ("ternary", "parencond", "(a == b) ? a : b", false),
        ("literal", "dec", "a + 4'd3", true),
        ("literal", "bin", "a ^ 4'b1010", false),
        ("literal", "hex", "a | 6'h2A", false),
        ("literal", "oct", "a | 6'o17", false),
        ("literal", "unsized", "a + 3", true),
        ("literal", "fill1", "'1", true),
        ("literal", "fill0", "a & '0", false),
        ("literal", "fill1ctx", "a + '1", false),
        ("literal", "signeddec", "a + 4'sd3", true),
        ("literal", "negsigned", "-4'sd3", false),
        ("literal", "unsizedhex", "a + 'h3", false),
        ("literal", "unsizeddec", "a + 'd5", false),
        ("literal", "underscore", "a ^ 4'b1_0_1_0", false),
        ("literal", "upperbase", "a ^ 4'B1010", false),
        ("literal", "spaced", "a + 4 'd 3", false),
        ("literal", "trunc", "8'hF5", false),
        ("cast", "size", "4'(a) + 4'(b)", true),
        ("cast", "sizeparam", "L'(a)", false),
        ("cast", "signedcast", "signed'(a) >>> 1", true),
        ("cast", "unsignedcast", "unsigned'(sa) >>> 1", false),
        ("cast", "dollarsigned", "$signed(a) >>> 1", true),
        ("cast", "dollarunsigned", "$unsigned(sa) >>> 1", false),
        ("cast", "int", "int'(a) + 1", false),
        ("cast", "sizeinexpr", "a + 6'(sa)", false),
        ("sysfn", "clog2", "$clog2(L + 5)", true),
        ("sysfn", "bits", "$bits(c)", false),
        ("sysfn", "countones", "$countones(c)", false),
        ("sysfn", "onehot", "$onehot(c)", false),
        ("prec", "and_eq", "a & b == 2'd1", true),
        ("prec", "eq_and", "a == b & 2'd1", true),
        ("prec", "or_and", "a | b & 2'd2", false),
        ("prec", "xor_or", "a ^ b | 2'd1", false),
        ("prec", "lor_land", "a[0] || a[1] && b[0]", true),
        ("prec", "land_lor", "a[0] && a[1] || b[0]", false),
        ("prec", "add_shl", "a + b << 1", false),
        ("prec", "shl_add", "a << 1 + b[0]", false),
        ("prec", "shl_lt", "a << 1 <= b", false),
        ("prec", "lt_eq", "a <= b == b[0]", true),
        ("prec", "eq_lt", "a[0] == a <= b", false),
        ("prec", "neg_pow", "-a ** 2", false),
        ("prec", "mul_add", "a + b * 2'd3", false),
        ("prec", "not_eq", "!a == b[0]", false),
        ("prec", "and_xor", "a & b ^ 2'd3", false),
        ("prec", "eq_shl", "a == b << 1", false),
        ("inside", "list", "a inside {2'd1, 2'd2}", true),
        ("inside", "range", "c inside {[4'd3:4'd9]}", false),
        ("paren", "nested", "((a + b) & (a | b))", true),
        ("paren", "redund", "(a) + ((b))", false),
        ("comment", "block", "a /* x */ + b", false),
    ];
    for (cls, name, e, core) in list {
        s.add(
            &format!("expr.{cls}.{name}"),
            &format!("expr.{cls}"),
            core,
            "",
            "",
            vec![pin("a", 2, false), pin("b", 2, false)],
            vec![pin("y1", 1, false), pin("y4", 4, false), pin("y6", 6, false), pin("ys", 5, true)],
            None,
            None,
            &format!("    localparam int L = 2;\n    logic [3:0] c;\n    logic signed [1:0] sa;\n    assign c = {{a, b}};\n    assign sa = a;\n    assign y1 = {e};\n    assign y4 = {e};\n    assign y6 = {e};\n    assign ys = {e};"),
        );
    }
}

fn ab() -> Vec<Port> {
    vec![pin("a", 2, false), pin("b", 2, false)]
}
fn y4() -> Vec<Port> {
    vec![pin("y", 4, false)]
}

fn decls(s: &mut S) {
    // (member, class, core, body)
    let list: Vec<(&str, &str, bool, &str)> = vec![
        ("logic", "decl.logic", true, "    logic [3:0] t;\n    assign t = {a, b};\n    assign y = t + 4'd1;"),
        ("wire", "decl.wire", true, "    wire [3:0] t;\n    assign t = {a, b};\n    assign y = t + 4'd1;"),
        ("wireinit", "decl.wire_init", true, "    wire [3:0] t = {a, b};\n    assign y = t + 4'd1;"),
        ("reg", "decl.reg", false, "    reg [3:0] t;\n    always_comb t = {a, b};\n    assign y = t;"),
        ("varkw", "decl.var_keyword", false, "    var logic [3:0] t;\n    assign t = {a, b};\n    assign y = t;"),
        ("signed", "decl.signed", true, "    logic signed [1:0] t;\n    assign t = a;\n    assign y = t;"),
        ("signedshift", "decl.signed", false, "    logic signed [2:0] t;\n    assign t = {a, b[0]};\n    assign y = t >>> 1;"),
        ("unsigned", "decl.unsigned_keyword", false, "    logic unsigned [1:0] t;\n    assign t = a;\n    assign y = t;"),
        ("multi", "decl.multi_names", true, "    logic [1:0] s, t;\n    assign s = a & b;\n    assign t = a | b;\n    assign y = {s, t};"),
        ("lownonzero", "decl.dim_low_nonzero", true, "    logic [2:1] t;\n    assign t = a;\n    assign y = {b, t};"),
        ("ascending", "decl.dim_ascending", true, "    logic [0:1] t;\n    assign t = a;\n    assign y = {b, t};"),
        ("expr", "decl.dim_expr", true, "    localparam int W = 2;\n    logic [W*2-1:0] t;\n    assign t = {a, b};\n    assign y = t;"),
        ("exprminus", "decl.dim_expr", false, "    localparam int W = 5;\n    logic [W-1-1:0] t;\n    assign t = {a, b};\n    assign y = t;"),
        ("exprparen", "decl.dim_expr", false, "    localparam int W = 2;\n    logic [(W+2)-1:0] t;\n    assign t = {a, b};\n    assign y = t;"),
        ("exprplus", "decl.dim_expr", false, "    localparam int W = 1;\n    logic [W+2:0] t;\n    assign t = {a, b};\n    assign y = t;"),
        ("exprshift", "decl.dim_expr", false, "    localparam int W = 1;\n    logic [W<<1:0] t;\n    assign t = {a, b[0]};\n    assign y = t;"),
        ("packed2d", "decl.packed_2d", true, "    logic [1:0][1:0] t;\n    assign t[0] = a;\n    assign t[1] = b;\n    assign y = t;"),
        ("unpacked", "decl.unpacked_array", true, "    logic [1:0] t [0:1];\n    assign t[0] = a;\n    assign t[1] = b;\n    assign y = {t[1], t[0]};"),
        ("unpackedsize", "decl.unpacked_array", false, "    logic [1:0] t [2];\n    assign t[0] = a;\n    assign t[1] = b;\n    assign y = {t[1], t[0]};"),
        ("bit", "decl.bit", false, "    bit [3:0] t;\n    assign t = {a, b};\n    assign y = t;"),
        ("int", "decl.int", false, "    int t;\n    assign t = {a, b};\n    assign y = t[3:0];"),
        ("byte", "decl.byte", true, "    byte t;\n    assign t = {a, b, 4'hf};\n    assign y = t >>> 4;"),
        ("integer", "decl.integer", false, "    integer t;\n    assign t = {a, b};\n    assign y = t[3:0];"),
        ("intunsigned", "decl.int_unsigned", false, "    int unsigned t;\n    assign t = {28'hfffffff, a, b};\n    assign y = t >>> 28;"),
        ("scalar", "decl.scalar", false, "    logic t;\n    assign t = a[0] ^ b[0];\n    assign y = {t, t, t, t};"),
        ("assignlist", "assign.list", true, "    logic [1:0] s, t;\n    assign s = a & b, t = a | b;\n    assign y = {s, t};"),
        ("assignsel", "assign.select_lhs", true, "    assign y[1:0] = a;\n    assign y[3:2] = b;"),
        ("assignbit", "assign.select_lhs", false, "    assign y[0] = a[0];\n    assign y[3:1] = {b, a[1]};"),
        ("assignconcat", "assign.concat_lhs", true, "    logic [1:0] s, t;\n    assign {s, t} = {a, b} + 4'd1;\n    assign y = {t, s};"),
    ];
    for (name, class, core, body) in list {
        s.add(&format!("{class}.{name}"), class, core, "", "", ab(), y4(), None, None, body);
    }
    // port declaration forms
    let plist: Vec<(&str, &str, bool, &str)> = vec![
        ("implicit", "port.implicit_type", true, "    input [1:0] a,\n    input [1:0] b,\n    output [3:0] y"),
        ("wire", "port.wire", true, "    input wire [1:0] a,\n    input wire [1:0] b,\n    output wire [3:0] y"),
        ("var", "port.var", false, "    input var logic [1:0] a,\n    input var logic [1:0] b,\n    output var logic [3:0] y"),
        ("inherit", "port.inherit", true, "    input logic [1:0] a, b,\n    output logic [3:0] y"),
        ("signedimplicit", "port.signed_implicit", false, "    input signed [1:0] a,\n    input [1:0] b,\n    output [3:0] y"),
        ("reg", "port.output_reg", false, "    input [1:0] a,\n    input [1:0] b,\n    output reg [3:0] y"),
        ("bit", "port.bit", false, "    input bit [1:0] a,\n    input bit [1:0] b,\n    output bit [3:0] y"),
    ];
    for (name, class, core, ports) in plist {
        let sa = name == "signedimplicit";
        s.add_raw(&format!("{class}.{name}"), class, core, "", "", ports, vec![pin("a", 2, sa), pin("b", 2, false)], y4(), None, None, "    assign y = a + b;");
    }
}

fn params(s: &mut S) {
    // (member, class, core, header, body)
    let list: Vec<(&str, &str, bool, &str, &str)> = vec![
        ("int", "param.int", true, "#(parameter int W = 3)", "    assign y = a + W;"),
        ("implicit", "param.implicit", true, "#(parameter W = 3)", "    assign y = a + W;"),
        ("nokw", "param.no_keyword", false, "#(int W = 3)", "    assign y = a + W;"),
        ("vector", "param.vector", true, "#(parameter logic [1:0] P = 2'd2)", "    assign y = {P, a};"),
        ("vectorctx", "param.vector", false, "#(parameter logic [1:0] P = 2'd3)", "    assign y = P + a;"),
        ("signedvec", "param.signed_vector", false, "#(parameter logic signed [1:0] P = -2'sd1)", "    assign y = P;"),
        ("implicitsized", "param.implicit_sized", true, "#(parameter P = 2'd2)", "    assign y = {P, a};"),
        ("implicitrange", "param.implicit_range", false, "#(parameter [1:0] P = 2'd2)", "    assign y = {P, a};"),
        ("two", "param.two", true, "#(parameter int W = 2, parameter int V = W + 1)", "    assign y = a + W + V;"),
        ("shared", "param.shared_keyword", false, "#(parameter int W = 2, V = 1)", "    assign y = a + W + V;"),
        ("headerlocal", "param.header_localparam", true, "#(parameter int W = 2, localparam int L = W * 2)", "    logic [L-1:0] t;\n    assign t = {a, b};\n    assign y = t;"),
        ("bodylocal", "param.body_localparam", true, "", "    localparam int K = 3;\n    assign y = a + K;"),
        ("bodylocalvec", "param.body_localparam_vector", true, "", "    localparam logic [1:0] K = 2'd2;\n    assign y = {K, a};"),
        ("bodylocalimplicit", "param.body_localparam_implicit", true, "", "    localparam K = 2'd2;\n    assign y = {K, a};"),
        ("bodylocalsigned", "param.body_localparam_signed", false, "", "    localparam logic signed [2:0] K = -3'sd2;\n    assign y = K;"),
        ("bodyparam", "param.body_parameter", false, "", "    parameter int K = 3;\n    assign y = a + K;"),
        ("bodylist", "param.body_list", false, "", "    localparam int K = 3, J = 1;\n    assign y = a + K + J;"),
        ("width", "param.in_width", true, "#(parameter int W = 4)", "    logic [W-1:0] t;\n    assign t = {a, b};\n    assign y = t + 1'b1;"),
        ("widthplus", "param.in_width", false, "#(parameter int W = 3)", "    logic [W:0] t;\n    assign t = {a, b};\n    assign y = t + 1'b1;"),
        ("widthspace", "param.in_width", false, "#(parameter int W = 4)", "    logic [W - 1 : 0] t;\n    assign t = {a, b};\n    assign y = t + 1'b1;"),
        ("ternary", "param.expr_ternary", false, "#(parameter int W = 2)", "    localparam int D = (W > 1) ? 2 : 1;\n    assign y = a + D;"),
        ("clog2", "param.expr", false, "#(parameter int W = 5)", "    localparam int D = $clog2(W);\n    assign y = a + D;"),
        ("typeparam", "param.type", false, "#(parameter type T = logic [3:0])", "    T t;\n    assign t = {a, b};\n    assign y = t;"),
        ("string", "param.unsized_hex", false, "#(parameter int W = 'h3)", "    assign y = a + W;"),
    ];
    for (name, class, core, hdr, body) in list {
        s.add(&format!("{class}.{name}"), class, core, "", hdr, ab(), y4(), None, None, body);
    }
}

fn comb(s: &mut S) {
    let list: Vec<(&str, &str, bool, &str)> = vec![
        ("single", "comb.single", true, "    always_comb y = {a, b};"),
        ("begin1", "comb.begin_one", true, "    always_comb begin\n        y = {a, b};\n    end"),
        ("multi2", "comb.multi_statement", true, "    always_comb begin\n        y = 4'd0;\n        y[1:0] = a;\n    end"),
        ("multi3", "comb.multi_statement", true, "    always_comb begin\n        y = 4'd0;\n        y[1:0] = a;\n        y[3:2] = b;\n    end"),
        ("named", "comb.named_block", false, "    always_comb begin : blk\n        y = {a, b};\n    end : blk"),
        ("if", "comb.if_else", true, "    always_comb\n        if (a[0]) y = {2'd0, b};\n        else y = {b, 2'd0};"),
        ("ifbegin", "comb.if_else", true, "    always_comb begin\n        if (a[0]) begin\n            y = {2'd0, b};\n        end else begin\n            y = {b, 2'd0};\n        end\n    end"),
        ("ifnoelse", "comb.if_no_else", true, "    always_comb begin\n        y = 4'd5;\n        if (a[0]) y = {2'd0, b};\n    end"),
        ("ifonly", "comb.if_no_else", false, "    logic [3:0] t;\n    assign t = 4'd5;\n    always_comb begin\n        if (a[0]) y = {2'd0, b}; else y = t;\n    end"),
        ("elseif", "comb.else_if", true, "    always_comb begin\n        if (a == 2'd0) y = 4'd1;\n        else if (a == 2'd1) y = {2'd0, b};\n        else if (a == 2'd2) y = {b, 2'd0};\n        else y = 4'd9;\n    end"),
        ("elseifnoelse", "comb.else_if", false, "    always_comb begin\n        y = 4'd7;\n        if (a == 2'd0) y = 4'd1;\n        else if (a == 2'd1) y = {2'd0, b};\n    end"),
        ("nestedif", "comb.nested_if", true, "    always_comb begin\n        if (a[0]) begin\n            if (b[0]) y = 4'd1;\n            else y = 4'd2;\n        end else begin\n            if (b[1]) y = 4'd3;\n            else y = 4'd4;\n        end\n    end"),
        ("danglingelse", "comb.nested_if", false, "    always_comb begin\n        y = 4'd0;\n        if (a[0])\n            if (b[0]) y = 4'd1;\n            else y = 4'd2;\n    end"),
        ("ifmulti", "comb.if_multi_body", true, "    always_comb begin\n        if (a[0]) begin\n            y = 4'd0;\n            y[1:0] = b;\n        end else begin\n            y = 4'd15;\n            y[3:2] = b;\n        end\n    end"),
        ("uniqueif", "comb.unique_if", false, "    always_comb begin\n        unique if (a[0]) y = 4'd1;\n        else y = {b, a};\n    end"),
        ("priorityif", "comb.priority_if", false, "    always_comb begin\n        priority if (a[0]) y = 4'd1;\n        else y = {b, a};\n    end"),
        ("ifparencond", "comb.if_cond_expr", true, "    always_comb begin\n        if ((a == 2'd1) || (b != 2'd0)) y = 4'd1;\n        else y = 4'd2;\n    end"),
        ("ifcondlt", "comb.if_cond_lt", false, "    always_comb begin\n        if (a < b) y = 4'd1;\n        else y = 4'd2;\n    end"),
        ("case", "comb.case", true, "    always_comb begin\n        case (a)\n            2'd0: y = 4'd1;\n            2'd1: y = {2'd0, b};\n            2'd2: y = {b, 2'd0};\n            default: y = 4'd9;\n        endcase\n    end"),
        ("casemulti", "comb.case_multi_label", true, "    always_comb begin\n        case (a)\n            2'd0, 2'd3: y = 4'd1;\n            2'd1: y = {2'd0, b};\n            default: y = 4'd9;\n        endcase\n    end"),
        ("casenodefault", "comb.case_no_default", true, "    always_comb begin\n        y = 4'd6;\n        case (a)\n            2'd0: y = 4'd1;\n            2'd1: y = {2'd0, b};\n        endcase\n    end"),
        ("casebegin", "comb.case_block_body", true, "    always_comb begin\n        case (a)\n            2'd0: begin\n                y = 4'd0;\n                y[1:0] = b;\n            end\n            default: begin\n                y = 4'd15;\n                y[3:2] = b;\n            end\n        endcase\n    end"),
        ("caseemptydefault", "comb.case_empty_default", false, "    always_comb begin\n        y = 4'd6;\n        case (a)\n            2'd0: y = 4'd1;\n            default: ;\n        endcase\n    end"),
        ("casedefaultfirst", "comb.case_default_first", false, "    always_comb begin\n        case (a)\n            default: y = 4'd9;\n            2'd0: y = 4'd1;\n        endcase\n    end"),
        ("caseexpr", "comb.case_expr_label", false, "    always_comb begin\n        case (a)\n            b: y = 4'd1;\n            2'd0: y = 4'd2;\n            default: y = 4'd9;\n        endcase\n    end"),
        ("casezq", "comb.casez", true, "    always_comb begin\n        casez (a)\n            2'b1?: y = 4'd1;\n            2'b01: y = 4'd2;\n            default: y = {2'd0, b};\n        endcase\n    end"),
        ("casezz", "comb.casez", true, "    always_comb begin\n        casez (a)\n            2'b1z: y = 4'd1;\n            2'b01: y = 4'd2;\n            default: y = {2'd0, b};\n        endcase\n    end"),
        ("casex", "comb.casex", true, "    always_comb begin\n        casex (a)\n            2'b1x: y = 4'd1;\n            2'b01: y = 4'd2;\n            default: y = {2'd0, b};\n        endcase\n    end"),
        ("caseplainx", "comb.case_x_label", false, "    always_comb begin\n        case (a)\n            2'b1x: y = 4'd1;\n            2'b01: y = 4'd2;\n            default: y = {2'd0, b};\n        endcase\n    end"),
        ("uniquecase", "comb.unique_case", true, "    always_comb begin\n        unique case (a)\n            2'd0: y = 4'd1;\n            2'd1: y = {2'd0, b};\n            default: y = 4'd9;\n        endcase\n    end"),
        ("prioritycase", "comb.priority_case", false, "    always_comb begin\n        priority case (a)\n            2'd0: y = 4'd1;\n            default: y = {b, a};\n        endcase\n    end"),
        ("unique0case", "comb.unique0_case", false, "    always_comb begin\n        unique0 case (a)\n            2'd0: y = 4'd1;\n            default: y = {b, a};\n        endcase\n    end"),
        ("reversecase", "comb.case_reverse", false, "    always_comb begin\n        case (1'b1)\n            a[0]: y = 4'd1;\n            a[1]: y = 4'd2;\n            default: y = {2'd0, b};\n        endcase\n    end"),
        ("caseinside", "comb.case_inside", false, "    always_comb begin\n        case (a) inside\n            2'd0, 2'd1: y = 4'd1;\n            [2'd2:2'd3]: y = {2'd0, b};\n            default: y = 4'd9;\n        endcase\n    end"),
        ("nestedcase", "comb.nested_case", false, "    always_comb begin\n        case (a)\n            2'd0: case (b)\n                2'd0: y = 4'd1;\n                default: y = 4'd2;\n            endcase\n            default: y = 4'd9;\n        endcase\n    end"),
        ("caseif", "comb.case_with_if", false, "    always_comb begin\n        case (a)\n            2'd0: if (b[0]) y = 4'd1; else y = 4'd2;\n            default: y = 4'd9;\n        endcase\n    end"),
        ("for", "comb.for", true, "    always_comb begin\n        y = 4'd0;\n        for (int i = 0; i < 2; i++) begin\n            y[i] = a[i] ^ b[i];\n        end\n    end"),
        ("forsingle", "comb.for", true, "    always_comb begin\n        for (int i = 0; i < 4; i++) y[i] = a[i % 2] ^ b[i / 2];\n    end"),
        ("foriplus", "comb.for_step_assign", true, "    always_comb begin\n        for (int i = 0; i < 4; i = i + 1) begin\n            y[i] = a[i % 2] & b[i / 2];\n        end\n    end"),
        ("forpluseq", "comb.for_step_pluseq", false, "    always_comb begin\n        for (int i = 0; i < 4; i += 1) begin\n            y[i] = a[i % 2] & b[i / 2];\n        end\n    end"),
        ("forle", "comb.for_le", true, "    always_comb begin\n        y = 4'd0;\n        for (int i = 0; i <= 2; i++) begin\n            y[i] = a[i % 2] | b[i / 2];\n        end\n    end"),
        ("forstart1", "comb.for_start", false, "    always_comb begin\n        y = 4'd0;\n        for (int i = 1; i < 4; i++) begin\n            y[i] = a[i % 2] | b[i / 2];\n        end\n    end"),
        ("forstep2", "comb.for_step2", true, "    always_comb begin\n        y = 4'd0;\n        for (int i = 0; i < 4; i += 2) begin\n            y[i] = a[i / 2] | b[i / 2];\n        end\n    end"),
        ("forstep2b", "comb.for_step2", false, "    always_comb begin\n        y = 4'd0;\n        for (int i = 0; i < 4; i = i + 2) begin\n            y[i] = a[i / 2] | b[i / 2];\n        end\n    end"),
        ("fordown", "comb.for_down", true, "    always_comb begin\n        y = 4'd0;\n        for (int i = 3; i >= 0; i--) begin\n            if (a[i % 2]) y = i[3:0];\n        end\n    end"),
        ("fordowngt", "comb.for_down", false, "    always_comb begin\n        y = 4'd0;\n        for (int i = 3; i > 0; i--) begin\n            if (b[i % 2]) y = i[3:0];\n        end\n    end"),
        ("forne", "comb.for_ne", false, "    always_comb begin\n        y = 4'd0;\n        for (int i = 0; i != 4; i++) begin\n            y[i] = a[i % 2];\n        end\n    end"),
        ("forswapped", "comb.for_swapped_cond", false, "    always_comb begin\n        y = 4'd0;\n        for (int i = 0; 4 > i; i++) begin\n            y[i] = a[i % 2];\n        end\n    end"),
        ("forouter", "comb.for_outer_var", false, "    int i;\n    always_comb begin\n        y = 4'd0;\n        for (i = 0; i < 4; i++) begin\n            y[i] = a[i % 2] ^ b[i / 2];\n        end\n    end"),
        ("forparam", "comb.for_param_bound", false, "    localparam int N = 4;\n    always_comb begin\n        for (int i = 0; i < N; i++) begin\n            y[i] = a[i % 2] ^ b[i / 2];\n        end\n    end"),
        ("forexprbound", "comb.for_expr_bound", false, "    localparam int N = 2;\n    always_comb begin\n        for (int i = 0; i < N << 1; i++) begin\n            y[i] = a[i % 2] ^ b[i / 2];\n        end\n    end"),
        ("fornested", "comb.for_nested", false, "    always_comb begin\n        for (int i = 0; i < 2; i++) begin\n            for (int j = 0; j < 2; j++) begin\n                y[i * 2 + j] = a[i] & b[j];\n            end\n        end\n    end"),
        ("foracc", "comb.for_accumulate", false, "    always_comb begin\n        y = 4'd0;\n        for (int i = 0; i < 2; i++) begin\n            y = y + a[i] + b[i];\n        end\n    end"),
        ("forunsigned", "comb.for_typed_var", false, "    always_comb begin\n        y = 4'd0;\n        for (int unsigned i = 0; i < 4; i++) begin\n            y[i] = a[i % 2];\n        end\n    end"),
        ("while", "comb.while", false, "    always_comb begin\n        int i;\n        i = 0;\n        y = 4'd0;\n        while (i < 2) begin\n            y[i] = a[i];\n            i = i + 1;\n        end\n    end"),
        ("repeat", "comb.repeat", false, "    always_comb begin\n        y = {a, b};\n        repeat (2) y = y + 4'd3;\n    end"),
        ("foreach", "comb.foreach", false, "    always_comb begin\n        y = 4'd0;\n        foreach (a[i]) y[i] = a[i] ^ b[i];\n    end"),
        ("break", "comb.break", false, "    always_comb begin\n        y = 4'd0;\n        for (int i = 0; i < 4; i++) begin\n            if (a == i[1:0]) break;\n            y[i] = 1'b1;\n        end\n    end"),
        ("localvar", "comb.local_var", true, "    always_comb begin\n        logic [1:0] t;\n        t = a ^ b;\n        y = {t, a};\n    end"),
        ("lhsbit", "comb.lhs_select", true, "    always_comb begin\n        y = 4'd0;\n        y[b] = 1'b1;\n    end"),
        ("lhsindexed", "comb.lhs_select", false, "    always_comb begin\n        y = 4'd0;\n        y[b[0]*2+:2] = a;\n    end"),
        ("lhsconcat", "comb.lhs_concat", true, "    logic [1:0] s, t;\n    always_comb begin\n        {s, t} = {a, b} + 4'd1;\n    end\n    assign y = {t, s};"),
        ("opassignadd", "comb.op_assign", true, "    always_comb begin\n        y = {a, b};\n        y += 4'd3;\n    end"),
        ("opassignor", "comb.op_assign", false, "    always_comb begin\n        y = {a, b};\n        y |= 4'd9;\n    end"),
        ("opassignshl", "comb.op_assign", false, "    always_comb begin\n        y = {a, b};\n        y <<= 1;\n    end"),
        ("opassignashr", "comb.op_assign", false, "    logic signed [3:0] t;\n    always_comb begin\n        t = {a, b};\n        t >>>= 1;\n    end\n    assign y = t;"),
        ("incr", "comb.incdec", true, "    always_comb begin\n        y = {a, b};\n        y++;\n    end"),
        ("decr", "comb.incdec", false, "    always_comb begin\n        y = {a, b};\n        y--;\n    end"),
        ("two", "comb.two_blocks", true, "    logic [1:0] t;\n    always_comb t = a ^ b;\n    always_comb y = {t, a};"),
        ("nonblocking", "comb.nonblocking", false, "    always_comb begin\n        y <= {a, b};\n    end"),
        ("ternaryrhs", "comb.ternary_rhs", false, "    always_comb begin\n        y = a[0] ? {2'd0, b} : {b, 2'd0};\n    end"),
        ("null", "comb.null_statement", false, "    always_comb begin\n        y = {a, b};\n        ;\n    end"),
        ("alwaysstar", "always.star", true, "    logic [3:0] t;\n    always @* begin\n        t = {a, b};\n    end\n    assign y = t;"),
        ("alwayslist", "always.sens_list", false, "    logic [3:0] t;\n    always @(a or b) begin\n        t = {a, b};\n    end\n    assign y = t;"),
        ("latch", "always.latch", false, "    logic [3:0] t;\n    always_latch begin\n        if (a[0]) t = {a, b};\n    end\n    assign y = t;"),
        ("initial", "always.initial", false, "    logic [3:0] t;\n    initial t = 4'd0;\n    assign y = {a, b};"),
    ];
    for (name, class, core, body) in list {
        s.add(&format!("{class}.{name}"), class, core, "", "", ab(), y4(), None, None, body);
    }
}

fn ff(s: &mut S) {
    // the 8 sensitivity shapes x body styles
    let shapes: [(bool, Rst); 10] = [
        (true, Rst::None), (false, Rst::None),
        (true, Rst::SyncHigh), (true, Rst::SyncLow), (false, Rst::SyncHigh), (false, Rst::SyncLow),
        (true, Rst::AsyncHigh), (true, Rst::AsyncLow), (false, Rst::AsyncHigh), (false, Rst::AsyncLow),
    ];
    for (rising, k) in shapes {
        let edge = if rising { "posedge" } else { "negedge" };
        let (rn, rname, high) = match k {
            Rst::None => ("", "none", true),
            Rst::SyncHigh => ("rst", "sync_high", true),
            Rst::SyncLow => ("rst_n", "sync_low", false),
            Rst::AsyncHigh => ("rst", "async_high", true),
            Rst::AsyncLow => ("rst_n", "async_low", false),
        };
        let sens = match k {
            Rst::AsyncHigh => format!("@({edge} clk or posedge rst)"),
            Rst::AsyncLow => format!("@({edge} clk or negedge rst_n)"),
            _ => format!("@({edge} clk)"),
        };
        let cond = if high { rn.to_string() } else { format!("!{rn}") };
        let class = format!("ff.{edge}.{rname}");
        let rst = if k == Rst::None { None } else { Some((rn, k)) };
        // style A: if (reset) ... else ...  (single else)
        // style B: if (reset) ... else if (en) ...
        // style C: begin/end bodies, two registers, enable inside else
        // style D: counter/FSM with case
        let bodies: Vec<(&str, bool, String)> = if k == Rst::None {
            vec![
                ("a", true, format!("    always_ff {sens} q <= a;\n    assign y = q;")),
                ("b", true, format!("    always_ff {sens} begin\n        if (b[0]) q <= q + a;\n    end\n    assign y = q;")),
                ("c", false, format!("    logic [1:0] r;\n    always_ff {sens} begin\n        r <= a;\n        q <= r;\n    end\n    assign y = q ^ r;")),
            ]
        } else {
            vec![
                ("a", true, format!("    always_ff {sens} begin\n        if ({cond}) q <= 2'd1;\n        else q <= q + a;\n    end\n    assign y = q;")),
                ("b", true, format!("    always_ff {sens} begin\n        if ({cond}) q <= 2'd0;\n        else if (b[0]) q <= a;\n    end\n    assign y = q;")),
                ("c", true, format!("    logic [1:0] r;\n    always_ff {sens} begin\n        if ({cond}) begin\n            q <= 2'd2;\n            r <= 2'd1;\n        end else begin\n            if (b[0]) begin\n                q <= r;\n                r <= q + a;\n            end\n        end\n    end\n    assign y = q ^ {{r[0], r[1]}};")),
                ("d", false, format!("    always_ff {sens} begin\n        if ({cond}) q <= 2'd0;\n        else begin\n            case (q)\n                2'd0: if (a[0]) q <= 2'd1;\n                2'd1: if (b[0]) q <= 2'd2; else q <= 2'd3;\n                2'd2: q <= 2'd0;\n                default: q <= a;\n            endcase\n        end\n    end\n    assign y = q;")),
                ("e", false, format!("    logic [1:0] r;\n    always_ff {sens} begin\n        if ({cond}) q <= 2'd3;\n        else q <= a;\n    end\n    always_ff @({edge} clk) r <= q ^ b;\n    assign y = r;")),
            ]
        };
        for (st, core, body) in bodies {
            let body = format!("    logic [1:0] q;\n{body}");
            s.add(&format!("{class}.{st}"), &class, core, "", "", ab(), vec![pin("y", 2, false)], Some(rising), rst, &body);
        }
    }
    // variations on the reset test / sensitivity list of the async-low, posedge shape
    let var: Vec<(&str, &str, bool, Rst, &str, &str)> = vec![
        ("tilde", "ff.cond_tilde", true, Rst::AsyncLow, "rst_n", "    always_ff @(posedge clk or negedge rst_n) begin\n        if (~rst_n) q <= 2'd1;\n        else q <= q + a;\n    end"),
        ("parens", "ff.cond_parens", false, Rst::AsyncLow, "rst_n", "    always_ff @(posedge clk or negedge rst_n) begin\n        if ((!rst_n)) q <= 2'd1;\n        else q <= q + a;\n    end"),
        ("eqzero", "ff.cond_compare", true, Rst::AsyncLow, "rst_n", "    always_ff @(posedge clk or negedge rst_n) begin\n        if (rst_n == 1'b0) q <= 2'd1;\n        else q <= q + a;\n    end"),
        ("eqone", "ff.cond_compare", false, Rst::AsyncHigh, "rst", "    always_ff @(posedge clk or posedge rst) begin\n        if (rst == 1'b1) q <= 2'd1;\n        else q <= q + a;\n    end"),
        ("comma", "ff.sens_comma", true, Rst::AsyncLow, "rst_n", "    always_ff @(posedge clk, negedge rst_n) begin\n        if (!rst_n) q <= 2'd1;\n        else q <= q + a;\n    end"),
        ("order", "ff.sens_reset_first", true, Rst::AsyncLow, "rst_n", "    always_ff @(negedge rst_n or posedge clk) begin\n        if (!rst_n) q <= 2'd1;\n        else q <= q + a;\n    end"),
        ("name", "ff.reset_name", false, Rst::AsyncHigh, "areset", "    always_ff @(posedge clk or posedge areset) begin\n        if (areset) q <= 2'd1;\n        else q <= q + a;\n    end"),
        ("stmtbefore", "ff.statement_before_if", true, Rst::AsyncLow, "rst_n", "    logic [1:0] r;\n    always_ff @(posedge clk or negedge rst_n) begin\n        r <= a;\n        if (!rst_n) q <= 2'd1;\n        else q <= q + r;\n    end"),
        ("invertedbranches", "ff.reset_in_else", false, Rst::AsyncLow, "rst_n", "    always_ff @(posedge clk or negedge rst_n) begin\n        if (rst_n) q <= q + a;\n        else q <= 2'd1;\n    end"),
        ("syncplusen", "ff.sync_reset_or", false, Rst::SyncHigh, "rst", "    always_ff @(posedge clk) begin\n        if (rst || b[1]) q <= 2'd1;\n        else q <= q + a;\n    end"),
        ("blocking", "ff.blocking_assign", false, Rst::AsyncLow, "rst_n", "    always_ff @(posedge clk or negedge rst_n) begin\n        if (!rst_n) q = 2'd1;\n        else q = q + a;\n    end"),
        ("plainalways", "ff.plain_always", true, Rst::AsyncLow, "rst_n", "    always @(posedge clk or negedge rst_n) begin\n        if (!rst_n) q <= 2'd1;\n        else q <= q + a;\n    end"),
        ("selfor", "ff.for_in_ff", false, Rst::AsyncLow, "rst_n", "    always_ff @(posedge clk or negedge rst_n) begin\n        if (!rst_n) q <= 2'd0;\n        else begin\n            for (int i = 0; i < 2; i++) q[i] <= a[i] ^ b[i];\n        end\n    end"),
    ];
    for (name, class, core, k, rn, body) in var {
        let rst = if k == Rst::None { None } else { Some((rn, k)) };
        s.add(&format!("{class}.{name}"), class, core, "", "", ab(), vec![pin("y", 2, false)], Some(true), rst, &format!("    logic [1:0] q;\n{body}\n    assign y = q;"));
    }
}

const SUB: &str = "module sub #(parameter int W = 2, parameter int K = 1) (\n    input logic [W-1:0] x,\n    output logic [W-1:0] z\n);\n    assign z = x + K;\nendmodule";
const SUBFF: &str = "module subff (\n    input logic clk,\n    input logic rst_n,\n    input logic [1:0] d,\n    output logic [1:0] q\n);\n    always_ff @(posedge clk or negedge rst_n) begin\n        if (!rst_n) q <= 2'd0;\n        else q <= d;\n    end\nendmodule";

fn structure(s: &mut S) {
    // generate
    let list: Vec<(&str, &str, bool, &str, &str, &str)> = vec![
        ("for", "gen.for", true, "", "", "    genvar i;\n    generate\n        for (i = 0; i < 2; i = i + 1) begin : g\n            assign y[i] = a[i] ^ b[i];\n        end\n    endgenerate\n    assign y[3:2] = 2'd0;"),
        ("forinline", "gen.for_inline_genvar", true, "", "", "    for (genvar i = 0; i < 4; i++) begin : g\n        assign y[i] = a[i % 2] & b[i / 2];\n    end"),
        ("forle", "gen.for_le", false, "", "", "    for (genvar i = 0; i <= 3; i++) begin : g\n        assign y[i] = a[i % 2] & b[i / 2];\n    end"),
        ("forstep2", "gen.for_step2", false, "", "", "    assign y[1] = 1'b0;\n    assign y[3] = 1'b1;\n    for (genvar i = 0; i < 4; i += 2) begin : g\n        assign y[i] = a[i / 2] & b[i / 2];\n    end"),
        ("foralways", "gen.for_always", false, "", "", "    for (genvar i = 0; i < 2; i++) begin : g\n        logic t;\n        always_comb t = a[i] | b[i];\n        assign y[i] = t;\n    end\n    assign y[3:2] = a;"),
        ("fornested", "gen.for_nested", false, "", "", "    for (genvar i = 0; i < 2; i++) begin : gi\n        for (genvar j = 0; j < 2; j++) begin : gj\n            assign y[i * 2 + j] = a[i] & b[j];\n        end\n    end"),
        ("if", "gen.if", true, "", "#(parameter int W = 3)", "    generate\n        if (W > 2) begin : g_big\n            assign y = {a, b};\n        end else begin : g_small\n            assign y = {b, a};\n        end\n    endgenerate"),
        ("iffalse", "gen.if", true, "", "#(parameter int W = 1)", "    if (W >= 2) begin : g_big\n        assign y = {a, b};\n    end else begin : g_small\n        assign y = {b, a};\n    end"),
        ("ifnoelse", "gen.if_no_else", false, "", "#(parameter int W = 3)", "    if (W == 3) begin : g\n        assign y = {a, b};\n    end\n    if (W != 3) begin : h\n        assign y = 4'd0;\n    end"),
        ("elseif", "gen.else_if", true, "", "#(parameter int W = 2)", "    if (W == 1) begin : g1\n        assign y = {a, b};\n    end else if (W == 2) begin : g2\n        assign y = {b, a};\n    end else begin : g3\n        assign y = 4'd7;\n    end"),
        ("ifnobegin", "gen.if_no_begin", false, "", "#(parameter int W = 3)", "    if (W > 2) assign y = {a, b};\n    else assign y = {b, a};"),
        ("case", "gen.case", true, "", "#(parameter int W = 2)", "    generate\n        case (W)\n            1: begin : g1\n                assign y = {a, b};\n            end\n            2: begin : g2\n                assign y = {b, a};\n            end\n            default: begin : g3\n                assign y = 4'd7;\n            end\n        endcase\n    endgenerate"),
        ("ifinfor", "gen.if_in_for", false, "", "", "    for (genvar i = 0; i < 4; i++) begin : g\n        if (i < 2) begin : lo\n            assign y[i] = a[i];\n        end else begin : hi\n            assign y[i] = b[i - 2];\n        end\n    end"),
        ("hier", "gen.hier_ref", false, "", "", "    for (genvar i = 0; i < 2; i++) begin : g\n        logic t;\n        assign t = a[i] ^ b[i];\n    end\n    assign y = {2'd0, g[1].t, g[0].t};"),
        // instances
        ("named", "inst.named", true, SUB, "", "    logic [1:0] t;\n    sub u0 (.x(a), .z(t));\n    assign y = {t, b};"),
        ("param", "inst.param_override", true, SUB, "", "    logic [3:0] t;\n    sub #(.W(4), .K(3)) u0 (.x({a, b}), .z(t));\n    assign y = t;"),
        ("paramone", "inst.param_override", true, SUB, "", "    logic [1:0] t;\n    sub #(.K(2)) u0 (.x(a), .z(t));\n    assign y = {t, b};"),
        ("parampos", "inst.param_positional", false, SUB, "", "    logic [3:0] t;\n    sub #(4, 3) u0 (.x({a, b}), .z(t));\n    assign y = t;"),
        ("positional", "inst.positional", true, SUB, "", "    logic [1:0] t;\n    sub u0 (a, t);\n    assign y = {t, b};"),
        ("implicit", "inst.implicit_named", true, SUB, "", "    logic [1:0] x, z;\n    assign x = a ^ b;\n    sub u0 (.x, .z);\n    assign y = {z, b};"),
        ("wildcard", "inst.wildcard", false, SUB, "", "    logic [1:0] x, z;\n    assign x = a ^ b;\n    sub u0 (.*);\n    assign y = {z, b};"),
        ("unconnected", "inst.unconnected", false, SUB, "", "    logic [1:0] t;\n    sub u0 (.x(a), .z());\n    sub u1 (.x(b), .z(t));\n    assign y = {t, a};"),
        ("expr", "inst.expr_connection", true, SUB, "", "    logic [1:0] t;\n    sub u0 (.x(a & b), .z(t));\n    assign y = {t, b};"),
        ("exprlt", "inst.expr_connection", false, SUB, "", "    logic [1:0] t;\n    sub u0 (.x({1'b0, a == b}), .z(t));\n    assign y = {t, b};"),
        ("select", "inst.select_connection", false, SUB, "", "    logic [3:0] t;\n    sub u0 (.x(a), .z(t[1:0]));\n    sub u1 (.x(b), .z(t[3:2]));\n    assign y = t;"),
        ("two", "inst.two", false, SUB, "", "    logic [1:0] s, t;\n    sub u0 (.x(a), .z(s));\n    sub #(.K(3)) u1 (.x(s), .z(t));\n    assign y = {t, s};"),
        ("ingen", "inst.in_generate", false, SUB, "", "    logic [3:0] t, s;\n    assign s = {b, a};\n    for (genvar i = 0; i < 2; i++) begin : g\n        sub #(.K(i + 1)) u (.x(s[i * 2 +: 2]), .z(t[i * 2 +: 2]));\n    end\n    assign y = t;"),
        ("outputport", "inst.to_output", false, SUB, "", "    sub u0 (.x(a), .z(y[1:0]));\n    assign y[3:2] = b;"),
    ];
    for (name, class, core, pre, hdr, body) in list {
        s.add(&format!("{class}.{name}"), class, core, pre, hdr, ab(), y4(), None, None, body);
    }
    // sequential sub-instance
    s.add("inst.seq.named", "inst.seq", true, SUBFF, "", ab(), vec![pin("y", 2, false)], Some(true), Some(("rst_n", Rst::AsyncLow)), "    subff u0 (.clk(clk), .rst_n(rst_n), .d(a ^ b), .q(y));");
    s.add("inst.seq.implicit", "inst.seq", false, SUBFF, "", ab(), vec![pin("y", 2, false)], Some(true), Some(("rst_n", Rst::AsyncLow)), "    logic [1:0] d, q;\n    assign d = a ^ b;\n    subff u0 (.clk, .rst_n, .d, .q);\n    assign y = q;");

    // functions, tasks
    let flist: Vec<(&str, &str, bool, &str)> = vec![
        ("return", "func.return", true, "    function automatic logic [3:0] f(input logic [1:0] p, input logic [1:0] q);\n        return {p, q} + 4'd1;\n    endfunction\n    assign y = f(a, b);"),
        ("noauto", "func.static", false, "    function logic [3:0] f(input logic [1:0] p, input logic [1:0] q);\n        return {p, q} + 4'd1;\n    endfunction\n    assign y = f(a, b);"),
        ("name", "func.assign_name", true, "    function automatic logic [3:0] f(input logic [1:0] p, input logic [1:0] q);\n        f = {p, q} + 4'd1;\n    endfunction\n    assign y = f(a, b);"),
        ("local", "func.local_var", true, "    function automatic logic [3:0] f(input logic [1:0] p, input logic [1:0] q);\n        logic [3:0] t;\n        t = {p, q};\n        t = t + 4'd1;\n        return t;\n    endfunction\n    assign y = f(a, b);"),
        ("if", "func.if", true, "    function automatic logic [3:0] f(input logic [1:0] p, input logic [1:0] q);\n        if (p[0]) return {2'd0, q};\n        else return {q, 2'd0};\n    endfunction\n    assign y = f(a, b);"),
        ("case", "func.case", false, "    function automatic logic [3:0] f(input logic [1:0] p, input logic [1:0] q);\n        case (p)\n            2'd0: return 4'd1;\n            2'd1: return {2'd0, q};\n            default: return {q, p};\n        endcase\n    endfunction\n    assign y = f(a, b);"),
        ("for", "func.for", false, "    function automatic logic [3:0] f(input logic [1:0] p, input logic [1:0] q);\n        logic [3:0] t;\n        t = 4'd0;\n        for (int i = 0; i < 2; i++) t[i] = p[i] ^ q[i];\n        return t;\n    endfunction\n    assign y = f(a, b);"),
        ("noargdir", "func.default_dir", false, "    function automatic logic [3:0] f(logic [1:0] p, logic [1:0] q);\n        return {p, q} + 4'd1;\n    endfunction\n    assign y = f(a, b);"),
        ("sharedtype", "func.shared_arg_type", false, "    function automatic logic [3:0] f(input logic [1:0] p, q);\n        return {p, q} + 4'd1;\n    endfunction\n    assign y = f(a, b);"),
        ("scalarret", "func.scalar_return", true, "    function automatic logic f(input logic [1:0] p, input logic [1:0] q);\n        return ^{p, q};\n    endfunction\n    assign y = {3'd5, f(a, b)};"),
        ("signedret", "func.signed_return", false, "    function automatic logic signed [2:0] f(input logic [1:0] p);\n        return {1'b1, p};\n    endfunction\n    assign y = f(a);"),
        ("intret", "func.int_return", false, "    function automatic int f(input logic [1:0] p, input logic [1:0] q);\n        return p + q;\n    endfunction\n    assign y = f(a, b);"),
        ("oldstyle", "func.old_style_ports", false, "    function automatic [3:0] f;\n        input [1:0] p;\n        input [1:0] q;\n        f = {p, q} + 4'd1;\n    endfunction\n    assign y = f(a, b);"),
        ("output", "func.output_arg", false, "    function automatic void f(input logic [1:0] p, output logic [3:0] r);\n        r = {p, p} + 4'd1;\n    endfunction\n    always_comb begin\n        f(a ^ b, y);\n    end"),
        ("nested", "func.nested_call", false, "    function automatic logic [1:0] g(input logic [1:0] p);\n        return p + 2'd1;\n    endfunction\n    function automatic logic [3:0] f(input logic [1:0] p, input logic [1:0] q);\n        return {g(p), g(g(q))};\n    endfunction\n    assign y = f(a, b);"),
        ("incomb", "func.call_in_comb", false, "    function automatic logic [3:0] f(input logic [1:0] p, input logic [1:0] q);\n        return {p, q} + 4'd1;\n    endfunction\n    always_comb begin\n        y = f(a, b) ^ f(b, a);\n    end"),
        ("task", "func.task", false, "    task automatic t(input logic [1:0] p, output logic [3:0] r);\n        r = {p, p} + 4'd1;\n    endtask\n    always_comb begin\n        t(a ^ b, y);\n    end"),
        ("param", "func.uses_param", false, "    localparam int K = 3;\n    function automatic logic [3:0] f(input logic [1:0] p);\n        return p + K;\n    endfunction\n    assign y = f(a) ^ f(b);"),
    ];
    for (name, class, core, body) in flist {
        s.add(&format!("{class}.{name}"), class, core, "", "", ab(), y4(), None, None, body);
    }

    // typedef / enum / struct / package
    let tlist: Vec<(&str, &str, bool, &str, &str)> = vec![
        ("alias", "type.typedef", true, "", "    typedef logic [3:0] nib_t;\n    nib_t t;\n    assign t = {a, b};\n    assign y = t + 4'd1;"),
        ("aliasfile", "type.typedef_file_scope", false, "typedef logic [3:0] nib_t;", "    nib_t t;\n    assign t = {a, b};\n    assign y = t + 4'd1;"),
        ("aliassigned", "type.typedef_signed", false, "", "    typedef logic signed [2:0] s3_t;\n    s3_t t;\n    assign t = {a, b[0]};\n    assign y = t;"),
        ("enum", "type.enum", true, "", "    typedef enum logic [1:0] {S0, S1, S2, S3} st_e;\n    st_e t;\n    always_comb begin\n        case (a)\n            2'd0: t = S0;\n            2'd1: t = S2;\n            default: t = S3;\n        endcase\n    end\n    assign y = {b, t};"),
        ("enumvalues", "type.enum_values", true, "", "    typedef enum logic [1:0] {S0 = 2'd1, S1 = 2'd3, S2 = 2'd0} st_e;\n    st_e t;\n    always_comb begin\n        case (a)\n            2'd0: t = S0;\n            2'd1: t = S1;\n            default: t = S2;\n        endcase\n    end\n    assign y = {b, t};"),
        ("enumcmp", "type.enum_compare", false, "", "    typedef enum logic [1:0] {S0, S1, S2, S3} st_e;\n    st_e t;\n    assign t = st_e'(a);\n    assign y = {b, t == S2, t != S0};"),
        ("enumnobase", "type.enum_no_base", false, "", "    typedef enum {S0, S1, S2} st_e;\n    st_e t;\n    always_comb begin\n        if (a[0]) t = S1; else t = S2;\n    end\n    assign y = t;"),
        ("enumanon", "type.enum_anonymous", false, "", "    enum logic [1:0] {S0, S1, S2} t;\n    always_comb begin\n        if (a[0]) t = S1; else t = S2;\n    end\n    assign y = {b, t};"),
        ("struct", "type.struct", true, "", "    typedef struct packed {\n        logic [1:0] hi;\n        logic [1:0] lo;\n    } pair_t;\n    pair_t t;\n    assign t.hi = a;\n    assign t.lo = b;\n    assign y = t;"),
        ("structread", "type.struct", false, "", "    typedef struct packed {\n        logic [1:0] hi;\n        logic [1:0] lo;\n    } pair_t;\n    pair_t t;\n    assign t = {a, b};\n    assign y = {t.lo, t.hi};"),
        ("structpattern", "type.struct_pattern", false, "", "    typedef struct packed {\n        logic [1:0] hi;\n        logic [1:0] lo;\n    } pair_t;\n    pair_t t;\n    assign t = '{hi: a, lo: b};\n    assign y = t;"),
        ("structsigned", "type.struct_signed_member", false, "", "    typedef struct packed {\n        logic signed [1:0] hi;\n        logic [1:0] lo;\n    } pair_t;\n    pair_t t;\n    assign t = {a, b};\n    assign y = t.hi;"),
        ("structmulti", "type.struct_multi_member", false, "", "    typedef struct packed {\n        logic [1:0] hi, lo;\n    } pair_t;\n    pair_t t;\n    assign t = {a, b};\n    assign y = {t.lo, t.hi};"),
        ("union", "type.union", false, "", "    typedef union packed {\n        logic [3:0] w;\n        logic [1:0][1:0] h;\n    } u_t;\n    u_t t;\n    assign t.w = {a, b};\n    assign y = {t.h[0], t.h[1]};"),
        ("pkgparam", "type.package_param", true, "package p;\n    localparam int K = 3;\n    typedef logic [3:0] nib_t;\nendpackage", "    p::nib_t t;\n    assign t = {a, b};\n    assign y = t + p::K;"),
        ("pkgimport", "type.package_import", true, "package p;\n    localparam int K = 3;\n    typedef logic [3:0] nib_t;\nendpackage", "    import p::*;\n    nib_t t;\n    assign t = {a, b};\n    assign y = t + K;"),
        ("pkgimporthdr", "type.package_import_header", false, "package p;\n    localparam int K = 3;\nendpackage", "    assign y = {a, b} + K;"),
        ("pkgfunc", "type.package_function", false, "package p;\n    function automatic logic [3:0] f(input logic [1:0] x, input logic [1:0] z);\n        return {x, z} + 4'd1;\n    endfunction\nendpackage", "    assign y = p::f(a, b);"),
        ("pkgenum", "type.package_enum", false, "package p;\n    typedef enum logic [1:0] {S0, S1, S2, S3} st_e;\nendpackage", "    p::st_e t;\n    assign t = a[0] ? p::S1 : p::S3;\n    assign y = {b, t};"),
    ];
    for (name, class, core, pre, body) in tlist {
        if name == "pkgimporthdr" {
            // import in the module header
            let mut c = S { out: vec![] };
            c.add(&format!("{class}.{name}"), class, core, pre, "", ab(), y4(), None, None, body);
            let mut case = c.out.pop().unwrap();
            case.sv = case.sv.replace("module m (", "module m import p::*; (");
            s.out.push(case);
            continue;
        }
        s.add(&format!("{class}.{name}"), class, core, pre, "", ab(), y4(), None, None, body);
    }

    // identifiers that are Veryl keywords, preprocessor, attributes, comments
    s.add_raw("ident.keyword.in", "ident.veryl_keyword", true, "", "", "    input logic [1:0] in,\n    input logic [1:0] b,\n    output logic [3:0] y", vec![pin("in", 2, false), pin("b", 2, false)], y4(), None, None, "    assign y = {in, b};");
    let ilist: Vec<(&str, &str, bool, &str, &str)> = vec![
        ("var", "ident.veryl_keyword", false, "", "    logic [3:0] step;\n    assign step = {a, b};\n    assign y = step;"),
        ("msb", "ident.veryl_keyword", false, "", "    logic [3:0] msb;\n    assign msb = {a, b};\n    assign y = msb;"),
        ("dollar", "ident.dollar", false, "", "    logic [3:0] t$x;\n    assign t$x = {a, b};\n    assign y = t$x;"),
        ("escaped", "ident.escaped", false, "", "    logic [3:0] \\t+x ;\n    assign \\t+x = {a, b};\n    assign y = \\t+x ;"),
        ("define", "pp.define", true, "`define WID 4", "    logic [`WID-1:0] t;\n    assign t = {a, b};\n    assign y = t + 4'd1;"),
        ("defineexpr", "pp.define", false, "`define INC(x) ((x) + 4'd1)", "    assign y = `INC({a, b});"),
        ("ifdef", "pp.ifdef", false, "", "`ifdef NOT_DEFINED\n    assign y = 4'd0;\n`else\n    assign y = {a, b};\n`endif"),
        ("attr", "misc.attribute", false, "", "    (* keep *) logic [3:0] t;\n    assign t = {a, b};\n    assign y = t;"),
        ("linecomment", "misc.comment", false, "", "    // a comment\n    assign y = {a, // inline\n        b};"),
        ("timeunit", "misc.timescale", false, "`timescale 1ns/1ps", "    assign y = {a, b};"),
    ];
    for (name, class, core, pre, body) in ilist {
        s.add(&format!("{class}.{name}"), class, core, pre, "", ab(), y4(), None, None, body);
    }
    // non-ANSI header: must be reported unsupported
    s.out.push(SvCase {
        id: "port.nonansi.basic".into(),
        class: "port.nonansi".into(),
        origin: "sf".into(),
        core: true,
        sv: "module m (a, b, y);\n    input [1:0] a;\n    input [1:0] b;\n    output [3:0] y;\n    assign y = {a, b};\nendmodule\n".into(),
        top: "m".into(),
        inputs: ab(),
        outputs: y4(),
        clock: None,
        reset: None,
    });
}

pub fn family(thorough: bool) -> Vec<SvCase> {
    let mut s = S { out: vec![] };
    ops(&mut s);
    exprs(&mut s);
    decls(&mut s);
    params(&mut s);
    comb(&mut s);
    ff(&mut s);
    structure(&mut s);
    if !thorough {
        s.out.retain(|d| d.core);
    }
    s.out
}

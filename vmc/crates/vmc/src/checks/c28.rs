//! C28 — the pretty printer keeps content and records true anchors.
//!
//! Engine E1: enumerate **all** `Doc` trees with at most N nodes over the full constructor
//! alphabet of `veryl_pretty::doc` (built through the public constructors) and render each one
//! with the real `veryl_pretty::render::render_with_anchors` under every `RenderOpts` of a finite
//! grid. Leaves carry unique markers (with multi-byte and astral characters so byte / UTF-16 /
//! char columns all differ), so every oracle is a direct reading of the property statement:
//!
//! * every Text / Anchored / comment marker occurs exactly once, in document order, and the
//!   output with all white space removed is exactly the concatenation of the leaf texts
//!   (break-only text included iff it was printed);
//! * the mode of every group context is *observed* (a `Line` bracketed by markers rendered as a
//!   newline or not; a break-only text printed or not; `ForceFlat` and the root are fixed): all
//!   observations of one context agree, a flat context has no broken child;
//! * every `RenderedAnchor` carries the text / source position of its leaf and its
//!   (dst_line, dst_column) is where the unique marker really sits in the final text (1-based,
//!   lines split at `\n`, columns in chars);
//! * with `strip_trailing_whitespace` no output line ends in a blank;
//! * documented layout contract of doc.rs (`Group`: "render flat if it fits within max_width",
//!   `IfBreak`: "contributes 0 to fits_flat"): a group observed broken although its flat layout
//!   plus the *whole* rest of the current line fits is reported (conservative direction only).

use crate::core::*;
use serde_json::{Value, json};
use std::collections::BTreeMap;
use veryl_pretty::doc::{self, CommentDoc, Doc};
use veryl_pretty::render::{RenderOpts, render_with_anchors};

// ------------------------------------------------------------------------------------------
// tree family

#[derive(Clone, Copy, PartialEq, Eq, Debug, Hash, PartialOrd, Ord)]
enum Leaf {
    Text,
    /// `Text(" ")` — how the emitter writes blanks (`doc::space`)
    Space,
    /// `Text` with an embedded newline (multi-line token text)
    TextMl,
    LineSp,
    LineEmpty,
    Hard,
    Dedent,
    IfBreak,
    IfBreakPad,
    Pad,
    IfFlatPad,
    Anchored,
    /// `Anchored` whose text has an embedded newline (multi-line token, e.g. embed / string)
    AnchoredMl,
    /// ty: 0 line comment, 1 block comment, 2 multi-line block comment; ln: leading_newlines
    Comment(u8, u8),
    /// two comments in one `Comments` node: block (ln 0) then line comment (ln 1)
    Comment2,
}

#[derive(Clone, Copy, PartialEq, Eq, Debug, Hash, PartialOrd, Ord)]
enum Un {
    Group,
    IndentP,
    IndentM,
    ForceFlat,
}

#[derive(Clone, Debug, PartialEq, Eq, Hash, PartialOrd, Ord)]
enum T {
    L(Leaf),
    U(Un, Box<T>),
    C(Vec<T>),
}

fn alphabet() -> Vec<Leaf> {
    let mut v = vec![
        Leaf::Text,
        Leaf::Space,
        Leaf::TextMl,
        Leaf::AnchoredMl,
        Leaf::LineSp,
        Leaf::LineEmpty,
        Leaf::Hard,
        Leaf::Dedent,
        Leaf::IfBreak,
        Leaf::IfBreakPad,
        Leaf::Pad,
        Leaf::IfFlatPad,
        Leaf::Anchored,
    ];
    for ty in 0..3u8 {
        for ln in 0..3u8 {
            v.push(Leaf::Comment(ty, ln));
        }
    }
    v.push(Leaf::Comment2);
    v
}

const UNARIES: [Un; 4] = [Un::Group, Un::IndentP, Un::IndentM, Un::ForceFlat];

/// A tree family: every tree built from `leaves`, the unary constructors `unaries` and `Concat`
/// (>= 2 children) with at most `n_max` nodes.
struct Family {
    name: &'static str,
    leaves: Vec<Leaf>,
    unaries: Vec<Un>,
    n_max: usize,
    /// lists[n] = all trees with exactly n nodes, n <= stored; larger trees are produced on the fly
    lists: Vec<Vec<T>>,
}

/// Deeper family over the constructs that interact most (positions after breaks / comments,
/// break-only text, nested groups, indentation, forced flat).
fn reduced_alphabet() -> (Vec<Leaf>, Vec<Un>) {
    (
        vec![
            Leaf::Text,
            Leaf::Anchored,
            Leaf::LineSp,
            Leaf::Hard,
            Leaf::IfBreak,
            Leaf::Comment(0, 0),
            Leaf::Comment(1, 0),
        ],
        vec![Un::Group, Un::IndentP, Un::ForceFlat],
    )
}

fn compositions(total: usize, min_parts: usize) -> Vec<Vec<usize>> {
    fn rec(rem: usize, cur: &mut Vec<usize>, out: &mut Vec<Vec<usize>>, min_parts: usize) {
        if rem == 0 {
            if cur.len() >= min_parts {
                out.push(cur.clone());
            }
            return;
        }
        for s in 1..=rem {
            cur.push(s);
            rec(rem - s, cur, out, min_parts);
            cur.pop();
        }
    }
    let mut out = vec![];
    rec(total, &mut vec![], &mut out, min_parts);
    out
}

/// lists[n] = all trees with exactly n nodes (n = 1..=max).
fn build_lists(max: usize, alpha: &[Leaf], unaries: &[Un]) -> Vec<Vec<T>> {
    let mut lists: Vec<Vec<T>> = vec![vec![]; max + 1];
    for n in 1..=max {
        let mut cur = vec![];
        if n == 1 {
            for l in alpha {
                cur.push(T::L(*l));
            }
        } else {
            for u in unaries {
                for c in &lists[n - 1] {
                    cur.push(T::U(*u, Box::new(c.clone())));
                }
            }
            for comp in compositions(n - 1, 2) {
                let mut acc: Vec<Vec<T>> = vec![vec![]];
                for s in &comp {
                    let mut next = Vec::with_capacity(acc.len() * lists[*s].len());
                    for a in &acc {
                        for c in &lists[*s] {
                            let mut x = a.clone();
                            x.push(c.clone());
                            next.push(x);
                        }
                    }
                    acc = next;
                }
                for a in acc {
                    cur.push(T::C(a));
                }
            }
        }
        lists[n] = cur;
    }
    lists
}

/// Number of trees with exactly n nodes (closed recurrence; checked against what was rendered).
fn count_exact(n: usize, l: u64, u: u64, memo: &mut Vec<Option<u64>>) -> u64 {
    if let Some(x) = memo[n] {
        return x;
    }
    let r = if n == 1 {
        l
    } else {
        let mut r = u * count_exact(n - 1, l, u, memo);
        for comp in compositions(n - 1, 2) {
            let mut p = 1u64;
            for s in comp {
                p *= count_exact(s, l, u, memo);
            }
            r += p;
        }
        r
    };
    memo[n] = Some(r);
    r
}

fn make_family(name: &'static str, leaves: Vec<Leaf>, unaries: Vec<Un>, n_max: usize) -> Family {
    // sizes n_max and n_max-1 are produced on the fly (a unary chain over a stored tree, or a
    // Concat whose children all have <= n_max-2 nodes)
    let stored = n_max.saturating_sub(2).max(1);
    let lists = build_lists(stored, &leaves, &unaries);
    Family {
        name,
        leaves,
        unaries,
        n_max,
        lists,
    }
}

// ---- compact text form (replay) -----------------------------------------------------------

fn show(t: &T) -> String {
    match t {
        T::L(l) => match l {
            Leaf::Text => "T".into(),
            Leaf::Space => "S".into(),
            Leaf::TextMl => "Tm".into(),
            Leaf::AnchoredMl => "Am".into(),
            Leaf::LineSp => "Ls".into(),
            Leaf::LineEmpty => "Le".into(),
            Leaf::Hard => "H".into(),
            Leaf::Dedent => "D".into(),
            Leaf::IfBreak => "B".into(),
            Leaf::IfBreakPad => "Bp".into(),
            Leaf::Pad => "P".into(),
            Leaf::IfFlatPad => "Fp".into(),
            Leaf::Anchored => "A".into(),
            Leaf::Comment(ty, ln) => format!("K{}{}", ["l", "b", "m"][*ty as usize], ln),
            Leaf::Comment2 => "K2".into(),
        },
        T::U(u, c) => format!(
            "{}({})",
            match u {
                Un::Group => "G",
                Un::IndentP => "I+",
                Un::IndentM => "I-",
                Un::ForceFlat => "F",
            },
            show(c)
        ),
        T::C(cs) => format!("C({})", cs.iter().map(show).collect::<Vec<_>>().join(",")),
    }
}

fn parse(s: &str) -> Option<T> {
    fn rec(b: &[u8], i: &mut usize) -> Option<T> {
        let start = *i;
        while *i < b.len() && !matches!(b[*i], b'(' | b')' | b',') {
            *i += 1;
        }
        let name = std::str::from_utf8(&b[start..*i]).ok()?;
        if *i < b.len() && b[*i] == b'(' {
            *i += 1;
            let mut kids = vec![];
            loop {
                kids.push(rec(b, i)?);
                if *i >= b.len() {
                    return None;
                }
                if b[*i] == b',' {
                    *i += 1;
                    continue;
                }
                if b[*i] == b')' {
                    *i += 1;
                    break;
                }
                return None;
            }
            let un = match name {
                "G" => Some(Un::Group),
                "I+" => Some(Un::IndentP),
                "I-" => Some(Un::IndentM),
                "F" => Some(Un::ForceFlat),
                "C" => None,
                _ => return None,
            };
            return match un {
                Some(u) if kids.len() == 1 => Some(T::U(u, Box::new(kids.pop().unwrap()))),
                None if kids.len() >= 2 => Some(T::C(kids)),
                _ => None,
            };
        }
        let l = match name {
            "T" => Leaf::Text,
            "S" => Leaf::Space,
            "Tm" => Leaf::TextMl,
            "Am" => Leaf::AnchoredMl,
            "Ls" => Leaf::LineSp,
            "Le" => Leaf::LineEmpty,
            "H" => Leaf::Hard,
            "D" => Leaf::Dedent,
            "B" => Leaf::IfBreak,
            "Bp" => Leaf::IfBreakPad,
            "P" => Leaf::Pad,
            "Fp" => Leaf::IfFlatPad,
            "A" => Leaf::Anchored,
            "K2" => Leaf::Comment2,
            x if x.len() == 3 && x.starts_with('K') => {
                let ty = match &x[1..2] {
                    "l" => 0,
                    "b" => 1,
                    "m" => 2,
                    _ => return None,
                };
                let ln = x[2..3].parse::<u8>().ok()?;
                Leaf::Comment(ty, ln)
            }
            _ => return None,
        };
        Some(T::L(l))
    }
    let b = s.as_bytes();
    let mut i = 0;
    let t = rec(b, &mut i)?;
    if i == b.len() { Some(t) } else { None }
}

// ------------------------------------------------------------------------------------------
// description of a tree for the oracle (no code shared with the renderer)

#[derive(Clone, Debug)]
struct Piece {
    text: String,
    /// text with white space removed
    squeezed: String,
    chars: usize,
    anchored: bool,
    src: (u32, u32),
    optional: bool,
    multi_line: bool,
}

#[derive(Clone, Debug)]
struct LeafD {
    kind: Leaf,
    ctx: usize,
    /// index range into `pieces`
    p0: usize,
    p1: usize,
}

#[derive(Clone, Debug)]
struct CtxD {
    parent: usize,
    /// Some(true) = fixed broken (root), Some(false) = fixed flat (ForceFlat or below one)
    fixed: Option<bool>,
    is_group: bool,
    l0: usize,
    l1: usize,
}

struct Desc {
    leaves: Vec<LeafD>,
    pieces: Vec<Piece>,
    ctxs: Vec<CtxD>,
}

const MAX_N: usize = 9;
const PAD_W: u32 = 1;
const IFBREAKPAD_W: u32 = 2;
const IFFLATPAD_W: u32 = 1;

fn mk_piece(text: String, anchored: bool, src: (u32, u32), optional: bool) -> Piece {
    Piece {
        squeezed: text.chars().filter(|c| !c.is_whitespace()).collect(),
        chars: text.chars().count(),
        multi_line: text.contains('\n'),
        text,
        anchored,
        src,
        optional,
    }
}

fn build(t: &T, d: &mut Desc, ctx: usize) -> Doc {
    match t {
        T::L(l) => {
            let id = d.leaves.len();
            let p0 = d.pieces.len();
            let src = |k: u32| (id as u32 + 1, k + 1);
            let even = id % 2 == 0;
            let doc = match l {
                Leaf::Text => {
                    let s = if even { format!("é{id}") } else { format!("𝒳{id}") };
                    d.pieces.push(mk_piece(s.clone(), false, (0, 0), false));
                    doc::text(s)
                }
                Leaf::Space => doc::space(1),
                Leaf::TextMl => {
                    let s = format!("é{id}\n è{id}");
                    d.pieces.push(mk_piece(s.clone(), false, (0, 0), false));
                    doc::text(s)
                }
                Leaf::AnchoredMl => {
                    let s = format!("ñ{id}\n ò{id}");
                    d.pieces.push(mk_piece(s.clone(), true, src(0), false));
                    doc::anchored(s, src(0).0, src(0).1)
                }
                Leaf::LineSp => doc::line(),
                Leaf::LineEmpty => doc::softline(),
                Leaf::Hard => doc::hard(),
                Leaf::Dedent => Doc::DedentHardline(1),
                Leaf::IfBreak => {
                    let s = format!("b{id}");
                    d.pieces.push(mk_piece(s.clone(), false, (0, 0), true));
                    doc::if_break(s)
                }
                Leaf::IfBreakPad => doc::if_break_pad(IFBREAKPAD_W),
                Leaf::Pad => doc::pad(PAD_W),
                Leaf::IfFlatPad => doc::if_flat_pad(IFFLATPAD_W),
                Leaf::Anchored => {
                    let s = if even { format!("ñ{id}") } else { format!("𝒩{id}") };
                    d.pieces.push(mk_piece(s.clone(), true, src(0), false));
                    doc::anchored(s, src(0).0, src(0).1)
                }
                Leaf::Comment(ty, ln) => {
                    let s = match ty {
                        0 => format!("//ü{id}"),
                        1 => format!("/*ü{id}*/"),
                        _ => format!("/*ü{id}\n  ö{id}*/"),
                    };
                    d.pieces.push(mk_piece(s.clone(), true, src(0), false));
                    doc::comments(vec![CommentDoc {
                        text: s.into(),
                        leading_newlines: *ln as u32,
                        is_line_comment: *ty == 0,
                        src_line: src(0).0,
                        src_column: src(0).1,
                    }])
                }
                Leaf::Comment2 => {
                    let a = format!("/*ü{id}*/");
                    let b = format!("//ö{id}");
                    d.pieces.push(mk_piece(a.clone(), true, src(0), false));
                    d.pieces.push(mk_piece(b.clone(), true, src(1), false));
                    doc::comments(vec![
                        CommentDoc {
                            text: a.into(),
                            leading_newlines: 0,
                            is_line_comment: false,
                            src_line: src(0).0,
                            src_column: src(0).1,
                        },
                        CommentDoc {
                            text: b.into(),
                            leading_newlines: 1,
                            is_line_comment: true,
                            src_line: src(1).0,
                            src_column: src(1).1,
                        },
                    ])
                }
            };
            let p1 = d.pieces.len();
            d.leaves.push(LeafD {
                kind: *l,
                ctx,
                p0,
                p1,
            });
            doc
        }
        T::U(u, c) => match u {
            Un::IndentP => doc::nest(build(c, d, ctx)),
            Un::IndentM => doc::dedent(build(c, d, ctx)),
            Un::Group | Un::ForceFlat => {
                let is_group = matches!(u, Un::Group);
                let fixed = if !is_group || d.ctxs[ctx].fixed == Some(false) {
                    Some(false)
                } else {
                    None
                };
                let me = d.ctxs.len();
                d.ctxs.push(CtxD {
                    parent: ctx,
                    fixed,
                    is_group,
                    l0: d.leaves.len(),
                    l1: 0,
                });
                let inner = build(c, d, me);
                d.ctxs[me].l1 = d.leaves.len();
                if is_group {
                    doc::group(inner)
                } else {
                    doc::force_flat(inner)
                }
            }
        },
        T::C(cs) => {
            let v: Vec<Doc> = cs.iter().map(|c| build(c, d, ctx)).collect();
            doc::concat(v)
        }
    }
}

fn describe(t: &T) -> (Doc, Desc) {
    let mut d = Desc {
        leaves: vec![],
        pieces: vec![],
        ctxs: vec![CtxD {
            parent: usize::MAX,
            fixed: Some(true),
            is_group: false,
            l0: 0,
            l1: 0,
        }],
    };
    let doc = build(t, &mut d, 0);
    d.ctxs[0].l1 = d.leaves.len();
    (doc, d)
}

// ------------------------------------------------------------------------------------------
// options

#[derive(Clone, Copy, Debug)]
struct Opt {
    max_width: usize,
    indent_width: usize,
    crlf: bool,
    strip: bool,
}

impl Opt {
    fn to_render(self) -> RenderOpts {
        RenderOpts {
            max_width: self.max_width,
            indent_width: self.indent_width,
            newline: if self.crlf { "\r\n" } else { "\n" },
            strip_trailing_whitespace: self.strip,
        }
    }
    fn json(self) -> Value {
        json!({"max_width": self.max_width, "indent_width": self.indent_width,
               "newline": if self.crlf {"\r\n"} else {"\n"}, "strip_trailing_whitespace": self.strip})
    }
}

fn all_opts() -> Vec<Opt> {
    let mut v = vec![];
    for max_width in [3usize, 8, 120] {
        for indent_width in [0usize, 2, 4] {
            for crlf in [false, true] {
                for strip in [false, true] {
                    v.push(Opt {
                        max_width,
                        indent_width,
                        crlf,
                        strip,
                    });
                }
            }
        }
    }
    v
}

// ------------------------------------------------------------------------------------------
// oracle

#[derive(Default, Clone)]
struct Acc {
    trees: u64,
    by_size: [[u64; MAX_N + 1]; 2],
    evaluations: u64,
    nontrivial: u64,
    distinct_outputs_hash: std::collections::HashSet<u64>,
    groups_broken: u64,
    groups_flat: u64,
    ifbreak_present: u64,
    ifbreak_absent: u64,
    ifbreak_cross_checked: u64,
    line_observations: u64,
    pad_observations: u64,
    anchors_checked: u64,
    anchors_first_on_indented_line: u64,
    anchors_mid_line: u64,
    anchors_after_comment_same_line: u64,
    anchors_after_multiline_comment_tail: u64,
    anchors_after_multiline_text_tail: u64,
    anchors_multibyte_prefix: u64,
    anchors_in_broken_group: u64,
    anchors_in_flat_group: u64,
    anchors_comment: u64,
    anchors_line_gt1: u64,
    fits_checks: u64,
    strip_lines_checked: u64,
    viol: BTreeMap<String, (u64, usize, String, Violation)>,
    panics: Vec<String>,
}

impl Acc {
    fn merge(&mut self, o: Acc) {
        self.trees += o.trees;
        for f in 0..2 {
            for n in 0..=MAX_N {
                self.by_size[f][n] += o.by_size[f][n];
            }
        }
        self.evaluations += o.evaluations;
        self.nontrivial += o.nontrivial;
        if self.distinct_outputs_hash.len() < 2_000_000 {
            self.distinct_outputs_hash.extend(o.distinct_outputs_hash);
        }
        self.groups_broken += o.groups_broken;
        self.groups_flat += o.groups_flat;
        self.ifbreak_present += o.ifbreak_present;
        self.ifbreak_absent += o.ifbreak_absent;
        self.ifbreak_cross_checked += o.ifbreak_cross_checked;
        self.line_observations += o.line_observations;
        self.pad_observations += o.pad_observations;
        self.anchors_checked += o.anchors_checked;
        self.anchors_first_on_indented_line += o.anchors_first_on_indented_line;
        self.anchors_mid_line += o.anchors_mid_line;
        self.anchors_after_comment_same_line += o.anchors_after_comment_same_line;
        self.anchors_after_multiline_comment_tail += o.anchors_after_multiline_comment_tail;
        self.anchors_after_multiline_text_tail += o.anchors_after_multiline_text_tail;
        self.anchors_multibyte_prefix += o.anchors_multibyte_prefix;
        self.anchors_in_broken_group += o.anchors_in_broken_group;
        self.anchors_in_flat_group += o.anchors_in_flat_group;
        self.anchors_comment += o.anchors_comment;
        self.anchors_line_gt1 += o.anchors_line_gt1;
        self.fits_checks += o.fits_checks;
        self.strip_lines_checked += o.strip_lines_checked;
        for (k, (n, size, key, v)) in o.viol {
            match self.viol.get_mut(&k) {
                None => {
                    self.viol.insert(k, (n, size, key, v));
                }
                Some(e) => {
                    e.0 += n;
                    if (size, &key) < (e.1, &e.2) {
                        e.1 = size;
                        e.2 = key;
                        e.3 = v;
                    }
                }
            }
        }
        for p in o.panics {
            if self.panics.len() < 5 {
                self.panics.push(p);
            }
        }
    }
}

struct Found {
    sig: String,
    what: String,
    expected: Value,
    observed: Value,
}

fn line_col(text: &str, off: usize) -> (u32, u32, usize) {
    // 1-based line (split at '\n'), 1-based char column, byte offset of line start
    let before = &text[..off];
    let line = before.matches('\n').count() as u32 + 1;
    let ls = before.rfind('\n').map(|x| x + 1).unwrap_or(0);
    let col = text[ls..off].chars().count() as u32 + 1;
    (line, col, ls)
}

enum Fw {
    W(usize),
    /// the renderer's `fits_flat` stops here as well (forced line end)
    Stop,
    /// not modelled: skip the contract check for this group
    Skip,
}

fn leaf_flat_width(d: &Desc, l: &LeafD, own: bool) -> Fw {
    // width of a leaf in a flat layout; `own` = inside the group under test (break-only things
    // count 0, as documented), otherwise the largest amount the leaf can put on the line.
    Fw::W(match l.kind {
        Leaf::Text | Leaf::Anchored => d.pieces[l.p0].chars,
        Leaf::Space => 1,
        Leaf::TextMl | Leaf::AnchoredMl => return Fw::Skip,
        Leaf::LineSp => 1,
        Leaf::LineEmpty => 0,
        Leaf::Pad => PAD_W as usize,
        Leaf::IfFlatPad => IFFLATPAD_W as usize,
        Leaf::IfBreak => {
            if own {
                0
            } else {
                d.pieces[l.p0].chars
            }
        }
        Leaf::IfBreakPad => {
            if own {
                0
            } else {
                IFBREAKPAD_W as usize
            }
        }
        Leaf::Comment(1, _) | Leaf::Comment(2, _) => {
            if own {
                return Fw::Skip;
            }
            d.pieces[l.p0].chars + 1
        }
        Leaf::Hard | Leaf::Dedent | Leaf::Comment(..) | Leaf::Comment2 => {
            return if own { Fw::Skip } else { Fw::Stop };
        }
    })
}

/// Applies every oracle to one rendering. Returns the findings (empty = all properties hold).
fn check_case(d: &Desc, opt: Opt, text: &str, anchors: &[veryl_pretty::render::RenderedAnchor], acc: &mut Acc) -> Vec<Found> {
    let mut out: Vec<Found> = vec![];
    let np = d.pieces.len();

    // ---- 1. markers: once each, in order
    let mut pos: Vec<Option<usize>> = vec![None; np];
    for (i, p) in d.pieces.iter().enumerate() {
        match text.find(&p.text) {
            Some(at) => {
                if text[at + p.text.len()..].contains(&p.text) {
                    out.push(Found {
                        sig: "C28:content-duplicated".into(),
                        what: format!("marker {:?} occurs more than once", p.text),
                        expected: json!("exactly one occurrence"),
                        observed: json!(text),
                    });
                }
                pos[i] = Some(at);
            }
            None => {
                if !p.optional {
                    out.push(Found {
                        sig: format!(
                            "C28:content-lost:{}",
                            if p.anchored && p.text.starts_with('/') {
                                "comment"
                            } else if p.anchored {
                                "anchored"
                            } else {
                                "text"
                            }
                        ),
                        what: format!("marker {:?} missing from the rendered text", p.text),
                        expected: json!("present once"),
                        observed: json!(text),
                    });
                }
            }
        }
    }
    let mut last_end = 0usize;
    for (i, p) in d.pieces.iter().enumerate() {
        if let Some(at) = pos[i] {
            if at < last_end {
                out.push(Found {
                    sig: "C28:content-out-of-order".into(),
                    what: format!("marker {:?} printed before an earlier leaf's text", p.text),
                    expected: json!("document order"),
                    observed: json!(text),
                });
            }
            last_end = at + p.text.len();
        }
    }
    // squeezed equality
    {
        let mut exp = String::new();
        for (i, p) in d.pieces.iter().enumerate() {
            if !p.optional || pos[i].is_some() {
                exp.push_str(&p.squeezed);
            }
        }
        let got: String = text.chars().filter(|c| !c.is_whitespace()).collect();
        if exp != got {
            out.push(Found {
                sig: "C28:non-blank-content-differs".into(),
                what: "rendered text without white space is not the concatenation of the leaf texts".into(),
                expected: json!(exp),
                observed: json!(got),
            });
        }
    }
    if !out.is_empty() {
        return out; // positions below would be unreliable
    }

    // ---- 2. group modes
    // per context: observations (true = broken)
    let nctx = d.ctxs.len();
    let mut obs: Vec<Vec<(bool, &'static str)>> = vec![vec![]; nctx];
    for (j, l) in d.leaves.iter().enumerate() {
        match l.kind {
            Leaf::IfBreak => {
                let present = pos[l.p0].is_some();
                obs[l.ctx].push((present, "ifbreak"));
                if present {
                    acc.ifbreak_present += 1;
                } else {
                    acc.ifbreak_absent += 1;
                }
            }
            Leaf::LineSp | Leaf::LineEmpty => {
                // left bracket
                let mut left: Option<usize> = None;
                let mut ok = true;
                let mut i = j;
                loop {
                    if i == 0 {
                        left = Some(0);
                        break;
                    }
                    i -= 1;
                    let x = &d.leaves[i];
                    match x.kind {
                        Leaf::Text | Leaf::Anchored | Leaf::TextMl | Leaf::AnchoredMl => {
                            left = Some(pos[x.p0].unwrap() + d.pieces[x.p0].text.len());
                            break;
                        }
                        Leaf::IfBreak => {
                            if let Some(at) = pos[x.p0] {
                                left = Some(at + d.pieces[x.p0].text.len());
                                break;
                            }
                        }
                        Leaf::Pad | Leaf::IfBreakPad | Leaf::IfFlatPad | Leaf::Space => {}
                        Leaf::LineSp | Leaf::LineEmpty => {
                            if x.ctx != l.ctx {
                                ok = false;
                                break;
                            }
                        }
                        Leaf::Comment(1, _) | Leaf::Comment(2, _) => {
                            left = Some(pos[x.p0].unwrap() + d.pieces[x.p0].text.len());
                            break;
                        }
                        _ => {
                            ok = false;
                            break;
                        }
                    }
                }
                if !ok || left.is_none() {
                    continue;
                }
                let mut right: Option<usize> = None;
                let mut i = j + 1;
                loop {
                    if i >= d.leaves.len() {
                        right = Some(text.len());
                        break;
                    }
                    let x = &d.leaves[i];
                    match x.kind {
                        Leaf::Text | Leaf::Anchored | Leaf::TextMl | Leaf::AnchoredMl => {
                            right = Some(pos[x.p0].unwrap());
                            break;
                        }
                        Leaf::IfBreak => {
                            if let Some(at) = pos[x.p0] {
                                right = Some(at);
                                break;
                            }
                        }
                        Leaf::Pad | Leaf::IfBreakPad | Leaf::IfFlatPad | Leaf::Space => {}
                        Leaf::LineSp | Leaf::LineEmpty => {
                            if x.ctx != l.ctx {
                                ok = false;
                                break;
                            }
                        }
                        Leaf::Comment(_, 0) | Leaf::Comment2 => {
                            right = Some(pos[x.p0].unwrap());
                            break;
                        }
                        _ => {
                            ok = false;
                            break;
                        }
                    }
                    i += 1;
                }
                if !ok {
                    continue;
                }
                let (a, b) = (left.unwrap(), right.unwrap());
                if a > b {
                    continue;
                }
                let broken = text[a..b].contains('\n');
                obs[l.ctx].push((broken, "line"));
                acc.line_observations += 1;
            }
            Leaf::Pad | Leaf::IfBreakPad | Leaf::IfFlatPad => {
                // observable when both neighbours are single-line markers that are always printed:
                // the gap between them is exactly what this leaf wrote
                if j == 0 || j + 1 >= d.leaves.len() {
                    continue;
                }
                let (a, b) = (&d.leaves[j - 1], &d.leaves[j + 1]);
                if !matches!(a.kind, Leaf::Text | Leaf::Anchored) || !matches!(b.kind, Leaf::Text | Leaf::Anchored) {
                    continue;
                }
                let from = pos[a.p0].unwrap() + d.pieces[a.p0].text.len();
                let to = pos[b.p0].unwrap();
                let gap = &text[from..to];
                let w = match l.kind {
                    Leaf::Pad => PAD_W,
                    Leaf::IfBreakPad => IFBREAKPAD_W,
                    _ => IFFLATPAD_W,
                } as usize;
                let full = gap.len() == w && gap.bytes().all(|c| c == b' ');
                acc.pad_observations += 1;
                if !(full || (gap.is_empty() && l.kind != Leaf::Pad)) {
                    out.push(Found {
                        sig: format!("C28:pad-width:{}", show(&T::L(l.kind))),
                        what: format!("pad leaf #{j} of width {w} between two markers produced {gap:?}"),
                        expected: json!(format!("{w} blanks{}", if l.kind == Leaf::Pad { "" } else { " or nothing" })),
                        observed: json!(text),
                    });
                    continue;
                }
                match l.kind {
                    Leaf::IfBreakPad => obs[l.ctx].push((full, "ifbreakpad")),
                    Leaf::IfFlatPad => obs[l.ctx].push((!full, "ifflatpad")),
                    _ => {}
                }
            }
            _ => {}
        }
    }
    let mut mode: Vec<Option<bool>> = vec![None; nctx];
    for c in 0..nctx {
        let mut m = d.ctxs[c].fixed;
        let fixed = m.is_some();
        let mut independent = if fixed { 1 } else { 0 };
        for (b, src) in &obs[c] {
            if *src != "ifbreak" {
                independent += 1;
            }
            match m {
                None => m = Some(*b),
                Some(x) if x != *b => {
                    let mut kinds: Vec<&str> = obs[c].iter().map(|(_, s)| *s).collect();
                    if fixed {
                        kinds.push(if c == 0 { "root" } else { "forced-flat" });
                    }
                    kinds.sort();
                    kinds.dedup();
                    let sig = format!("C28:group-mode-inconsistent:{}", kinds.join("+"));
                    out.push(Found {
                        sig,
                        what: format!(
                            "context #{c} ({}) shows contradictory modes: fixed={:?} observations={:?}",
                            if d.ctxs[c].is_group { "group" } else if c == 0 { "root" } else { "force_flat" },
                            d.ctxs[c].fixed.map(|b| if b { "broken" } else { "flat" }),
                            obs[c].iter().map(|(b, s)| format!("{s}:{}", if *b { "broken" } else { "flat" })).collect::<Vec<_>>()
                        ),
                        expected: json!("break-only text printed iff the sibling Line of the same group is a newline"),
                        observed: json!(text),
                    });
                    break;
                }
                _ => {}
            }
        }
        mode[c] = m;
        let n_ib = obs[c].iter().filter(|(_, s)| *s == "ifbreak").count() as u64;
        if n_ib > 0 && independent > 0 {
            acc.ifbreak_cross_checked += n_ib;
        }
    }
    for c in 1..nctx {
        if mode[c] == Some(true) {
            // a broken context needs all ancestors broken
            let mut p = d.ctxs[c].parent;
            while p != usize::MAX {
                if mode[p] == Some(false) {
                    out.push(Found {
                        sig: "C28:broken-group-inside-flat-group".into(),
                        what: format!("context #{c} rendered broken inside flat context #{p}"),
                        expected: json!("flat layout is inherited"),
                        observed: json!(text),
                    });
                    break;
                }
                p = d.ctxs[p].parent;
            }
        }
        if d.ctxs[c].is_group && d.ctxs[c].fixed.is_none() {
            match mode[c] {
                Some(true) => acc.groups_broken += 1,
                Some(false) => acc.groups_flat += 1,
                None => {}
            }
        }
    }

    // ---- 3. documented layout contract, conservative direction
    for c in 1..nctx {
        let cx = &d.ctxs[c];
        if !(cx.is_group && cx.fixed.is_none() && mode[c] == Some(true)) || cx.l0 >= cx.l1 {
            continue;
        }
        let first = &d.leaves[cx.l0];
        if !matches!(first.kind, Leaf::Text | Leaf::Anchored) {
            continue;
        }
        let mut own = 0usize;
        let mut ok = true;
        for l in &d.leaves[cx.l0..cx.l1] {
            match leaf_flat_width(d, l, true) {
                Fw::W(w) => own += w,
                _ => {
                    ok = false;
                    break;
                }
            }
        }
        if !ok {
            continue;
        }
        let mut cont = 0usize;
        for l in &d.leaves[cx.l1..] {
            match leaf_flat_width(d, l, false) {
                Fw::W(w) => cont += w,
                Fw::Stop => break,
                Fw::Skip => {
                    ok = false;
                    break;
                }
            }
        }
        if !ok {
            continue;
        }
        let at = pos[first.p0].unwrap();
        let (_, col, _) = line_col(text, at);
        let start = col as usize - 1;
        acc.fits_checks += 1;
        if start + own + cont <= opt.max_width {
            out.push(Found {
                sig: "C28:group-broken-though-flat-fits".into(),
                what: format!(
                    "group #{c} starts at column {start}, its flat layout needs {own} columns (break-only text counted 0) and everything after it up to the next forced newline at most {cont}; max_width = {}; yet it was rendered broken",
                    opt.max_width
                ),
                expected: json!("doc.rs: Group = render flat if it fits within max_width; IfBreak contributes 0 to fits_flat"),
                observed: json!(text),
            });
        }
    }

    // ---- 4. anchors
    let exp_anchor: Vec<usize> = (0..np).filter(|i| d.pieces[*i].anchored).collect();
    if anchors.len() != exp_anchor.len() {
        out.push(Found {
            sig: "C28:anchor-count".into(),
            what: format!("{} anchors recorded, {} anchored leaves / comments in the document", anchors.len(), exp_anchor.len()),
            expected: json!(exp_anchor.len()),
            observed: json!(anchors.len()),
        });
    } else {
        for (k, pi) in exp_anchor.iter().enumerate() {
            let p = &d.pieces[*pi];
            let a = &anchors[k];
            if &*a.text != p.text.as_str() || (a.src_line, a.src_column) != p.src {
                out.push(Found {
                    sig: "C28:anchor-identity".into(),
                    what: format!("anchor #{k} carries text {:?} src {}:{}, document order expects {:?} src {}:{}", a.text, a.src_line, a.src_column, p.text, p.src.0, p.src.1),
                    expected: json!(p.text),
                    observed: json!(&*a.text),
                });
                continue;
            }
            let at = pos[*pi].unwrap();
            let (line, col, ls) = line_col(text, at);
            acc.anchors_checked += 1;
            let prefix = &text[ls..at];
            let is_comment = p.text.starts_with('/');
            // classification of what shares the output line before the anchor
            let mut tail_of_multiline = false;
            let mut tail_of_multiline_text = false;
            let mut after_comment = false;
            for (qi, q) in d.pieces.iter().enumerate() {
                if qi >= *pi {
                    break;
                }
                if let Some(qa) = pos[qi] {
                    let qe = qa + q.text.len();
                    if qe > ls && qe <= at {
                        if q.text.starts_with('/') {
                            after_comment = true;
                        }
                        if q.multi_line && qa < ls {
                            if q.text.starts_with('/') {
                                tail_of_multiline = true;
                            } else {
                                tail_of_multiline_text = true;
                            }
                        }
                    }
                }
            }
            let blank_prefix = prefix.chars().all(|c| c == ' ');
            if is_comment {
                acc.anchors_comment += 1;
            }
            if line > 1 {
                acc.anchors_line_gt1 += 1;
            }
            if blank_prefix && !prefix.is_empty() && !is_comment {
                acc.anchors_first_on_indented_line += 1;
            }
            if !blank_prefix {
                acc.anchors_mid_line += 1;
            }
            if after_comment {
                acc.anchors_after_comment_same_line += 1;
            }
            if tail_of_multiline {
                acc.anchors_after_multiline_comment_tail += 1;
            }
            if tail_of_multiline_text {
                acc.anchors_after_multiline_text_tail += 1;
            }
            if prefix.len() != prefix.chars().count() {
                acc.anchors_multibyte_prefix += 1;
            }
            if !is_comment {
                // leaf context mode
                let leaf = d.leaves.iter().find(|l| l.p0 <= *pi && *pi < l.p1).unwrap();
                let cx = leaf.ctx;
                if d.ctxs[cx].is_group && d.ctxs[cx].fixed.is_none() {
                    match mode[cx] {
                        Some(true) => acc.anchors_in_broken_group += 1,
                        Some(false) => acc.anchors_in_flat_group += 1,
                        None => {}
                    }
                }
            }
            if (a.dst_line, a.dst_column) != (line, col) {
                let coord = if a.dst_line != line { "line" } else { "column" };
                // one root cause = one signature: the class says what shares the line before the
                // anchor (that is what decides which column bookkeeping of the renderer is used)
                let class = if tail_of_multiline {
                    "after-multiline-block-comment"
                } else if tail_of_multiline_text {
                    "after-multiline-text"
                } else if blank_prefix {
                    "first-on-line"
                } else if after_comment {
                    "after-comment-on-same-line"
                } else {
                    "mid-line"
                };
                out.push(Found {
                    sig: format!("C28:anchor-{coord}:{class}"),
                    what: format!(
                        "anchor for {:?} recorded at {}:{} but the text was written at {}:{} (1-based, char columns)",
                        p.text, a.dst_line, a.dst_column, line, col
                    ),
                    expected: json!({"dst_line": line, "dst_column": col}),
                    observed: json!({"dst_line": a.dst_line, "dst_column": a.dst_column, "text": text}),
                });
            }
        }
    }

    // ---- 5. trailing blanks
    if opt.strip {
        let nl = if opt.crlf { "\r\n" } else { "\n" };
        for line in text.split(nl) {
            acc.strip_lines_checked += 1;
            if line.ends_with(' ') || line.ends_with('\t') {
                out.push(Found {
                    sig: "C28:trailing-blank-with-strip-on".into(),
                    what: "an output line ends in a blank although strip_trailing_whitespace is set".into(),
                    expected: json!("no trailing blanks"),
                    observed: json!(text),
                });
                break;
            }
        }
    }
    out
}

fn hash64(s: &str) -> u64 {
    let h = blake3::hash(s.as_bytes());
    u64::from_le_bytes(h.as_bytes()[..8].try_into().unwrap())
}

fn tree_size(t: &T) -> usize {
    match t {
        T::L(_) => 1,
        T::U(_, c) => 1 + tree_size(c),
        T::C(cs) => 1 + cs.iter().map(tree_size).sum::<usize>(),
    }
}

fn process(t: &T, opts: &[Opt], acc: &mut Acc) {
    let (doc, d) = describe(t);
    acc.trees += 1;
    for opt in opts {
        let ro = opt.to_render();
        let r = match std::panic::catch_unwind(std::panic::AssertUnwindSafe(|| render_with_anchors(&doc, &ro))) {
            Ok(r) => r,
            Err(p) => {
                if acc.panics.len() < 5 {
                    acc.panics.push(format!("{} on {} {:?}", panic_message(p), show(t), opt));
                }
                continue;
            }
        };
        acc.evaluations += 1;
        let before = (acc.anchors_checked, acc.line_observations + acc.pad_observations, acc.ifbreak_present + acc.ifbreak_absent);
        let found = check_case(&d, *opt, &r.text, &r.anchors, acc);
        let after = (acc.anchors_checked, acc.line_observations + acc.pad_observations, acc.ifbreak_present + acc.ifbreak_absent);
        if before != after {
            acc.nontrivial += 1;
        }
        if acc.distinct_outputs_hash.len() < 200_000 {
            acc.distinct_outputs_hash.insert(hash64(&r.text));
        }
        for f in found {
            let size = tree_size(t);
            let key = format!("{}|{:?}", show(t), opt);
            let e = acc.viol.entry(f.sig.clone());
            let mk = || Violation {
                signature: f.sig.clone(),
                what: f.what.clone(),
                case: json!({"doc": show(t), "opts": opt.json(), "doc_debug": format!("{doc:?}"),
                             "anchors": r.anchors.iter().map(|a| json!([a.dst_line, a.dst_column, &*a.text])).collect::<Vec<_>>()}),
                expected: f.expected.clone(),
                observed: f.observed.clone(),
            };
            match e {
                std::collections::btree_map::Entry::Vacant(v) => {
                    v.insert((1, size, key, mk()));
                }
                std::collections::btree_map::Entry::Occupied(mut o) => {
                    let x = o.get_mut();
                    x.0 += 1;
                    if (size, &key) < (x.1, &x.2) {
                        x.1 = size;
                        x.2 = key;
                        x.3 = mk();
                    }
                }
            }
        }
    }
}

// ------------------------------------------------------------------------------------------
// driver

enum Base {
    /// trees of lists[n][a..b]
    Slice(usize, usize, usize),
    /// Concat root: composition of child sizes, index of the first child in its list
    Concat(Vec<usize>, usize),
}

struct Job {
    fam: usize,
    size: usize,
    /// unary constructors wrapped around the base, outermost first
    wraps: Vec<Un>,
    base: Base,
}

fn gen_jobs(fam_ix: usize, f: &Family, n: usize, wraps: &mut Vec<Un>, total: usize, out: &mut Vec<Job>) {
    let stored = f.lists.len() - 1;
    if n <= stored {
        let len = f.lists[n].len();
        let mut a = 0;
        while a < len {
            let b = (a + 1024).min(len);
            out.push(Job {
                fam: fam_ix,
                size: total,
                wraps: wraps.clone(),
                base: Base::Slice(n, a, b),
            });
            a = b;
        }
        return;
    }
    for u in &f.unaries {
        wraps.push(*u);
        gen_jobs(fam_ix, f, n - 1, wraps, total, out);
        wraps.pop();
    }
    for comp in compositions(n - 1, 2) {
        assert!(comp.iter().all(|s| *s <= stored));
        for first in 0..f.lists[comp[0]].len() {
            out.push(Job {
                fam: fam_ix,
                size: total,
                wraps: wraps.clone(),
                base: Base::Concat(comp.clone(), first),
            });
        }
    }
}

fn wrap(ws: &[Un], t: T) -> T {
    let mut t = t;
    for u in ws.iter().rev() {
        t = T::U(*u, Box::new(t));
    }
    t
}

fn run_job(job: &Job, fams: &[Family], opts: &[Opt]) -> Acc {
    let mut acc = Acc::default();
    let lists = &fams[job.fam].lists;
    let before = acc.trees;
    match &job.base {
        Base::Slice(n, a, b) => {
            for t in &lists[*n][*a..*b] {
                if job.wraps.is_empty() {
                    process(t, opts, &mut acc);
                } else {
                    process(&wrap(&job.wraps, t.clone()), opts, &mut acc);
                }
            }
        }
        Base::Concat(comp, first) => {
            let k = comp.len();
            let mut idx = vec![0usize; k];
            idx[0] = *first;
            'outer: loop {
                let kids: Vec<T> = (0..k).map(|i| lists[comp[i]][idx[i]].clone()).collect();
                process(&wrap(&job.wraps, T::C(kids)), opts, &mut acc);
                // advance positions 1..k
                let mut p = k - 1;
                loop {
                    if p == 0 {
                        break 'outer;
                    }
                    idx[p] += 1;
                    if idx[p] < lists[comp[p]].len() {
                        break;
                    }
                    idx[p] = 0;
                    p -= 1;
                }
            }
        }
    }
    acc.by_size[job.fam][job.size] += acc.trees - before;
    acc
}

pub fn run(ctx: &Ctx) -> Report {
    let mut rep = Report::new(Level::Exploration);
    install_quiet_panic_hook();
    let env_n = |k: &str, d: usize| -> usize {
        std::env::var(k).ok().and_then(|x| x.parse().ok()).unwrap_or(d).clamp(1, MAX_N)
    };
    let n_full = env_n("VMC_C28_N", if ctx.thorough() { 6 } else { 5 });
    let n_red = env_n("VMC_C28_N_REDUCED", if ctx.thorough() { 8 } else { 7 });
    let budget = ctx.budget(40.0, 1200.0);
    let opts: Vec<Opt> = if ctx.thorough() {
        all_opts()
    } else {
        // quick: 12 of the 36 combinations; every value of every option appears with every max_width
        all_opts()
            .into_iter()
            .enumerate()
            .filter(|(i, _)| i % 3 == 0)
            .map(|(_, o)| o)
            .collect()
    };

    let (rl, ru) = reduced_alphabet();
    let fams = vec![
        make_family("full", alphabet(), UNARIES.to_vec(), n_full),
        make_family("reduced", rl, ru, n_red),
    ];
    let mut expected: Vec<Vec<u64>> = vec![];
    for f in &fams {
        let mut memo = vec![None; f.n_max + 1];
        let mut v = vec![0u64; MAX_N + 1];
        for n in 1..=f.n_max {
            v[n] = count_exact(n, f.leaves.len() as u64, f.unaries.len() as u64, &mut memo);
        }
        expected.push(v);
    }

    // jobs, smallest sizes first (both families interleaved by size)
    let mut jobs: Vec<Job> = vec![];
    for n in 1..=MAX_N {
        for (i, f) in fams.iter().enumerate() {
            if n <= f.n_max {
                gen_jobs(i, f, n, &mut vec![], n, &mut jobs);
            }
        }
    }
    // VERIF_SEED only rotates the shard order within one size class
    if ctx.seed != 0 {
        let mut a = 0;
        while a < jobs.len() {
            let mut b = a;
            while b < jobs.len() && jobs[b].size == jobs[a].size {
                b += 1;
            }
            let k = (ctx.seed as usize) % (b - a);
            jobs[a..b].rotate_left(k);
            a = b;
        }
    }

    let capped = std::sync::atomic::AtomicBool::new(false);
    let total = {
        use rayon::prelude::*;
        jobs.par_iter()
            .fold(Acc::default, |mut acc, job| {
                if ctx.elapsed() > budget {
                    capped.store(true, std::sync::atomic::Ordering::Relaxed);
                    return acc;
                }
                acc.merge(run_job(job, &fams, &opts));
                acc
            })
            .reduce(Acc::default, |mut a, b| {
                a.merge(b);
                a
            })
    };
    let capped = capped.load(std::sync::atomic::Ordering::Relaxed);

    let mut all_complete = true;
    let mut trees_in_family = 0u64;
    for (i, f) in fams.iter().enumerate() {
        let mut completed = 0usize;
        for n in 1..=f.n_max {
            if total.by_size[i][n] == expected[i][n] && completed == n - 1 {
                completed = n;
            }
            if total.by_size[i][n] > expected[i][n] {
                rep.machinery(format!("family {} size {n}: rendered {} trees, recurrence says {}", f.name, total.by_size[i][n], expected[i][n]));
            }
            trees_in_family += expected[i][n];
        }
        if completed < f.n_max {
            all_complete = false;
            if !capped {
                rep.machinery(format!("family {}: enumeration incomplete without a budget cap (completed N={completed})", f.name));
            }
        }
        rep.set(&format!("{}_max_nodes_requested", f.name), f.n_max as u64);
        rep.set(&format!("{}_max_nodes_completed", f.name), completed as u64);
        rep.set(&format!("{}_leaf_kinds", f.name), f.leaves.len() as u64);
        rep.set(&format!("{}_unary_kinds", f.name), f.unaries.len() as u64);
        rep.set(
            &format!("{}_alphabet", f.name),
            json!(f.leaves.iter().map(|l| show(&T::L(*l))).chain(f.unaries.iter().map(|u| show(&T::U(*u, Box::new(T::L(Leaf::Text)))).replace("(T)", "(.)"))).chain(["C(.,.,..)".to_string()]).collect::<Vec<_>>()),
        );
        rep.set(
            &format!("{}_trees_by_size", f.name),
            json!((1..=f.n_max).map(|n| json!({"n": n, "expected": expected[i][n], "rendered": total.by_size[i][n]})).collect::<Vec<_>>()),
        );
    }

    rep.set("render_option_sets", opts.len() as u64);
    rep.set("trees_in_family", trees_in_family);
    rep.set("trees_rendered", total.trees);
    rep.set("evaluations", total.evaluations);
    rep.set("distinct_nontrivial", total.nontrivial);
    rep.set("distinct_outputs_sampled", total.distinct_outputs_hash.len() as u64);
    rep.set("capped_by_budget", capped);
    rep.set("budget_s", budget);
    rep.set("exhaustive", !capped && all_complete);
    rep.set("groups_observed_broken", total.groups_broken);
    rep.set("groups_observed_flat", total.groups_flat);
    rep.set("ifbreak_printed", total.ifbreak_present);
    rep.set("ifbreak_suppressed", total.ifbreak_absent);
    rep.set("ifbreak_cross_checked_against_line_or_fixed_mode", total.ifbreak_cross_checked);
    rep.set("line_mode_observations", total.line_observations);
    rep.set("pad_observations", total.pad_observations);
    rep.set("anchors_checked", total.anchors_checked);
    rep.set("anchors_of_comments", total.anchors_comment);
    rep.set("anchors_first_on_indented_line", total.anchors_first_on_indented_line);
    rep.set("anchors_mid_line", total.anchors_mid_line);
    rep.set("anchors_after_comment_on_same_line", total.anchors_after_comment_same_line);
    rep.set("anchors_after_multiline_comment_tail", total.anchors_after_multiline_comment_tail);
    rep.set("anchors_after_multiline_text_tail", total.anchors_after_multiline_text_tail);
    rep.set("anchors_with_multibyte_text_before_on_line", total.anchors_multibyte_prefix);
    rep.set("anchors_in_broken_group", total.anchors_in_broken_group);
    rep.set("anchors_in_flat_group", total.anchors_in_flat_group);
    rep.set("anchors_beyond_line_1", total.anchors_line_gt1);
    rep.set("fits_contract_checks", total.fits_checks);
    rep.set("strip_lines_checked", total.strip_lines_checked);
    rep.set(
        "rule",
        "a (doc, opts) case is non-trivial when at least one anchor position, one bracketed Line, one pad or one break-only text was observed and checked; every tree with <= N nodes over the family alphabet is rendered by the real veryl_pretty renderer",
    );
    rep.set(
        "option_grid",
        json!(opts.iter().map(|o| o.json()).collect::<Vec<_>>()),
    );
    let mut vc = serde_json::Map::new();
    for (sig, (n, _, _, _)) in &total.viol {
        vc.insert(sig.clone(), json!(n));
    }
    rep.set("violation_cases_by_signature", Value::Object(vc));
    for s in ["G(C(T,Ls,B))", "C(I+(C(H,A)),Kb0,A)", "F(G(C(A,Ls,B)))", "G(I+(C(A,Bp,A,Ls,Kl0,H,A)))"] {
        if let Some(t) = parse(s) {
            let (doc, _) = describe(&t);
            let o = opts[opts.len() / 3];
            let r = render_with_anchors(&doc, &o.to_render());
            rep.sample(json!({"doc": s, "opts": o.json(), "text": r.text,
                "anchors": r.anchors.iter().map(|a| json!([a.dst_line, a.dst_column, &*a.text])).collect::<Vec<_>>()}));
        }
    }
    rep.assume("leaf texts are unique markers without blanks (plus Text(\" \")); Pad / IfBreakPad / IfFlatPad / DedentHardline use width 1 / 2 / 1 / level 1; Indent levels are +1 / -1");
    rep.assume("anchor columns are 1-based char columns and lines are split at '\\n' (convention of render.rs State.col / current_line)");
    rep.assume("layout contract check (group broken although flat fits) is one-directional: it never flags a group that was laid out flat");

    for p in &total.panics {
        rep.machinery(format!("renderer panicked: {p}"));
    }
    for (_, (_, _, _, v)) in total.viol {
        rep.violation(v);
    }
    // vacuity guards
    let guards: [(&str, u64); 14] = [
        ("groups_observed_broken", total.groups_broken),
        ("groups_observed_flat", total.groups_flat),
        ("ifbreak_printed", total.ifbreak_present),
        ("ifbreak_suppressed", total.ifbreak_absent),
        ("ifbreak_cross_checked", total.ifbreak_cross_checked),
        ("pad_observations", total.pad_observations),
        ("anchors_first_on_indented_line", total.anchors_first_on_indented_line),
        ("anchors_after_comment_on_same_line", total.anchors_after_comment_same_line),
        ("anchors_after_multiline_text_tail", total.anchors_after_multiline_text_tail),
        ("anchors_with_multibyte_text_before_on_line", total.anchors_multibyte_prefix),
        ("anchors_in_broken_group", total.anchors_in_broken_group),
        ("anchors_in_flat_group", total.anchors_in_flat_group),
        ("fits_contract_checks", total.fits_checks),
        ("strip_lines_checked", total.strip_lines_checked),
    ];
    for (k, v) in guards {
        if v == 0 {
            rep.machinery(format!("vacuity guard: {k} = 0"));
        }
    }
    if total.distinct_outputs_hash.len() < 100 {
        rep.machinery("vacuity guard: fewer than 100 distinct rendered texts");
    }
    rep
}

pub fn replay(doc: &Value) -> i32 {
    let Some(s) = doc["case"]["doc"].as_str() else {
        eprintln!("no case.doc in replay file");
        return 2;
    };
    let Some(t) = parse(s) else {
        eprintln!("cannot parse doc {s}");
        return 2;
    };
    let o = &doc["case"]["opts"];
    let opt = Opt {
        max_width: o["max_width"].as_u64().unwrap_or(120) as usize,
        indent_width: o["indent_width"].as_u64().unwrap_or(4) as usize,
        crlf: o["newline"].as_str() == Some("\r\n"),
        strip: o["strip_trailing_whitespace"].as_bool().unwrap_or(false),
    };
    let (d, desc) = describe(&t);
    let r = render_with_anchors(&d, &opt.to_render());
    let mut acc = Acc::default();
    let found = check_case(&desc, opt, &r.text, &r.anchors, &mut acc);
    println!("doc: {d:?}\nopts: {}\ntext: {:?}", opt.json(), r.text);
    for a in &r.anchors {
        println!("anchor {}:{} {:?}", a.dst_line, a.dst_column, a.text);
    }
    if found.is_empty() {
        println!("case passes");
        0
    } else {
        for f in found {
            println!("still failing: {} — {}", f.sig, f.what);
        }
        1
    }
}

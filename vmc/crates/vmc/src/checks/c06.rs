//! C06 — restoring a cached pass-1 fragment reproduces the analyzer state exactly.
//!
//! Engine E1 (exhaustive family): for every case (a catalogue entry or a file of
//! `testcases/veryl`), every context (0/1/2 pool files in front, dependency-first or
//! dependency-last order) in which the fragment of file `f` is *captured*, and every context in
//! which it is *restored*:
//!   cold run  = all files parsed + pass1 (capturing `f` on the way),
//!   warm run  = same order, `f` restored from the fragment bytes captured in the other context,
//! each on a fresh thread (the analyzer tables and ID counters are thread-local). The oracle is the
//! cold run: byte equality of the analyzer's own dumps and of an independent deep dump of every
//! table the fragment carries (symbols incl. all ID-bearing fields, references, scopes, token
//! scopes, literals, attributes, unsafe blocks, definitions, doc comments, texts, type DAG), taken
//! both right after the pass-1 phase and after `analyze_post_pass1`; then equal diagnostics and
//! equal emitted SystemVerilog of every freshly parsed file (a restored file gets no pass2 / emit
//! in the real pipeline, `veryl/src/pipeline.rs`).

use super::c06_catalogue::{self as cat, FcEntry};
use super::c06_dbgnorm::{self as dbg, Resolver};
use crate::core::*;
use serde_json::{Value, json};
use std::collections::{BTreeMap, BTreeSet};
use std::path::{Path, PathBuf};
use veryl_analyzer::definition_table::{self, DefinitionId};
use veryl_analyzer::fragment_cache::{self, Fragment};
use veryl_analyzer::scope::{self, ScopeId};
use veryl_analyzer::symbol::{self, SymbolId};
use veryl_analyzer::{
    Analyzer, AnalyzerError, CachedDiagnostic, attribute_table, literal_table, symbol_table, type_dag,
    unsafe_table,
};
use veryl_emitter::Emitter;
use veryl_metadata::Metadata;
use veryl_parser::resource_table::{self, PathId, StrId, TokenId};
use veryl_parser::text_table::{self, TextId};
use veryl_parser::{Parser, doc_comment_table};

pub const PRJ: &str = "veryl_testcase";
const STACK: usize = 64 * 1024 * 1024;
const CROSS: &str = ":cross-order";

pub fn metadata_toml() -> String {
    format!(
        r#"[project]
name = "{PRJ}"
version = "0.1.0"
[build]
clock_type = "posedge"
reset_type = "async_low"
reset_low_suffix = "_n"
sources = ["src"]
target = {{type = "directory", path = "target"}}
sourcemap_target = {{type = "none"}}
"#
    )
}

#[derive(Clone, Debug)]
pub struct SrcFile {
    pub path: PathBuf,
    pub text: String,
}

#[derive(Clone)]
pub struct Case {
    pub name: String,
    /// dependency-first order of the case's own files
    pub files: Vec<SrcFile>,
    pub f_idx: usize,
    pub from_corpus: bool,
}

#[derive(Clone, Copy, PartialEq, Eq, Debug, PartialOrd, Ord)]
pub struct Ctxt {
    pub pool: usize,
    pub rev: bool,
}

#[derive(Clone)]
pub enum Mode {
    /// everything parsed; the fragment of `f` is captured
    Cold,
    /// everything parsed, but `f` gets no pass2 / emit (what a restore implies) — triage aid
    ColdSkip,
    /// `f` restored from these fragment bytes
    Warm(Vec<u8>),
}

#[derive(Clone, Debug, PartialEq, Eq, PartialOrd, Ord)]
pub struct DiagS {
    pub owner: Option<String>,
    pub error: bool,
    pub text: String,
}

#[derive(Default)]
pub struct RunOut {
    pub parse_error: Option<String>,
    pub pass1: Vec<Vec<DiagS>>,
    pub capture: Option<Result<Vec<u8>, String>>,
    pub restore: Option<Result<(), String>>,
    pub dump_a: Vec<(String, String)>,
    pub dump_b: Vec<(String, String)>,
    pub post1: Vec<DiagS>,
    pub pass2: BTreeMap<usize, Vec<DiagS>>,
    pub post2: Vec<DiagS>,
    pub sv: BTreeMap<usize, String>,
    pub canon_fallbacks: usize,
}

fn diag(e: &AnalyzerError) -> DiagS {
    let c = CachedDiagnostic::from_error(e);
    DiagS {
        owner: c.token_path().map(|x| x.to_string()),
        error: c.is_error(),
        text: format!("{c:?}"),
    }
}

fn diags(v: &[AnalyzerError]) -> Vec<DiagS> {
    let mut r: Vec<DiagS> = v.iter().map(diag).collect();
    r.sort();
    r
}

struct Res;
impl Resolver for Res {
    fn str_id(&self, n: usize) -> String {
        resource_table::get_str_value(StrId(n)).unwrap_or_else(|| format!("?str{n}"))
    }
    fn path_id(&self, n: usize) -> String {
        resource_table::get_path_value(PathId(n))
            .map(|x| x.to_string_lossy().to_string())
            .unwrap_or_else(|| format!("?path{n}"))
    }
    fn scope_id(&self, n: usize) -> String {
        scope_path(ScopeId(n as u32))
    }
}

fn scope_path(s: ScopeId) -> String {
    scope::name_path(s).iter().map(|x| x.to_string()).collect::<Vec<_>>().join("::")
}

fn canon<T: std::fmt::Debug>(x: &T, fallbacks: &mut usize) -> String {
    let raw = format!("{x:?}");
    match dbg::canon(&raw, &Res) {
        Ok(s) => s,
        Err(_) => {
            *fallbacks += 1;
            raw
        }
    }
}

/// Independent dump of every table a fragment carries, in a canonical form (see c06_dbgnorm).
fn deep_dump(files: &[SrcFile], fb: &mut usize) -> Vec<(String, String)> {
    let mut out: Vec<(String, String)> = vec![];
    let n_tok = resource_table::peek_token_id();
    let n_txt = text_table::peek_text_id();
    let n_sym = symbol::peek_symbol_id();
    let n_def = definition_table::peek_definition_id();
    out.push(("counters".into(), format!("token={n_tok} text={n_txt} symbol={n_sym} definition={n_def}")));

    out.push(("symbol_table::dump".into(), symbol_table::dump()));
    out.push(("scope::dump_tokens".into(), scope::dump_tokens()));
    out.push(("type_dag::dump".into(), type_dag::dump()));
    out.push(("type_dag::dump_file".into(), type_dag::dump_file()));
    {
        let mut lines: Vec<String> = type_dag::dependent_files()
            .into_iter()
            .map(|(k, v)| {
                let mut d: Vec<String> = v.iter().map(|x| Res.path_id(x.0)).collect();
                d.sort();
                format!("{} <- {:?}", Res.path_id(k.0), d)
            })
            .collect();
        lines.sort();
        out.push(("type_dag::dependent_files".into(), lines.join("\n")));
    }

    // symbols, with every field (Debug), references and reference functions
    let mut syms = symbol_table::get_all();
    syms.sort_by_key(|s| s.id);
    let mut s_txt = String::new();
    let mut names: BTreeSet<StrId> = BTreeSet::new();
    let mut scopes: BTreeSet<ScopeId> = BTreeSet::new();
    for s in &syms {
        names.insert(s.token.text);
        scopes.insert(s.scope);
        if scope::scope_kind_of(&s.kind).is_some() {
            if let Some(c) = scope::child(s.scope, s.token.text) {
                scopes.insert(c);
            }
        }
        let refs = symbol_table::get_references(s.id).map(|v| canon(&v, fb));
        let rf = symbol_table::get_reference_functions(s.id).map(|v| canon(&v, fb));
        s_txt.push_str(&format!(
            "#{} {} || refs={:?} || reffn={:?}\n",
            s.id.0,
            canon(s, fb),
            refs,
            rf
        ));
    }
    out.push(("symbols".into(), s_txt));

    // per token: scope + literal
    let mut t_txt = String::new();
    let mut l_txt = String::new();
    for i in 1..=n_tok {
        let id = TokenId(i);
        if let Some((sc, dc)) = scope::token_scope(id) {
            scopes.insert(sc);
            t_txt.push_str(&format!(
                "{i}: {} {} prj={:?}\n",
                scope_path(sc),
                canon(&dc, fb),
                scope::token_project(id).map(|x| x.to_string())
            ));
        }
        if let Some(l) = literal_table::get(&id) {
            l_txt.push_str(&format!("{i}: {}\n", canon(&l, fb)));
        }
    }
    out.push(("token_scopes".into(), t_txt));
    out.push(("literals".into(), l_txt));

    // scope tree, through the public API: close the set under `parent`
    let mut work: Vec<ScopeId> = scopes.iter().copied().collect();
    while let Some(s) = work.pop() {
        if let Some(p) = scope::parent(s) {
            if scopes.insert(p) {
                work.push(p);
            }
        }
    }
    let mut sc_lines: Vec<String> = vec![];
    for s in &scopes {
        let mut line = format!(
            "{} | owner={:?} depth={} prj={:?} deleg={:?}",
            scope_path(*s),
            scope::owner_of(*s).map(|x| x.0),
            scope::depth(*s),
            scope::project_of(*s).map(|x| x.to_string()),
            scope::generic_delegation(*s).map(scope_path),
        );
        let mut members: Vec<String> = vec![];
        for n in &names {
            let l = scope::locals_get(*s, *n);
            if !l.is_empty() {
                members.push(format!("local {}={:?}", n, l.iter().map(|x| x.0).collect::<Vec<_>>()));
            }
            let im = scope::imports_get(*s, *n);
            if !im.is_empty() {
                members.push(format!("import {}={}", n, canon(&im, fb)));
            }
        }
        members.sort();
        let w = scope::wildcards_get(*s);
        if !w.is_empty() {
            members.push(format!("wildcards={}", canon(&w, fb)));
        }
        let m = scope::mixin_get(*s);
        if !m.is_empty() {
            members.push(format!("mixins={}", canon(&m, fb)));
        }
        line.push_str(" | ");
        line.push_str(&members.join("; "));
        sc_lines.push(line);
    }
    sc_lines.sort();
    out.push(("scopes".into(), sc_lines.join("\n")));

    let mut a: Vec<String> = attribute_table::get_all().iter().map(|x| canon(x, fb)).collect();
    a.sort();
    out.push(("attributes".into(), a.join("\n")));
    let mut u: Vec<String> = unsafe_table::get_all().iter().map(|x| canon(x, fb)).collect();
    u.sort();
    out.push(("unsafes".into(), u.join("\n")));

    let mut d_txt = String::new();
    for i in 1..=n_def {
        if let Some(d) = definition_table::get(DefinitionId(i)) {
            d_txt.push_str(&format!("{i}: {}\n", canon(&*d, fb)));
        }
    }
    out.push(("definitions".into(), d_txt));

    let mut dc = String::new();
    for f in files {
        if let Some(p) = resource_table::get_path_id(f.path.clone()) {
            let lines = f.text.lines().count() as u32 + 2;
            for l in 0..=lines {
                if let Some(t) = doc_comment_table::get(p, l) {
                    dc.push_str(&format!("{}:{l}: {:?}\n", f.path.display(), t.to_string()));
                }
            }
        }
    }
    out.push(("doc_comments".into(), dc));

    let mut tx = String::new();
    for i in 1..=n_txt {
        if let Some(t) = text_table::get(TextId(i)) {
            let trimmed = t.text.strip_suffix('\n').unwrap_or(&t.text);
            tx.push_str(&format!(
                "{i}: {} text={} text_without_final_newline={}\n",
                Res.path_id(t.path.0),
                hash_hex(t.text.as_bytes()),
                hash_hex(trimmed.as_bytes())
            ));
        }
    }
    out.push(("texts".into(), tx));
    out
}

/// One complete run on the current (fresh) thread.
fn run_here(files: &[SrcFile], f_pos: usize, mode: &Mode) -> RunOut {
    let mut out = RunOut::default();
    // `Token::default()` (e.g. the type token of an untyped `for` variable) carries the raw ids
    // StrId(0) / PathId(0), which alias whatever string / path happened to be interned first on
    // this thread. Pin PathId(0) to the same dummy in every run (cold, capture and warm) so that
    // the placeholder means the same thing everywhere; real paths then start at PathId(1).
    resource_table::insert_path(Path::new("<c06-path-zero>"));
    let metadata: Metadata = toml::from_str(&metadata_toml()).expect("metadata");
    let analyzer = Analyzer::new(&metadata);
    let mut parsers: Vec<Option<Parser>> = vec![];
    for (i, f) in files.iter().enumerate() {
        if i == f_pos {
            if let Mode::Warm(bytes) = mode {
                let prj: StrId = PRJ.into();
                scope::set_project(prj, true);
                let r = match Fragment::from_bytes(bytes) {
                    Ok(frag) => fragment_cache::restore(&frag, prj).map_err(|e| e.to_string()),
                    Err(e) => Err(format!("from_bytes: {e}")),
                };
                out.restore = Some(r);
                out.pass1.push(vec![]);
                parsers.push(None);
                continue;
            }
        }
        let wm = fragment_cache::watermark();
        let parser = match Parser::parse(&f.text, &f.path) {
            Ok(p) => p,
            Err(e) => {
                out.parse_error = Some(format!("{}: {e}", f.path.display()));
                return out;
            }
        };
        let errs = analyzer.analyze_pass1(PRJ, &parser.veryl);
        if i == f_pos && matches!(mode, Mode::Cold) {
            // the pipeline captures only when pass1 produced no diagnostics
            if errs.is_empty() {
                out.capture = Some(
                    fragment_cache::capture(&f.path, &f.text, &wm)
                        .and_then(|x| x.to_bytes())
                        .map_err(|e| e.to_string()),
                );
            }
        }
        out.pass1.push(diags(&errs));
        parsers.push(Some(parser));
    }
    if matches!(out.restore, Some(Err(_))) {
        return out;
    }
    let mut fb = 0usize;
    out.dump_a = deep_dump(files, &mut fb);
    out.post1 = diags(&Analyzer::analyze_post_pass1());
    out.dump_b = deep_dump(files, &mut fb);
    out.canon_fallbacks = fb;

    let skip_f = !matches!(mode, Mode::Cold);
    let mut actx = veryl_analyzer::Context::default();
    let mut ir = veryl_analyzer::ir::Ir::default();
    for (i, p) in parsers.iter().enumerate() {
        let Some(p) = p else { continue };
        if skip_f && i == f_pos {
            continue;
        }
        actx.set_project_name(PRJ);
        let e = analyzer.analyze_pass2(&p.veryl, &mut actx, Some(&mut ir));
        out.pass2.insert(i, diags(&e));
    }
    out.post2 = diags(&Analyzer::analyze_post_pass2(&ir));
    for (i, p) in parsers.iter().enumerate() {
        let Some(p) = p else { continue };
        if skip_f && i == f_pos {
            continue;
        }
        let src = &files[i].path;
        let dst = src.with_extension("sv");
        let map = src.with_extension("sv.map");
        let mut em = Emitter::new(&metadata, PRJ, src, &dst, &map);
        em.emit(&p.veryl, &files[i].text);
        out.sv.insert(i, em.as_str().to_string());
    }
    out
}

pub fn run_one(files: Vec<SrcFile>, f_pos: usize, mode: Mode) -> Result<RunOut, String> {
    run_isolated(STACK, move || run_here(&files, f_pos, &mode))
}

// ---------------------------------------------------------------------------- cases

pub fn order(case: &Case, c: Ctxt, pool: &[SrcFile], tail: &SrcFile) -> (Vec<SrcFile>, usize) {
    let mut v: Vec<SrcFile> = pool[..c.pool].to_vec();
    let mut core: Vec<(bool, SrcFile)> = case
        .files
        .iter()
        .enumerate()
        .map(|(i, f)| (i == case.f_idx, f.clone()))
        .collect();
    if c.rev {
        core.reverse();
    }
    let mut pos = 0;
    for (is_f, f) in core {
        if is_f {
            pos = v.len();
        }
        v.push(f);
    }
    v.push(tail.clone());
    (v, pos)
}

fn write_scratch(dir: &Path, name: &str, text: &str) -> SrcFile {
    let p = dir.join(name);
    if let Some(parent) = p.parent() {
        let _ = std::fs::create_dir_all(parent);
    }
    std::fs::write(&p, text).expect("write scratch file");
    SrcFile { path: p, text: text.to_string() }
}

pub fn build_cases(scratch: &Path, with_corpus: bool) -> (Vec<Case>, Vec<SrcFile>, SrcFile, Vec<(String, String)>) {
    let mut cases = vec![];
    let mut skipped = vec![];
    let pool: Vec<SrcFile> = cat::POOL
        .iter()
        .enumerate()
        .map(|(i, t)| write_scratch(scratch, &format!("pool/pool{i}.veryl"), t))
        .collect();
    let tail = write_scratch(scratch, "pool/tail.veryl", cat::TAIL);
    for FcEntry { name, pre, f, user, aux } in cat::catalogue() {
        let d = scratch.join("fc").join(name);
        let mut files = vec![];
        if let Some(p) = pre {
            files.push(write_scratch(&d, "a_pre.veryl", p));
        }
        let f_idx = files.len();
        files.push(write_scratch(&d, "f.veryl", f));
        if let Some(u) = user {
            files.push(write_scratch(&d, "z_user.veryl", u));
        }
        if let Some((n, t)) = aux {
            write_scratch(&d, n, t);
        }
        cases.push(Case { name: format!("fc:{name}"), files, f_idx, from_corpus: false });
    }
    if with_corpus {
        let dir = repo_root().join("testcases/veryl");
        let mut names: Vec<String> = std::fs::read_dir(&dir)
            .map(|rd| {
                rd.flatten()
                    .map(|e| e.file_name().to_string_lossy().to_string())
                    .filter(|n| n.ends_with(".veryl"))
                    .collect()
            })
            .unwrap_or_default();
        names.sort();
        let read = |n: &str| -> SrcFile {
            let p = dir.join(n);
            let text = std::fs::read_to_string(&p).unwrap_or_default();
            SrcFile { path: p, text }
        };
        for n in &names {
            let stem = n.trim_end_matches(".veryl");
            if stem.starts_with("25_dependency") {
                skipped.push((n.clone(), "needs the dependency projects of /repo/Veryl.toml (not available offline)".to_string()));
                continue;
            }
            if stem.starts_with("68_std") {
                skipped.push((n.clone(), "needs the $std project sources as a second project".to_string()));
                continue;
            }
            let mut files = vec![];
            let f_idx;
            if stem == "84_package_self_ref_1" {
                f_idx = 0;
                files.push(read(n));
                files.push(read("84_package_self_ref_2.veryl"));
            } else if stem == "84_package_self_ref_2" {
                files.push(read("84_package_self_ref_1.veryl"));
                f_idx = 1;
                files.push(read(n));
            } else {
                f_idx = 0;
                files.push(read(n));
            }
            cases.push(Case { name: format!("corpus:{stem}"), files, f_idx, from_corpus: true });
        }
    }
    (cases, pool, tail, skipped)
}

// ---------------------------------------------------------------------------- comparison

#[derive(Debug, Clone)]
pub struct Diff {
    pub class: String,
    pub detail: String,
    pub expected: String,
    pub observed: String,
}

fn first_diff_line(a: &str, b: &str) -> (String, String) {
    let mut ia = a.lines();
    let mut ib = b.lines();
    loop {
        match (ia.next(), ib.next()) {
            (None, None) => return (String::new(), String::new()),
            (x, y) if x == y => continue,
            (x, y) => return (x.unwrap_or("<end>").to_string(), y.unwrap_or("<end>").to_string()),
        }
    }
}

/// Shortens two long lines to the neighbourhood of their first difference.
fn focus(a: &str, b: &str) -> (String, String) {
    let ab = a.as_bytes();
    let bb = b.as_bytes();
    let mut k = 0;
    while k < ab.len() && k < bb.len() && ab[k] == bb[k] {
        k += 1;
    }
    let cut = |s: &str| -> String {
        let mut st = k.saturating_sub(160);
        while !s.is_char_boundary(st) {
            st -= 1;
        }
        let mut en = (k + 160).min(s.len());
        while !s.is_char_boundary(en) {
            en += 1;
        }
        let head: String = s.chars().take(60).collect();
        format!("{head} … {}", &s[st..en])
    };
    (cut(a), cut(b))
}

fn symbol_kind_of_line(l: &str) -> String {
    l.split("kind: ")
        .nth(1)
        .map(|x| x.chars().take_while(|c| c.is_alphanumeric() || *c == '_').collect::<String>())
        .filter(|x| !x.is_empty())
        .unwrap_or_else(|| "?".into())
}

fn compare_dumps(phase: &str, cold: &[(String, String)], warm: &[(String, String)], out: &mut Vec<Diff>) {
    for ((n, a), (_, b)) in cold.iter().zip(warm.iter()) {
        if a != b {
            let (la, lb) = first_diff_line(a, b);
            let mut class = format!("state:{n}@{phase}");
            if n == "symbols" {
                class.push_str(&format!(":{}", symbol_kind_of_line(if la == "<end>" { &lb } else { &la })));
            }
            if n == "texts" {
                // sub-class: the two texts differ only by one final newline
                let tail = |l: &str| l.split("text_without_final_newline=").nth(1).map(|x| x.to_string());
                let head = |l: &str| l.split(" text=").next().map(|x| x.to_string());
                if tail(&la).is_some() && tail(&la) == tail(&lb) && head(&la) == head(&lb) {
                    class.push_str(":final-newline");
                }
            }
            let (fa, fb) = focus(&la, &lb);
            out.push(Diff { class, detail: format!("first differing line of `{n}` {phase}"), expected: fa, observed: fb });
        }
    }
}

fn owner_is(d: &DiagS, p: &Path) -> bool {
    d.owner.as_deref() == Some(&*p.to_string_lossy())
}

/// cold vs warm; `files[f_pos]` is the restored file.
pub fn compare(files: &[SrcFile], f_pos: usize, cold: &RunOut, warm: &RunOut) -> Vec<Diff> {
    let mut out = vec![];
    if let Some(Err(e)) = &warm.restore {
        out.push(Diff {
            class: "restore-error".into(),
            detail: "restore of an undamaged fragment failed".into(),
            expected: "Ok(())".into(),
            observed: e.clone(),
        });
        return out;
    }
    // One state difference per comparison: the first differing section in a fixed priority order
    // (the most specific table first), the other differing sections are listed in the detail.
    // After post-pass1 only when everything was still equal after pass1 (a new divergence).
    const PRIORITY: [&str; 16] = [
        "symbols", "scopes", "token_scopes", "literals", "attributes", "unsafes", "definitions", "doc_comments", "texts",
        "counters", "symbol_table::dump", "scope::dump_tokens", "type_dag::dump", "type_dag::dump_file", "type_dag::dependent_files", "",
    ];
    let pick = |mut v: Vec<Diff>| -> Option<Diff> {
        if v.is_empty() {
            return None;
        }
        let names: Vec<String> = v.iter().map(|d| d.class.clone()).collect();
        let rank = |d: &Diff| -> usize {
            let sec = d.class.trim_start_matches("state:").split('@').next().unwrap_or("").to_string();
            PRIORITY.iter().position(|p| *p == sec).unwrap_or(PRIORITY.len())
        };
        v.sort_by_key(|d| rank(d));
        let mut d = v.remove(0);
        if names.len() > 1 {
            d.detail = format!("{} (sections differing in this comparison: {})", d.detail, names.join(", "));
        }
        Some(d)
    };
    let mut st = vec![];
    compare_dumps("after-pass1", &cold.dump_a, &warm.dump_a, &mut st);
    if st.is_empty() {
        compare_dumps("after-post-pass1", &cold.dump_b, &warm.dump_b, &mut st);
    }
    out.extend(pick(st));
    for (i, f) in files.iter().enumerate() {
        if i != f_pos && cold.pass1.get(i) != warm.pass1.get(i) {
            out.push(Diff {
                class: "diagnostics:pass1-of-other-file".into(),
                detail: format!("pass1 diagnostics of {}", f.path.display()),
                expected: format!("{:?}", cold.pass1.get(i)),
                observed: format!("{:?}", warm.pass1.get(i)),
            });
        }
    }
    if cold.post1 != warm.post1 {
        out.push(Diff {
            class: "diagnostics:post-pass1".into(),
            detail: "analyze_post_pass1 diagnostics".into(),
            expected: format!("{:?}", cold.post1),
            observed: format!("{:?}", warm.post1),
        });
    }
    let fpath = &files[f_pos].path;
    for (i, f) in files.iter().enumerate() {
        if i == f_pos {
            continue;
        }
        if cold.pass2.get(&i) != warm.pass2.get(&i) {
            out.push(Diff {
                class: "diagnostics:pass2".into(),
                detail: format!("pass2 diagnostics of freshly parsed {}", f.path.display()),
                expected: format!("{:?}", cold.pass2.get(&i)),
                observed: format!("{:?}", warm.pass2.get(&i)),
            });
        }
        if cold.sv.get(&i) != warm.sv.get(&i) {
            let (a, b) = first_diff_line(
                cold.sv.get(&i).map(|x| x.as_str()).unwrap_or(""),
                warm.sv.get(&i).map(|x| x.as_str()).unwrap_or(""),
            );
            out.push(Diff {
                class: "emit".into(),
                detail: format!("emitted SystemVerilog of freshly parsed {}", f.path.display()),
                expected: a,
                observed: b,
            });
        }
    }
    // post-pass2: diagnostics owned by other files must be equal; those owned by the restored
    // file are replayed from the cache by the pipeline, so the warm run may produce a subset.
    let c_other: Vec<&DiagS> = cold.post2.iter().filter(|d| !owner_is(d, fpath)).collect();
    let w_other: Vec<&DiagS> = warm.post2.iter().filter(|d| !owner_is(d, fpath)).collect();
    if c_other != w_other {
        out.push(Diff {
            class: "diagnostics:post-pass2".into(),
            detail: "analyze_post_pass2 diagnostics owned by files other than the restored one".into(),
            expected: format!("{c_other:?}"),
            observed: format!("{w_other:?}"),
        });
    }
    let c_own: BTreeSet<&DiagS> = cold.post2.iter().filter(|d| owner_is(d, fpath)).collect();
    let extra: Vec<&DiagS> = warm.post2.iter().filter(|d| owner_is(d, fpath) && !c_own.contains(d)).collect();
    if !extra.is_empty() {
        // sub-class: the same diagnostic exists in the cold run, only the embedded source text differs
        let strip_src = |t: &str| -> String {
            match (t.find("sources: MultiSources"), t.rfind("labels: [")) {
                (Some(a), Some(b)) if a < b => format!("{}{}", &t[..a], &t[b..]),
                _ => t.to_string(),
            }
        };
        let cold_wo: BTreeSet<String> = c_own.iter().map(|d| strip_src(&d.text)).collect();
        let only_text = extra.iter().all(|d| cold_wo.contains(&strip_src(&d.text)));
        out.push(Diff {
            class: if only_text {
                "diagnostics:post-pass2-for-restored-file:source-text-only".into()
            } else {
                "diagnostics:post-pass2-extra-for-restored-file".into()
            },
            detail: "the warm run reports diagnostics for the restored file that the cold run does not".into(),
            expected: "[]".into(),
            observed: format!("{extra:?}"),
        });
    }
    out
}

// ---------------------------------------------------------------------------- driver

struct CaseResult {
    name: String,
    skipped: Option<String>,
    cold_runs: u64,
    warm_runs: u64,
    refused: u64,
    not_captured_pass1_diag: u64,
    f_has_error: bool,
    fragment_bytes: usize,
    distinct_fragments: usize,
    f_symbols_nontrivial: bool,
    fallbacks: usize,
    violations: Vec<(String, Diff, Value)>,
    machinery: Vec<String>,
    /// the budget ran out in the middle of this case
    incomplete: bool,
}

fn files_json(files: &[SrcFile]) -> Value {
    json!(files.iter().map(|f| json!({"path": f.path.to_string_lossy(), "text": f.text})).collect::<Vec<_>>())
}

fn run_case(case: &Case, ctxts: &[Ctxt], cross_order: bool, pool: &[SrcFile], tail: &SrcFile, over_budget: &dyn Fn() -> bool) -> CaseResult {
    let mut r = CaseResult {
        name: case.name.clone(),
        skipped: None,
        cold_runs: 0,
        warm_runs: 0,
        refused: 0,
        not_captured_pass1_diag: 0,
        f_has_error: false,
        fragment_bytes: 0,
        distinct_fragments: 0,
        f_symbols_nontrivial: false,
        fallbacks: 0,
        violations: vec![],
        machinery: vec![],
        incomplete: false,
    };
    // cold runs
    let mut colds: Vec<(Ctxt, Vec<SrcFile>, usize, RunOut)> = vec![];
    for c in ctxts {
        let (files, pos) = order(case, *c, pool, tail);
        match run_one(files.clone(), pos, Mode::Cold) {
            Ok(o) => {
                r.cold_runs += 1;
                if let Some(e) = &o.parse_error {
                    r.skipped = Some(format!("parse error: {e}"));
                    return r;
                }
                r.fallbacks += o.canon_fallbacks;
                colds.push((*c, files, pos, o));
            }
            Err(p) => {
                r.machinery.push(format!("{}: cold run panicked in context {:?}: {p}", case.name, c));
                return r;
            }
        }
    }
    // a file with an error of its own never reaches the cache (the build fails before save)
    {
        let (_, files, pos, o) = &colds[0];
        let fpath = &files[*pos].path;
        let own_err = o.pass1[*pos].iter().any(|d| d.error)
            || o.post1.iter().chain(o.post2.iter()).any(|d| d.error && owner_is(d, fpath))
            || o.pass2.get(pos).map(|v| v.iter().any(|d| d.error)).unwrap_or(false);
        if own_err {
            r.f_has_error = true;
            let first = o.pass1[*pos]
                .iter()
                .chain(o.post1.iter())
                .chain(o.pass2.get(pos).into_iter().flatten())
                .chain(o.post2.iter())
                .find(|d| d.error)
                .map(|d| d.text.chars().take(300).collect::<String>())
                .unwrap_or_default();
            r.skipped = Some(format!("file has an error of its own, never cached: {first}"));
            return r;
        }
    }
    let mut frags: BTreeSet<String> = BTreeSet::new();
    for (ci, _, _, co) in &colds {
        let bytes = match &co.capture {
            None => {
                r.not_captured_pass1_diag += 1;
                continue;
            }
            Some(Err(_)) => {
                r.refused += 1;
                continue;
            }
            Some(Ok(b)) => b,
        };
        r.fragment_bytes = r.fragment_bytes.max(bytes.len());
        frags.insert(hash_hex(bytes));
        for (cj, files, pos, cold) in &colds {
            if !cross_order && ci.rev != cj.rev {
                continue;
            }
            if over_budget() {
                r.incomplete = true;
                return r;
            }
            match run_one(files.clone(), *pos, Mode::Warm(bytes.clone())) {
                Ok(warm) => {
                    r.warm_runs += 1;
                    r.fallbacks += warm.canon_fallbacks;
                    for mut d in compare(files, *pos, cold, &warm) {
                        if ci.rev != cj.rev {
                            d.class.push_str(CROSS);
                        }
                        let case_json = json!({
                            "case": case.name,
                            "capture_context": {"pool_files": ci.pool, "dependency_last": ci.rev},
                            "restore_context": {"pool_files": cj.pool, "dependency_last": cj.rev},
                            "restored_file": files[*pos].path.to_string_lossy(),
                            "files_in_order": files_json(files),
                        });
                        r.violations.push((case.name.clone(), d, case_json));
                    }
                }
                Err(p) => {
                    let case_json = json!({
                        "case": case.name,
                        "capture_context": {"pool_files": ci.pool, "dependency_last": ci.rev},
                        "restore_context": {"pool_files": cj.pool, "dependency_last": cj.rev},
                        "restored_file": files[*pos].path.to_string_lossy(),
                        "files_in_order": files_json(files),
                    });
                    r.warm_runs += 1;
                    r.violations.push((
                        case.name.clone(),
                        Diff {
                            class: "warm-panic".into(),
                            detail: "the warm run panicked where the cold run did not".into(),
                            expected: "no panic".into(),
                            observed: p,
                        },
                        case_json,
                    ));
                }
            }
        }
    }
    // A difference class that shows only when the fragment was captured under the other file
    // order keeps the `:cross-order` suffix; one that also shows with equal orders loses it.
    let same: BTreeSet<String> = r.violations.iter().filter(|(_, d, _)| !d.class.ends_with(CROSS)).map(|(_, d, _)| d.class.clone()).collect();
    for (_, d, _) in r.violations.iter_mut() {
        if d.class.ends_with(CROSS) {
            let base = d.class[..d.class.len() - CROSS.len()].to_string();
            if same.contains(&base) {
                d.class = base;
            }
        }
    }
    r.distinct_fragments = frags.len();
    // non-trivial: the fragment of f carries at least one symbol
    {
        let (_, files, pos, o) = &colds[0];
        let p = files[*pos].path.to_string_lossy().to_string();
        r.f_symbols_nontrivial = o
            .dump_a
            .iter()
            .find(|(n, _)| n == "symbols")
            .map(|(_, t)| t.contains(&p))
            .unwrap_or(false);
    }
    r
}

fn contexts(thorough: bool) -> Vec<Ctxt> {
    let _ = thorough;
    let mut v = vec![];
    for rev in [false, true] {
        for pool in 0..=2 {
            v.push(Ctxt { pool, rev });
        }
    }
    v
}

pub fn run(ctx: &Ctx) -> Report {
    let mut rep = Report::new(Level::Exploration);
    if std::env::var("VMC_TRACE_PANICS").is_err() {
        install_quiet_panic_hook();
    }
    let budget = ctx.budget(40.0, 600.0);
    let scratch = ctx.dir("c06");
    let (mut cases, pool, tail, skipped_corpus) = build_cases(&scratch, true);
    if let Ok(only) = std::env::var("VMC_C06_ONLY") {
        cases.retain(|c| c.name.contains(&only));
    }
    let thorough = ctx.thorough();
    let all_ctx = contexts(thorough);
    let n_cases = cases.len();

    // corpus cases have no dependants of their own: reversed order differs only for the 84_* pair,
    // and in quick the corpus is run with the three pool offsets only.
    // thorough: a corpus case additionally gets its successor in the corpus as a third file in
    // front (pool offset 3): a realistic neighbour that shifts every id range and shares `$sv::`
    // names, imports and generic instances with the file under test.
    let corpus_files: Vec<SrcFile> = cases.iter().filter(|c| c.from_corpus).map(|c| c.files[c.f_idx].clone()).collect();
    let results: Vec<Option<CaseResult>> = par_map(&cases, |case| {
        if ctx.elapsed() > budget {
            return None;
        }
        let multi = case.files.len() > 1;
        let mut ctxts: Vec<Ctxt> = all_ctx.iter().copied().filter(|c| multi || !c.rev).collect();
        let mut pool_case = pool.clone();
        if thorough && case.from_corpus && !multi && corpus_files.len() > 1 {
            let me = &case.files[case.f_idx].path;
            if let Some(i) = corpus_files.iter().position(|f| &f.path == me) {
                let nb = corpus_files[(i + 1) % corpus_files.len()].clone();
                // the 84_* pair reference each other's packages; keep them out as neighbours
                if !nb.path.to_string_lossy().contains("84_package_self_ref") {
                    pool_case.push(nb);
                    ctxts.push(Ctxt { pool: 3, rev: false });
                }
            }
        }
        let cross_order = thorough || !case.from_corpus;
        Some(run_case(case, &ctxts, cross_order, &pool_case, &tail, &|| ctx.elapsed() > budget))
    });

    let mut evaluations = 0u64;
    let mut cold_runs = 0u64;
    let mut completed = 0u64;
    let mut refused = 0u64;
    let mut not_captured = 0u64;
    let mut nontrivial = 0u64;
    let mut fallbacks = 0u64;
    let mut skipped: Vec<Value> = skipped_corpus.iter().map(|(n, r)| json!({"case": n, "reason": r})).collect();
    let mut skipped_generator = 0u64;
    let mut frag_distinct = 0u64;
    let mut sigs: BTreeMap<String, u64> = BTreeMap::new();
    let mut refused_cases: Vec<String> = vec![];
    for r in results.into_iter() {
        let Some(r) = r else { continue };
        if !r.incomplete {
            completed += 1;
        }
        for m in &r.machinery {
            rep.machinery(m.clone());
        }
        if let Some(why) = &r.skipped {
            skipped.push(json!({"case": r.name, "reason": why}));
            if r.name.starts_with("fc:") && !r.name.contains("user_with_error") {
                skipped_generator += 1;
            }
            continue;
        }
        evaluations += r.warm_runs;
        cold_runs += r.cold_runs;
        refused += r.refused;
        if r.refused > 0 {
            refused_cases.push(r.name.clone());
        }
        not_captured += r.not_captured_pass1_diag;
        fallbacks += r.fallbacks as u64;
        frag_distinct += r.distinct_fragments as u64;
        if r.f_symbols_nontrivial && r.warm_runs > 0 {
            nontrivial += 1;
        }
        if rep.coverage.get("samples").and_then(|x| x.as_array()).map(|a| a.len()).unwrap_or(0) < 6 && r.warm_runs > 0 {
            rep.sample(json!({"case": r.name, "warm_runs": r.warm_runs, "largest_fragment_bytes": r.fragment_bytes, "distinct_fragment_blobs": r.distinct_fragments}));
        }
        for (name, d, case_json) in r.violations {
            let sig = format!("C06:{}", d.class);
            let n = sigs.entry(sig.clone()).or_insert(0);
            *n += 1;
            if *n <= 3 {
                rep.violation(Violation {
                    signature: sig,
                    what: format!("{} ({name})", d.detail),
                    case: case_json,
                    expected: json!(d.expected),
                    observed: json!(d.observed),
                });
            } else {
                // keep the count without storing hundreds of replay documents
                rep.violation(Violation {
                    signature: sig,
                    what: format!("{} ({name})", d.detail),
                    case: json!({"case": name, "see": "first case of this signature"}),
                    expected: json!(null),
                    observed: json!(null),
                });
            }
        }
    }
    let capped = completed < n_cases as u64;
    rep.set("evaluations", evaluations);
    rep.set("cold_runs", cold_runs);
    rep.set("cases_total", n_cases as u64);
    rep.set("cases_completed", completed);
    rep.set("distinct_nontrivial", nontrivial);
    rep.set("distinct_fragment_blobs", frag_distinct);
    rep.set("capture_refused_noncacheable", refused);
    rep.set("capture_refused_cases", json!(refused_cases));
    rep.set("not_captured_because_pass1_diagnostics", not_captured);
    rep.set("skipped_cases", json!(skipped));
    rep.set("skipped_generator_bugs", skipped_generator);
    rep.set("debug_canonicaliser_fallbacks", fallbacks);
    rep.set("contexts", json!({"pool_files_in_front": [0, 1, 2], "orders": ["dependency-first", "dependency-last"], "capture_x_restore": if thorough {"all 6x6 (multi-file cases), 3x3 (single-file)"} else {"catalogue: 6x6 / 3x3; corpus: same-order pairs"}}));
    rep.set("capped_by_budget", capped);
    rep.set("exhaustive", !capped);
    rep.set(
        "rule",
        "one evaluation = one warm run (file f restored from a fragment captured in context i, run in context j) compared with the cold run of context j; non-trivial case = the captured file contributes at least one symbol and at least one warm run was compared",
    );
    rep.assume("a restored file gets no pass2 and is not emitted (as in veryl/src/pipeline.rs); diagnostics and SV are compared for every freshly parsed file, post-pass diagnostics owned by the restored file may be a subset (the pipeline replays the cached ones)");
    rep.assume("files with an error of their own are never cached by the pipeline and are skipped; capture is attempted only when pass1 returned no diagnostics (pipeline rule)");
    rep.assume("scope kinds are not observable through the public API; scope owner, parent chain, locals, imports, wildcards and mixins are");
    rep.assume("one project (the root project); dependency projects and $std are not part of the space");
    rep.assume("every run interns a dummy path first, so that PathId(0) (the raw id inside `Token::default()`, e.g. the type token of an untyped `for` variable) denotes the same thing in cold, capture and warm runs; without it the placeholder aliases the first source file of the run and differs between contexts although nothing reads it");
    rep.assume("`:cross-order` signatures: the difference shows only when the fragment was captured under the other dependency order than the one it is restored in");
    if nontrivial < 2 && std::env::var("VMC_C06_ONLY").is_err() {
        rep.machinery("vacuity guard: fewer than 2 non-trivial cases compared");
    }
    if evaluations == 0 {
        rep.machinery("vacuity guard: no warm run was compared");
    }
    if skipped_generator > 2 {
        rep.machinery(format!("{skipped_generator} catalogue entries are rejected by the analyzer (generator bugs)"));
    }
    rep
}

pub fn replay(doc: &Value) -> i32 {
    install_quiet_panic_hook();
    let case = &doc["case"];
    let Some(files) = case["files_in_order"].as_array() else {
        eprintln!("no files_in_order in replay file");
        return 2;
    };
    let name = case["case"].as_str().unwrap_or("");
    let ctx = Ctx::new("C06-replay", Tier::Quick);
    let scratch = ctx.dir("c06");
    let (cases, pool, tail, _) = build_cases(&scratch, true);
    let Some(c) = cases.iter().find(|c| c.name == name) else {
        eprintln!("unknown case {name}");
        return 2;
    };
    let _ = files;
    let ci = Ctxt {
        pool: case["capture_context"]["pool_files"].as_u64().unwrap_or(0) as usize,
        rev: case["capture_context"]["dependency_last"].as_bool().unwrap_or(false),
    };
    let cj = Ctxt {
        pool: case["restore_context"]["pool_files"].as_u64().unwrap_or(0) as usize,
        rev: case["restore_context"]["dependency_last"].as_bool().unwrap_or(false),
    };
    let (fi, pi) = order(c, ci, &pool, &tail);
    let (fj, pj) = order(c, cj, &pool, &tail);
    let cap = match run_one(fi, pi, Mode::Cold) {
        Ok(o) => o,
        Err(e) => {
            eprintln!("capture run panicked: {e}");
            return 2;
        }
    };
    let Some(Ok(bytes)) = cap.capture else {
        println!("capture refused or not attempted: {:?}", cap.capture.map(|x| x.err()));
        return 0;
    };
    let cold = run_one(fj.clone(), pj, Mode::Cold);
    let warm = run_one(fj.clone(), pj, Mode::Warm(bytes));
    match (cold, warm) {
        (Ok(c0), Ok(w)) => {
            let d = compare(&fj, pj, &c0, &w);
            if d.is_empty() {
                println!("cold and warm runs agree");
                0
            } else {
                for x in &d {
                    println!("still failing: {} — {}\n  expected: {}\n  observed: {}", x.class, x.detail, x.expected, x.observed);
                }
                // triage aid: does the difference come from skipping pass2 of f alone?
                if let Ok(cs) = run_one(fj.clone(), pj, Mode::ColdSkip) {
                    let d2 = compare(&fj, pj, &c0, &cs);
                    println!(
                        "triage: cold run that merely skips pass2/emit of the file {} the cold run ({} difference classes)",
                        if d2.is_empty() { "agrees with" } else { "ALSO differs from" },
                        d2.len()
                    );
                }
                1
            }
        }
        (c0, w) => {
            println!("panic: cold={:?} warm={:?}", c0.err(), w.err());
            1
        }
    }
}

//! C15 — driver, latch and read-before-assign checks are exact.
//!
//! Engine E1 (finite family): every abstract design of the bounded shape **AT** is rendered to
//! Veryl, analysed by the real analyzer (fresh thread each) and compared, per variable and per
//! diagnostic (`multiple_assignment`, `uncovered_branch`, `unassign_variable`), with a verdict
//! computed from the abstract design only (per-bit writer sets, per-path write sets, read sets):
//!
//! * MA(v)  iff some bit of `v` is written (anywhere: any branch, any loop iteration) by two
//!   different processes (assign / always_comb / always_ff / instance output);
//! * UB(v)  iff in some always_comb some bit of `v` is written on some but not all control paths
//!   (an `if` without `else`, a `case`/`switch` without `default` has an empty path);
//! * UV(v)  iff no bit of `v` is assigned at all (pinned by the repo test `var _a: logic;`), or
//!   some bit of `v` that some logic reads (right-hand side, branch condition, case target,
//!   instance input, or the parent for an output port) is never assigned, or some always_comb /
//!   assign reads a bit on a control path before that path assigns it.
//!
//! Both directions count.  All other diagnostics are ignored.
//!
//! The reading of the three clauses is validated at the start of every run against transcriptions
//! of the repository's own non-ignored tests (`multiple_assignment`, `unassign_variable`,
//! `uncovered_branch` in crates/analyzer/src/tests.rs): the reference must reproduce the verdict
//! each test asserts, and the real analyzer on the rendered transcription must too.
//!
//! Sub-families (all members enumerated by unranking, no sampling):
//!  * `mp2`/`mp3`  2 / 3 processes, each a "simple writer" (kind x wrapper x range) + a reader
//!  * `body_*`     one always_comb / always_ff whose body is any statement tree with exactly n
//!                 leaves (leaf = ranged write with a constant or a ranged read as source, or a
//!                 constant-bound `for`), branch forms if/case/switch with 1-2 arms, with and
//!                 without default, condition = free input or a read of the variable; plus one
//!                 context process / output-port flag
//!  * `decl`       declared-but-unmentioned variables

use crate::checks::gen_abs::{self, Analysis, Histo};
use crate::core::*;
use serde_json::{Value, json};
use std::collections::{BTreeMap, BTreeSet};

// ---------------------------------------------------------------------------------------------
// abstract designs
// ---------------------------------------------------------------------------------------------

#[derive(Clone, Copy, PartialEq, Eq, Debug, Hash, PartialOrd, Ord)]
pub enum V {
    X,
    Y,
}

impl V {
    fn width(self) -> u8 {
        match self {
            V::X => 4,
            V::Y => 2,
        }
    }
    fn name(self) -> &'static str {
        match self {
            V::X => "x",
            V::Y => "y",
        }
    }
    /// name inside the rendered module number `tag` (modules of one batch text use distinct
    /// variable names so that a diagnostic identifies its module)
    fn tagged(self, tag: &str) -> String {
        format!("{}{tag}", self.name())
    }
    fn idx(self) -> usize {
        match self {
            V::X => 0,
            V::Y => 1,
        }
    }
}

const VARS: [V; 2] = [V::X, V::Y];

#[derive(Clone, Copy, PartialEq, Eq, Debug, Hash, PartialOrd, Ord)]
pub struct Rng {
    v: V,
    lo: u8,
    w: u8,
}

impl Rng {
    fn bits(self) -> impl Iterator<Item = Bit> {
        (self.lo..self.lo + self.w).map(move |b| (self.v, b))
    }
    fn text(self) -> String {
        self.ttext("")
    }
    fn ttext(self, tag: &str) -> String {
        let n = self.v.tagged(tag);
        if self.w == self.v.width() {
            n
        } else if self.w == 1 {
            format!("{n}[{}]", self.lo)
        } else {
            format!("{n}[{}:{}]", self.lo + self.w - 1, self.lo)
        }
    }
}

fn r(v: V, lo: u8, w: u8) -> Rng {
    Rng { v, lo, w }
}

#[derive(Clone, Copy, PartialEq, Eq, Debug, Hash, PartialOrd, Ord)]
pub enum Src {
    Const,
    Rd(Rng),
}

#[derive(Clone, Copy, PartialEq, Eq, Debug, Hash, PartialOrd, Ord)]
pub enum BrKind {
    If,
    Case,
    Switch,
}

/// The bit(s) a variable-reading branch condition reads: `if x[0]`, `switch { x[0]: .. }`,
/// `case x[1:0]`.
fn var_cond(kind: BrKind) -> Rng {
    match kind {
        BrKind::If | BrKind::Switch => r(V::X, 0, 1),
        BrKind::Case => r(V::X, 0, 2),
    }
}

#[derive(Clone, PartialEq, Eq, Debug, Hash, PartialOrd, Ord)]
pub enum Stmt {
    W {
        dst: Rng,
        src: Src,
    },
    /// `for i in lo..hi { v[i] = 0; }`
    For {
        v: V,
        lo: u8,
        hi: u8,
    },
    /// `for i in lo..hi { y[i] = x[i]; }`
    ForCopy {
        lo: u8,
        hi: u8,
    },
    Br {
        kind: BrKind,
        /// first condition (if/switch) or the case target reads the variable (see `var_cond`)
        vcond: bool,
        arms: Vec<Vec<Stmt>>,
        dflt: Option<Vec<Stmt>>,
    },
}

#[derive(Clone, PartialEq, Eq, Debug, Hash, PartialOrd, Ord)]
pub enum Proc {
    Assign { dst: Rng, src: Src },
    Comb(Vec<Stmt>),
    Ff(Vec<Stmt>),
    InstOut { dst: Rng },
    /// `assign o<k> = v[..];` — a pure reader (the sink is an output port of its own)
    Sink(Rng),
    /// `inst r<k>: ChildI<w> (i: v[..]);` — a pure reader
    InstIn(Rng),
}

#[derive(Clone, PartialEq, Eq, Debug, Hash)]
pub struct Design {
    procs: Vec<Proc>,
    /// variables declared although nothing mentions them
    extra_decl: Vec<V>,
    /// `y` is an output port of the module instead of a `var`
    y_out: bool,
}

fn design(procs: Vec<Proc>) -> Design {
    Design {
        procs,
        extra_decl: vec![],
        y_out: false,
    }
}

// ---------------------------------------------------------------------------------------------
// rendering
// ---------------------------------------------------------------------------------------------

fn src_text(s: Src, tag: &str) -> String {
    match s {
        Src::Const => "0".to_string(),
        Src::Rd(r) => r.ttext(tag),
    }
}

fn render_block(out: &mut String, ind: usize, body: &[Stmt], tag: &str) {
    for s in body {
        render_stmt(out, ind, s, tag);
    }
}

fn pad(n: usize) -> String {
    " ".repeat(n * 4)
}

fn cond_text(kind: BrKind, vcond: bool, k: usize, tag: &str) -> String {
    if vcond && k == 0 {
        var_cond(kind).ttext(tag)
    } else {
        format!("c{k}")
    }
}

fn render_stmt(out: &mut String, ind: usize, s: &Stmt, tag: &str) {
    let p = pad(ind);
    match s {
        Stmt::W { dst, src } => {
            out.push_str(&format!("{p}{} = {};\n", dst.ttext(tag), src_text(*src, tag)));
        }
        Stmt::For { v, lo, hi } => {
            out.push_str(&format!("{p}for i in {lo}..{hi} {{\n"));
            out.push_str(&format!("{p}    {}[i] = 0;\n", v.tagged(tag)));
            out.push_str(&format!("{p}}}\n"));
        }
        Stmt::ForCopy { lo, hi } => {
            out.push_str(&format!("{p}for i in {lo}..{hi} {{\n"));
            out.push_str(&format!(
                "{p}    {}[i] = {}[i];\n",
                V::Y.tagged(tag),
                V::X.tagged(tag)
            ));
            out.push_str(&format!("{p}}}\n"));
        }
        Stmt::Br {
            kind,
            vcond,
            arms,
            dflt,
        } => match kind {
            BrKind::If => {
                for (k, a) in arms.iter().enumerate() {
                    let c = cond_text(*kind, *vcond, k, tag);
                    if k == 0 {
                        out.push_str(&format!("{p}if {c} {{\n"));
                    } else {
                        out.push_str(&format!("{p}}} else if {c} {{\n"));
                    }
                    render_block(out, ind + 1, a, tag);
                }
                if let Some(d) = dflt {
                    out.push_str(&format!("{p}}} else {{\n"));
                    render_block(out, ind + 1, d, tag);
                }
                out.push_str(&format!("{p}}}\n"));
            }
            BrKind::Case | BrKind::Switch => {
                if *kind == BrKind::Case {
                    let t = if *vcond {
                        var_cond(*kind).ttext(tag)
                    } else {
                        "s".to_string()
                    };
                    out.push_str(&format!("{p}case {t} {{\n"));
                } else {
                    out.push_str(&format!("{p}switch {{\n"));
                }
                for (k, a) in arms.iter().enumerate() {
                    if *kind == BrKind::Case {
                        out.push_str(&format!("{p}    2'd{k}: {{\n"));
                    } else {
                        out.push_str(&format!(
                            "{p}    {}: {{\n",
                            cond_text(*kind, *vcond, k, tag)
                        ));
                    }
                    render_block(out, ind + 2, a, tag);
                    out.push_str(&format!("{p}    }}\n"));
                }
                if let Some(d) = dflt {
                    out.push_str(&format!("{p}    default: {{\n"));
                    render_block(out, ind + 2, d, tag);
                    out.push_str(&format!("{p}    }}\n"));
                }
                out.push_str(&format!("{p}}}\n"));
            }
        },
    }
}

fn stmt_mentions(m: &mut [bool; 2], s: &Stmt) {
    match s {
        Stmt::W { dst, src } => {
            m[dst.v.idx()] = true;
            if let Src::Rd(r) = src {
                m[r.v.idx()] = true;
            }
        }
        Stmt::For { v, .. } => m[v.idx()] = true,
        Stmt::ForCopy { .. } => {
            m[0] = true;
            m[1] = true;
        }
        Stmt::Br {
            kind,
            vcond,
            arms,
            dflt,
        } => {
            if *vcond {
                m[var_cond(*kind).v.idx()] = true;
            }
            for a in arms {
                for s in a {
                    stmt_mentions(m, s);
                }
            }
            if let Some(d) = dflt {
                for s in d {
                    stmt_mentions(m, s);
                }
            }
        }
    }
}

/// Which variables are declared in the rendered module.
fn declared(d: &Design) -> [bool; 2] {
    let mut m = [false; 2];
    for p in &d.procs {
        match p {
            Proc::Assign { dst, src } => {
                m[dst.v.idx()] = true;
                if let Src::Rd(r) = src {
                    m[r.v.idx()] = true;
                }
            }
            Proc::Comb(b) | Proc::Ff(b) => {
                for s in b {
                    stmt_mentions(&mut m, s);
                }
            }
            Proc::InstOut { dst } => m[dst.v.idx()] = true,
            Proc::Sink(r) | Proc::InstIn(r) => m[r.v.idx()] = true,
        }
    }
    for v in &d.extra_decl {
        m[v.idx()] = true;
    }
    if d.y_out {
        m[V::Y.idx()] = true;
    }
    m
}

/// The module of one design.  `tag` = "" for the stand-alone text, else the module number inside
/// a batch text (module `Top<tag>`, variables `x<tag>` / `y<tag>`).
fn render_module(d: &Design, tag: &str, children: &mut BTreeSet<String>) -> String {
    let mut ports = String::new();
    let mut body = String::new();
    ports.push_str("    i_clk: input clock,\n    i_rst: input reset,\n");
    ports.push_str("    c0: input logic,\n    c1: input logic,\n    s: input logic<2>,\n");
    let m = declared(d);
    for v in VARS {
        if m[v.idx()] {
            if v == V::Y && d.y_out {
                ports.push_str(&format!(
                    "    {}: output logic<{}>,\n",
                    v.tagged(tag),
                    v.width()
                ));
            } else {
                body.push_str(&format!(
                    "    var {}: logic<{}>;\n",
                    v.tagged(tag),
                    v.width()
                ));
            }
        }
    }
    for (k, p) in d.procs.iter().enumerate() {
        match p {
            Proc::Assign { dst, src } => {
                body.push_str(&format!(
                    "    assign {} = {};\n",
                    dst.ttext(tag),
                    src_text(*src, tag)
                ));
            }
            Proc::Comb(b) => {
                body.push_str("    always_comb {\n");
                render_block(&mut body, 2, b, tag);
                body.push_str("    }\n");
            }
            Proc::Ff(b) => {
                body.push_str("    always_ff {\n");
                render_block(&mut body, 2, b, tag);
                body.push_str("    }\n");
            }
            Proc::InstOut { dst } => {
                body.push_str(&format!(
                    "    inst u{k}: ChildO{} (\n        o: {},\n    );\n",
                    dst.w,
                    dst.ttext(tag)
                ));
                children.insert(format!(
                    "module ChildO{w} (\n    o: output logic<{w}>,\n) {{\n    assign o = 0;\n}}\n",
                    w = dst.w
                ));
            }
            Proc::Sink(r) => {
                ports.push_str(&format!("    o{k}: output logic<{}>,\n", r.w));
                body.push_str(&format!("    assign o{k} = {};\n", r.ttext(tag)));
            }
            Proc::InstIn(r) => {
                body.push_str(&format!(
                    "    inst r{k}: ChildI{} (\n        i: {},\n    );\n",
                    r.w,
                    r.ttext(tag)
                ));
                children.insert(format!(
                    "module ChildI{w} (\n    i: input logic<{w}>,\n) {{\n}}\n",
                    w = r.w
                ));
            }
        }
    }
    format!("module Top{tag} (\n{ports}) {{\n{body}}}\n")
}

pub fn render(d: &Design) -> String {
    let mut children: BTreeSet<String> = BTreeSet::new();
    let mut out = render_module(d, "", &mut children);
    for c in children {
        out.push_str(&c);
    }
    out
}

/// One text holding the modules of several designs (module k uses the tag `k`).
fn render_batch(ds: &[Design]) -> String {
    let mut children: BTreeSet<String> = BTreeSet::new();
    let mut out = String::new();
    for (k, d) in ds.iter().enumerate() {
        out.push_str(&render_module(d, &k.to_string(), &mut children));
    }
    for c in children {
        out.push_str(&c);
    }
    out
}

// ---------------------------------------------------------------------------------------------
// reference verdicts (from the abstract design only)
// ---------------------------------------------------------------------------------------------

type Bit = (V, u8);

/// Where a read happens (only used to name disagreement classes).
#[derive(Clone, Copy, PartialEq, Eq, Debug, PartialOrd, Ord)]
enum Site {
    Rhs,
    Cond,
    InstIn,
    Port,
}

impl Site {
    fn miss_tag(self) -> &'static str {
        match self {
            Site::Rhs => "read-on-rhs",
            Site::Cond => "read-in-branch-condition",
            Site::InstIn => "read-by-instance-input",
            Site::Port => "read-by-parent",
        }
    }
    fn name(self) -> &'static str {
        match self {
            Site::Rhs => "rhs",
            Site::Cond => "branch-condition",
            Site::InstIn => "instance-input",
            Site::Port => "output-port",
        }
    }
}

#[derive(Clone, Copy, PartialEq, Eq, Debug)]
enum Ev {
    /// bit read, kind of site, program-order number of the read
    R(Bit, Site, u32),
    /// bit written, id of the writing statement occurrence (all bits of one assignment share it)
    W(Bit, u32),
}

fn seq_paths(acc: Vec<Vec<Ev>>, alts: &[Vec<Ev>]) -> Vec<Vec<Ev>> {
    let mut next = Vec::with_capacity(acc.len() * alts.len());
    for p in &acc {
        for a in alts {
            let mut q = p.clone();
            q.extend(a.iter().copied());
            next.push(q);
        }
    }
    next
}

/// All control paths of a body, each as its sequence of read / write events.
fn paths(body: &[Stmt]) -> Vec<Vec<Ev>> {
    let mut sid = 0u32;
    paths_rec(body, &mut sid)
}

fn paths_rec(body: &[Stmt], sid: &mut u32) -> Vec<Vec<Ev>> {
    let mut acc: Vec<Vec<Ev>> = vec![vec![]];
    for s in body {
        let alts: Vec<Vec<Ev>> = match s {
            Stmt::W { dst, src } => {
                let mut e = vec![];
                *sid += 1;
                let id = *sid;
                if let Src::Rd(r) = src {
                    e.extend(r.bits().map(|b| Ev::R(b, Site::Rhs, id)));
                }
                *sid += 1;
                let id = *sid;
                e.extend(dst.bits().map(|b| Ev::W(b, id)));
                vec![e]
            }
            Stmt::For { v, lo, hi } => {
                let mut e = vec![];
                for b in *lo..*hi {
                    *sid += 1;
                    e.push(Ev::W((*v, b), *sid));
                }
                vec![e]
            }
            Stmt::ForCopy { lo, hi } => {
                let mut e = vec![];
                for b in *lo..*hi {
                    *sid += 1;
                    e.push(Ev::R((V::X, b), Site::Rhs, *sid));
                    *sid += 1;
                    e.push(Ev::W((V::Y, b), *sid));
                }
                vec![e]
            }
            Stmt::Br {
                kind,
                vcond,
                arms,
                dflt,
            } => {
                // only the first condition (or the case target) may read a variable, and it is
                // evaluated before any arm runs
                *sid += 1;
                let id = *sid;
                let pre: Vec<Ev> = if *vcond {
                    var_cond(*kind)
                        .bits()
                        .map(|b| Ev::R(b, Site::Cond, id))
                        .collect()
                } else {
                    vec![]
                };
                let mut alts = vec![];
                for a in arms {
                    alts.extend(paths_rec(a, sid));
                }
                match dflt {
                    Some(d) => alts.extend(paths_rec(d, sid)),
                    None => alts.push(vec![]),
                }
                seq_paths(vec![pre], &alts)
            }
        };
        acc = seq_paths(acc, &alts);
    }
    acc
}

fn wbit(e: &Ev) -> Option<Bit> {
    match e {
        Ev::W(b, _) => Some(*b),
        _ => None,
    }
}

#[derive(Clone, Copy, Default, PartialEq, Eq, Debug)]
pub struct Verdict {
    /// indexed by V::idx()
    ma: [bool; 2],
    ub: [bool; 2],
    uv: [bool; 2],
}

#[derive(Clone, Default, Debug)]
struct RefInfo {
    verdict: Verdict,
    /// the read-before-assign clause has two defensible readings on blocks that also latch the
    /// bit; when they differ for a variable (and no other UV clause decides) the UV verdict of
    /// that variable is not compared
    uv_ambiguous: [bool; 2],
    /// number of (bit, process) write memberships — candidate writes
    writes: usize,
    reads: usize,
    branches: usize,
    // UV cause split, for signatures / histogram
    uv_nothing_assigned: [bool; 2],
    uv_read_unassigned: [bool; 2],
    uv_read_before: [bool; 2],
    /// kinds of sites that read a never-assigned bit, per variable
    unassigned_read_sites: [BTreeSet<Site>; 2],
    /// kinds of sites of the too-early reads, per variable
    early_read_sites: [BTreeSet<Site>; 2],
    /// why the reference says "unassigned", one tag per offending read instance; used only to
    /// name the class of a miss.  Tags in `KNOWN_MISS_TAGS` name a construct through which the
    /// analyzer is known not to see the read; any other tag is a read it should have seen.
    uv_tags: [BTreeSet<String>; 2],
    /// some branch of an always_comb, taken alone (plus what was written before it), leaves a
    /// bit of the variable unwritten in one arm, although every path of the block writes it
    /// (only used to name a disagreement class)
    ub_local_only: [bool; 2],
}

fn count_branches(b: &[Stmt]) -> usize {
    b.iter()
        .map(|s| match s {
            Stmt::Br { arms, dflt, .. } => {
                1 + arms.iter().map(|a| count_branches(a)).sum::<usize>()
                    + dflt.as_ref().map(|d| count_branches(d)).unwrap_or(0)
            }
            _ => 0,
        })
        .sum()
}

fn written_bits(body: &[Stmt]) -> BTreeSet<Bit> {
    let mut w = BTreeSet::new();
    for p in paths(body) {
        for e in p {
            if let Some(b) = wbit(&e) {
                w.insert(b);
            }
        }
    }
    w
}

/// "Some branch statement writes a bit of `var` in some but not all of its arms, looking at the
/// branch in isolation plus what was written before it" — the per-branch (syntactic) reading.
/// Only used to name the class of an uncovered_branch disagreement, never to decide one.
fn local_partial(body: &[Stmt], before: &BTreeSet<Bit>, var: V) -> bool {
    let mut done = before.clone();
    for s in body {
        match s {
            Stmt::Br { arms, dflt, .. } => {
                let mut alts: Vec<&[Stmt]> = arms.iter().map(|a| a.as_slice()).collect();
                let empty: Vec<Stmt> = vec![];
                match dflt {
                    Some(d) => alts.push(d.as_slice()),
                    None => alts.push(&empty),
                }
                let mut sets = vec![];
                for a in &alts {
                    if local_partial(a, &done, var) {
                        return true;
                    }
                    let mut w = done.clone();
                    w.extend(written_bits(a));
                    sets.push(w);
                }
                let mut union: BTreeSet<Bit> = BTreeSet::new();
                for w in &sets {
                    union.extend(w.iter().copied());
                }
                for w in &sets {
                    if union.iter().any(|b| b.0 == var && !w.contains(b)) {
                        return true;
                    }
                }
                done = union;
            }
            other => {
                done.extend(written_bits(std::slice::from_ref(other)));
            }
        }
    }
    false
}

fn reference(d: &Design) -> RefInfo {
    let mut info = RefInfo::default();
    let mut writers: BTreeMap<Bit, BTreeSet<usize>> = BTreeMap::new();
    let mut read: BTreeMap<Bit, BTreeSet<Site>> = BTreeMap::new();
    let mut comb_paths: Vec<Vec<Vec<Ev>>> = vec![];
    for (k, p) in d.procs.iter().enumerate() {
        let ps: Vec<Vec<Ev>> = match p {
            Proc::Assign { dst, src } => {
                let ps = paths(&[Stmt::W {
                    dst: *dst,
                    src: *src,
                }]);
                comb_paths.push(ps.clone());
                ps
            }
            Proc::Comb(b) => {
                info.branches += count_branches(b);
                let ps = paths(b);
                comb_paths.push(ps.clone());
                for v in VARS {
                    if local_partial(b, &BTreeSet::new(), v) {
                        info.ub_local_only[v.idx()] = true;
                    }
                }
                ps
            }
            Proc::Ff(b) => {
                info.branches += count_branches(b);
                paths(b)
            }
            Proc::InstOut { dst } => vec![dst.bits().map(|b| Ev::W(b, 0)).collect()],
            Proc::Sink(r) => vec![r.bits().map(|b| Ev::R(b, Site::Rhs, 0)).collect()],
            Proc::InstIn(r) => vec![r.bits().map(|b| Ev::R(b, Site::InstIn, 0)).collect()],
        };
        for path in &ps {
            for e in path {
                match e {
                    Ev::W(b, _) => {
                        writers.entry(*b).or_default().insert(k);
                    }
                    Ev::R(b, s, _) => {
                        read.entry(*b).or_default().insert(*s);
                    }
                }
            }
        }
    }
    if d.y_out {
        // the parent reads every bit of an output port
        for b in 0..V::Y.width() {
            read.entry((V::Y, b)).or_default().insert(Site::Port);
        }
    }
    info.writes = writers.values().map(|s| s.len()).sum();
    info.reads = read.len();
    // multiple assignment
    for (b, ws) in &writers {
        if ws.len() >= 2 {
            info.verdict.ma[b.0.idx()] = true;
        }
    }
    // uncovered branch
    for ps in &comb_paths {
        let mut some: BTreeSet<Bit> = BTreeSet::new();
        for p in ps {
            for e in p {
                if let Some(b) = wbit(e) {
                    some.insert(b);
                }
            }
        }
        for b in &some {
            let all = ps.iter().all(|p| p.iter().any(|e| wbit(e) == Some(*b)));
            if !all {
                info.verdict.ub[b.0.idx()] = true;
            }
        }
    }
    for i in 0..2 {
        info.ub_local_only[i] = info.ub_local_only[i] && !info.verdict.ub[i];
    }
    // unassigned: declared and nothing assigned at all
    let decl = declared(d);
    for v in VARS {
        if decl[v.idx()] && !writers.keys().any(|b| b.0 == v) {
            info.uv_nothing_assigned[v.idx()] = true;
        }
    }
    // unassigned: read and never written
    for (b, sites) in &read {
        if !writers.contains_key(b) {
            let i = b.0.idx();
            info.uv_read_unassigned[i] = true;
            info.unassigned_read_sites[i].extend(sites.iter().copied());
            if sites.contains(&Site::Rhs) {
                info.uv_tags[i].insert("unassigned-bit-read-on-rhs".into());
            } else if sites.contains(&Site::Port) {
                info.uv_tags[i].insert("unassigned-bit-of-output-port".into());
            } else {
                for s in sites {
                    info.uv_tags[i].insert(s.miss_tag().into());
                }
            }
        }
    }
    for v in VARS {
        if info.uv_nothing_assigned[v.idx()] {
            info.uv_tags[v.idx()].insert("nothing-assigned".into());
        }
    }
    // unassigned: read before write in an always_comb / assign that writes the bit.
    //  weak   = on some path the bit is read and written later on the same path
    //  strong = on some path the bit is read while not yet written on that path, and the block
    //           writes the bit on some path
    let mut weak = [false; 2];
    let mut strong = [false; 2];
    for ps in &comb_paths {
        let mut written_here: BTreeSet<Bit> = BTreeSet::new();
        for p in ps {
            for e in p {
                if let Some(b) = wbit(e) {
                    written_here.insert(b);
                }
            }
        }
        // program-order views (any path): first read / first write of every bit
        let mut first_read: BTreeMap<Bit, u32> = BTreeMap::new();
        let mut first_write: BTreeMap<Bit, u32> = BTreeMap::new();
        for p in ps {
            for e in p {
                match e {
                    Ev::R(b, _, o) => {
                        let x = first_read.entry(*b).or_insert(*o);
                        *x = (*x).min(*o);
                    }
                    Ev::W(b, o) => {
                        let x = first_write.entry(*b).or_insert(*o);
                        *x = (*x).min(*o);
                    }
                }
            }
        }
        for p in ps {
            let mut done: BTreeSet<Bit> = BTreeSet::new();
            let mut early: BTreeMap<Bit, BTreeSet<Site>> = BTreeMap::new();
            let mut k = 0;
            while k < p.len() {
                match &p[k] {
                    Ev::R(b, site, _) => {
                        if written_here.contains(b) && !done.contains(b) {
                            strong[b.0.idx()] = true;
                            early.entry(*b).or_default().insert(*site);
                        }
                        k += 1;
                    }
                    Ev::W(_, id) => {
                        // all bits of this assignment
                        let mut m: Vec<Bit> = vec![];
                        while k < p.len() {
                            match &p[k] {
                                Ev::W(b, id2) if id2 == id => {
                                    m.push(*b);
                                    k += 1;
                                }
                                _ => break,
                            }
                        }
                        let hit: Vec<Bit> = m.iter().copied().filter(|b| early.contains_key(b)).collect();
                        if !hit.is_empty() {
                            // read earlier on this path, assigned only now
                            // the assignment also covers a bit that an earlier statement (in
                            // program order, on any path) read and an earlier statement assigned
                            let overlap = m.iter().any(|b| {
                                first_read.get(b).is_some_and(|o| o < id)
                                    && first_write.get(b).is_some_and(|o| o < id)
                            });
                            for b in &hit {
                                let i = b.0.idx();
                                weak[i] = true;
                                info.early_read_sites[i].extend(early[b].iter().copied());
                                let tag = if early[b].iter().all(|s| *s == Site::Cond) {
                                    Site::Cond.miss_tag()
                                } else if overlap {
                                    "assignment-overlaps-earlier-assigned-bits"
                                } else {
                                    "read-before-assign"
                                };
                                info.uv_tags[i].insert(tag.into());
                            }
                        }
                        for b in m {
                            done.insert(b);
                            early.remove(&b);
                        }
                    }
                }
            }
        }
    }
    for i in 0..2 {
        info.uv_read_before[i] = weak[i];
        let other = info.uv_nothing_assigned[i] || info.uv_read_unassigned[i];
        info.verdict.uv[i] = other || weak[i];
        info.uv_ambiguous[i] = !other && strong[i] && !weak[i];
    }
    info
}

// ---------------------------------------------------------------------------------------------
// statement-tree grammar: counting and unranking
// ---------------------------------------------------------------------------------------------

#[derive(Clone, Copy, Debug, PartialEq, Eq)]
struct Form {
    kind: BrKind,
    n_arms: usize,
    dflt: bool,
    vcond: bool,
}

impl Form {
    fn parts(&self) -> usize {
        self.n_arms + self.dflt as usize
    }
}

/// Compositions of `n` into `parts` non-negative numbers with at most one zero (an arm may be
/// empty, but not two of them), in a fixed order.
fn compositions(n: usize, parts: usize) -> Vec<Vec<usize>> {
    fn rec(i: usize, left: usize, cur: &mut Vec<usize>, out: &mut Vec<Vec<usize>>) {
        if i + 1 == cur.len() {
            cur[i] = left;
            out.push(cur.clone());
            return;
        }
        for k in 0..=left {
            cur[i] = k;
            rec(i + 1, left - k, cur, out);
        }
    }
    let mut out = vec![];
    let mut cur = vec![0usize; parts];
    rec(0, n, &mut cur, &mut out);
    out.retain(|c| c.iter().filter(|x| **x == 0).count() <= 1 && !(parts == 1 && c[0] == 0));
    out
}

struct Grammar {
    leaves: Vec<Stmt>,
    forms: Vec<Form>,
    max_n: usize,
    max_d: usize,
    /// cnt_seq[d][n], cnt_item[d][n]
    cnt_seq: Vec<Vec<u64>>,
    cnt_item: Vec<Vec<u64>>,
}

impl Grammar {
    fn new(leaves: Vec<Stmt>, forms: Vec<Form>, max_n: usize, max_d: usize) -> Grammar {
        let mut g = Grammar {
            leaves,
            forms,
            max_n,
            max_d,
            cnt_seq: vec![],
            cnt_item: vec![],
        };
        for d in 0..=max_d {
            let mut item = vec![0u64; max_n + 1];
            let mut seq = vec![0u64; max_n + 1];
            seq[0] = 1;
            for n in 1..=max_n {
                let mut c = if n == 1 { g.leaves.len() as u64 } else { 0 };
                if d > 0 {
                    for f in &g.forms {
                        for comp in compositions(n, f.parts()) {
                            c += comp.iter().map(|k| g.cnt_seq[d - 1][*k]).product::<u64>();
                        }
                    }
                }
                item[n] = c;
                let mut s = 0u64;
                for k in 1..=n {
                    s += item[k] * seq[n - k];
                }
                seq[n] = s;
            }
            g.cnt_item.push(item);
            g.cnt_seq.push(seq);
        }
        g
    }

    fn count(&self, n: usize) -> u64 {
        self.cnt_seq[self.max_d][n]
    }

    fn seq(&self, n: usize, d: usize, mut idx: u64) -> Vec<Stmt> {
        if n == 0 {
            return vec![];
        }
        for k in 1..=n {
            let block = self.cnt_item[d][k] * self.cnt_seq[d][n - k];
            if idx < block {
                let rest = self.cnt_seq[d][n - k];
                let first = self.item(k, d, idx / rest);
                let mut v = vec![first];
                v.extend(self.seq(n - k, d, idx % rest));
                return v;
            }
            idx -= block;
        }
        unreachable!("seq index out of range");
    }

    fn item(&self, n: usize, d: usize, mut idx: u64) -> Stmt {
        if n == 1 {
            if idx < self.leaves.len() as u64 {
                return self.leaves[idx as usize].clone();
            }
            idx -= self.leaves.len() as u64;
        }
        assert!(d > 0, "item index out of range");
        for f in &self.forms {
            for comp in compositions(n, f.parts()) {
                let block: u64 = comp.iter().map(|k| self.cnt_seq[d - 1][*k]).product();
                if idx < block {
                    let mut bodies = vec![];
                    let mut rem = idx;
                    for k in comp.iter().rev() {
                        let c = self.cnt_seq[d - 1][*k];
                        bodies.push(self.seq(*k, d - 1, rem % c));
                        rem /= c;
                    }
                    bodies.reverse();
                    let dflt = if f.dflt { bodies.pop() } else { None };
                    return Stmt::Br {
                        kind: f.kind,
                        vcond: f.vcond,
                        arms: bodies,
                        dflt,
                    };
                }
                idx -= block;
            }
        }
        unreachable!("item index out of range");
    }

    fn body(&self, n: usize, idx: u64) -> Vec<Stmt> {
        assert!(n <= self.max_n);
        self.seq(n, self.max_d, idx)
    }
}

fn leaf_alphabet(n: usize) -> Vec<Stmt> {
    let x = V::X;
    let y = V::Y;
    let w = |dst: Rng, src: Src| Stmt::W { dst, src };
    let all = vec![
        w(r(x, 0, 1), Src::Const),
        w(r(x, 0, 2), Src::Const),
        w(r(y, 0, 2), Src::Rd(r(x, 0, 2))),
        w(r(x, 1, 1), Src::Rd(r(x, 0, 1))),
        Stmt::For { v: x, lo: 0, hi: 2 },
        w(r(y, 0, 1), Src::Rd(r(x, 0, 1))),
        w(r(x, 1, 1), Src::Const),
        w(r(x, 0, 4), Src::Const),
        w(r(x, 0, 1), Src::Rd(r(x, 0, 1))),
        Stmt::ForCopy { lo: 0, hi: 2 },
        w(r(x, 2, 2), Src::Const),
        w(r(y, 0, 1), Src::Const),
    ];
    all[..n.min(all.len())].to_vec()
}

/// Leaves chosen by index from the full alphabet.
fn leaf_subset(idx: &[usize]) -> Vec<Stmt> {
    let all = leaf_alphabet(usize::MAX);
    idx.iter().map(|i| all[*i].clone()).collect()
}

fn form_alphabet(level: u8) -> Vec<Form> {
    let f = |kind, n_arms, dflt, vcond| Form {
        kind,
        n_arms,
        dflt,
        vcond,
    };
    use BrKind::*;
    // level 9 = the small "nesting" set
    if level == 9 {
        return vec![
            f(If, 1, false, false),
            f(If, 1, true, false),
            f(Case, 1, true, false),
        ];
    }
    let mut v = vec![
        f(If, 1, false, false),
        f(If, 1, true, false),
        f(Case, 1, false, false),
        f(Case, 2, true, false),
        f(If, 1, true, true),
    ];
    if level >= 1 {
        v.extend([
            f(If, 2, false, false),
            f(If, 2, true, false),
            f(Case, 1, true, false),
            f(Case, 2, false, false),
            f(Switch, 2, false, false),
            f(Switch, 2, true, false),
            f(If, 1, false, true),
            f(Case, 1, true, true),
        ]);
    }
    if level >= 2 {
        v.extend([
            f(Switch, 1, true, true),
            f(Case, 2, false, true),
            f(If, 2, true, true),
        ]);
    }
    v
}

// ---------------------------------------------------------------------------------------------
// families
// ---------------------------------------------------------------------------------------------

/// Simple writer wrappers for the multi-process family.
fn wrap(dst: Rng, how: u8) -> Vec<Stmt> {
    let wr = Stmt::W {
        dst,
        src: Src::Const,
    };
    let other = Stmt::W {
        dst: r(V::X, 3, 1),
        src: Src::Const,
    };
    let br = |kind, arms, dflt| Stmt::Br {
        kind,
        vcond: false,
        arms,
        dflt,
    };
    match how {
        0 => vec![wr],
        1 => vec![br(BrKind::If, vec![vec![wr]], None)],
        2 => vec![br(BrKind::If, vec![vec![wr]], Some(vec![other]))],
        3 => vec![br(BrKind::Case, vec![vec![wr]], None)],
        4 => vec![Stmt::For {
            v: dst.v,
            lo: dst.lo,
            hi: dst.lo + dst.w,
        }],
        5 => vec![br(BrKind::If, vec![vec![wr.clone()]], Some(vec![wr]))],
        6 => vec![br(BrKind::Switch, vec![vec![wr.clone()]], Some(vec![wr]))],
        _ => unreachable!(),
    }
}

fn simple_writers(targets: &[Rng], n_wraps: u8) -> Vec<Proc> {
    let mut v = vec![];
    for &t in targets {
        v.push(Proc::Assign {
            dst: t,
            src: Src::Const,
        });
        v.push(Proc::InstOut { dst: t });
        for h in 0..n_wraps {
            let b = wrap(t, h);
            v.push(Proc::Comb(b.clone()));
            v.push(Proc::Ff(b));
        }
    }
    v
}

/// Context of the body family: an extra process and/or `y` being an output port.
#[derive(Clone, Debug)]
struct BodyCtx {
    name: &'static str,
    proc_: Option<Proc>,
    y_out: bool,
}

fn body_contexts() -> Vec<BodyCtx> {
    let c = |name, proc_, y_out| BodyCtx { name, proc_, y_out };
    vec![
        c("alone", None, false),
        c("sink_x10", Some(Proc::Sink(r(V::X, 0, 2))), false),
        c("y_output", None, true),
        c(
            "assign_x32",
            Some(Proc::Assign {
                dst: r(V::X, 2, 2),
                src: Src::Const,
            }),
            false,
        ),
        c("instin_x10", Some(Proc::InstIn(r(V::X, 0, 2))), false),
        c(
            "ff_x0",
            Some(Proc::Ff(vec![Stmt::W {
                dst: r(V::X, 0, 1),
                src: Src::Const,
            }])),
            false,
        ),
        c("sink_x", Some(Proc::Sink(r(V::X, 0, 4))), false),
    ]
}

#[derive(Clone, Debug)]
enum Sub {
    Decl,
    Mp2,
    Mp3,
    /// one block (comb / ff), grammar index, leaves, context index
    Body {
        ff: bool,
        g: usize,
        n: usize,
        ctx: usize,
    },
}

struct Family {
    writers2: Vec<Proc>,
    writers3: Vec<Proc>,
    readers: Vec<Option<Proc>>,
    grammars: Vec<Grammar>,
    contexts: Vec<BodyCtx>,
    subs: Vec<(String, Sub, u64)>,
    bounds: Value,
}

fn family(thorough: bool) -> Family {
    let x = V::X;
    let y = V::Y;
    let t_quick = vec![r(x, 0, 1), r(x, 1, 1), r(x, 0, 2), r(x, 0, 4), r(y, 0, 1)];
    let t_all = vec![
        r(x, 0, 1),
        r(x, 1, 1),
        r(x, 2, 1),
        r(x, 3, 1),
        r(x, 0, 2),
        r(x, 1, 2),
        r(x, 2, 2),
        r(x, 0, 3),
        r(x, 1, 3),
        r(x, 0, 4),
        r(y, 0, 1),
        r(y, 0, 2),
    ];
    let (writers2, writers3) = if thorough {
        (simple_writers(&t_all, 7), simple_writers(&t_quick, 3))
    } else {
        (simple_writers(&t_quick, 3), vec![])
    };
    let readers = vec![
        None,
        Some(Proc::Sink(r(x, 0, 4))),
        Some(Proc::Sink(r(x, 0, 2))),
    ];
    let n_readers = if thorough { 3 } else { 2 };
    let readers: Vec<Option<Proc>> = readers.into_iter().take(n_readers).collect();
    let contexts = body_contexts();

    // grammars: (leaves, form level, max leaves, max depth) and which (n, context, ff) cuts of
    // each are enumerated.  `A` = breadth of forms, shallow; `B` = longer sequences; `C` = nesting.
    const ALONE: usize = 0;
    const SINK: usize = 1;
    const YOUT: usize = 2;
    let (grammars, cuts): (Vec<(&str, Grammar)>, Vec<(usize, usize, usize, bool)>) = if thorough {
        let g = vec![
            ("A", Grammar::new(leaf_alphabet(12), form_alphabet(2), 2, 1)),
            ("B", Grammar::new(leaf_alphabet(5), form_alphabet(0), 3, 1)),
            ("C", Grammar::new(leaf_alphabet(3), form_alphabet(9), 2, 2)),
            ("D", Grammar::new(leaf_alphabet(2), form_alphabet(9), 3, 2)),
            // partial writes of y (for the output-port context)
            ("E", Grammar::new(leaf_subset(&[5, 2, 1, 11]), form_alphabet(9), 3, 1)),
        ];
        let mut cuts = vec![];
        for ctx in 0..contexts.len() {
            cuts.push((0, 1, ctx, false));
            cuts.push((0, 1, ctx, true));
        }
        for ctx in [SINK, YOUT, ALONE] {
            cuts.push((0, 2, ctx, false));
        }
        cuts.push((0, 2, SINK, true));
        cuts.push((1, 3, SINK, false));
        cuts.push((1, 3, YOUT, false));
        cuts.push((2, 2, SINK, false));
        cuts.push((2, 2, YOUT, false));
        cuts.push((3, 3, SINK, false));
        for n in 1..=3 {
            cuts.push((4, n, YOUT, false));
            cuts.push((4, n, ALONE, false));
        }
        (g, cuts)
    } else {
        let g = vec![
            ("A", Grammar::new(leaf_alphabet(5), form_alphabet(1), 2, 1)),
            ("B", Grammar::new(leaf_alphabet(3), form_alphabet(9), 3, 1)),
            ("C", Grammar::new(leaf_alphabet(2), form_alphabet(9), 2, 2)),
            // partial writes of y (for the output-port context)
            ("E", Grammar::new(leaf_subset(&[5, 2, 1, 11]), form_alphabet(9), 2, 1)),
        ];
        let cuts = vec![
            (3, 1, YOUT, false),
            (3, 2, YOUT, false),
            (3, 2, ALONE, false),
            (0, 1, ALONE, false),
            (0, 1, SINK, false),
            (0, 1, YOUT, false),
            (0, 1, SINK, true),
            (0, 1, 4, false),
            (0, 2, SINK, false),
            (1, 3, SINK, false),
            (2, 1, YOUT, false),
            (2, 2, SINK, false),
        ];
        (g, cuts)
    };

    let mut subs: Vec<(String, Sub, u64)> = vec![];
    subs.push(("decl".into(), Sub::Decl, 3));
    subs.push((
        "mp2".into(),
        Sub::Mp2,
        (writers2.len() * writers2.len() * readers.len()) as u64,
    ));
    if !writers3.is_empty() {
        subs.push((
            "mp3".into(),
            Sub::Mp3,
            (writers3.len() * writers3.len() * writers3.len()) as u64,
        ));
    }
    for (gi, n, ctx, ff) in cuts {
        let (gname, g) = &grammars[gi];
        subs.push((
            format!(
                "body_{}_{gname}_n{n}_{}",
                if ff { "ff" } else { "comb" },
                contexts[ctx].name
            ),
            Sub::Body { ff, g: gi, n, ctx },
            g.count(n),
        ));
    }
    let grammars: Vec<Grammar> = grammars.into_iter().map(|x| x.1).collect();
    let bounds = json!({
        "variables": "x: logic<4>, y: logic<2> (var, or output port in the y_output context)",
        "mp2_simple_writers": writers2.len(),
        "mp3_simple_writers": writers3.len(),
        "mp_readers": readers.len(),
        "grammars": grammars.iter().map(|g| json!({
            "leaf_alphabet": g.leaves.len(),
            "branch_forms": g.forms.len(),
            "max_leaves": g.max_n,
            "max_nesting": g.max_d,
            "bodies_per_leaf_count": (1..=g.max_n).map(|n| g.count(n)).collect::<Vec<_>>(),
        })).collect::<Vec<_>>(),
        "body_contexts": contexts.iter().map(|c| c.name).collect::<Vec<_>>(),
    });
    Family {
        writers2,
        writers3,
        readers,
        grammars,
        contexts,
        subs,
        bounds,
    }
}

fn member(f: &Family, sub: &Sub, idx: u64) -> Design {
    match sub {
        Sub::Decl => match idx {
            0 => Design {
                procs: vec![Proc::Assign {
                    dst: r(V::X, 0, 4),
                    src: Src::Const,
                }],
                extra_decl: vec![V::Y],
                y_out: false,
            },
            1 => Design {
                procs: vec![],
                extra_decl: vec![V::X],
                y_out: true,
            },
            _ => Design {
                procs: vec![Proc::Sink(r(V::X, 0, 4))],
                extra_decl: vec![V::Y],
                y_out: false,
            },
        },
        Sub::Mp2 => {
            let nw = f.writers2.len() as u64;
            let nr = f.readers.len() as u64;
            let rd = (idx % nr) as usize;
            let b = ((idx / nr) % nw) as usize;
            let a = (idx / nr / nw) as usize;
            let mut procs = vec![f.writers2[a].clone(), f.writers2[b].clone()];
            if let Some(x) = &f.readers[rd] {
                procs.push(x.clone());
            }
            design(procs)
        }
        Sub::Mp3 => {
            let nw = f.writers3.len() as u64;
            let c = (idx % nw) as usize;
            let b = ((idx / nw) % nw) as usize;
            let a = (idx / nw / nw) as usize;
            design(vec![
                f.writers3[a].clone(),
                f.writers3[b].clone(),
                f.writers3[c].clone(),
                Proc::Sink(r(V::X, 0, 4)),
            ])
        }
        Sub::Body { ff, g, n, ctx } => {
            let b = f.grammars[*g].body(*n, idx);
            let mut procs = vec![if *ff { Proc::Ff(b) } else { Proc::Comb(b) }];
            let c = &f.contexts[*ctx];
            if let Some(p) = &c.proc_ {
                procs.push(p.clone());
            }
            Design {
                procs,
                extra_decl: vec![],
                y_out: c.y_out,
            }
        }
    }
}

// ---------------------------------------------------------------------------------------------
// validation of the reference reading against the repository's own tests
// ---------------------------------------------------------------------------------------------

/// Expected outcome asserted by the repo test: `Clean` = `errors.is_empty()`, otherwise the kind
/// of `errors[0]` on the given variable.
#[derive(Clone, Copy, Debug, PartialEq)]
enum Pin {
    Clean,
    Ma(V),
    Ub(V),
    Uv(V),
}

#[rustfmt::skip]
fn pinned_tests() -> Vec<(&'static str, Design, Pin)> {
    let x = V::X;
    let y = V::Y;
    let full = r(x, 0, 4);
    let yf = r(y, 0, 2);
    let w = |dst: Rng| Stmt::W { dst, src: Src::Const };
    let wr = |dst: Rng, src: Rng| Stmt::W { dst, src: Src::Rd(src) };
    let iff = |arms: Vec<Vec<Stmt>>, dflt: Option<Vec<Stmt>>| Stmt::Br { kind: BrKind::If, vcond: false, arms, dflt };
    let asg = |dst: Rng| Proc::Assign { dst, src: Src::Const };
    let yo = |procs: Vec<Proc>| Design { procs, extra_decl: vec![], y_out: true };
    vec![
        // fn multiple_assignment
        ("ma: assign + always_comb", design(vec![asg(full), Proc::Comb(vec![w(full)])]), Pin::Ma(x)),
        ("ma: comb + comb", design(vec![Proc::Comb(vec![w(full)]), Proc::Comb(vec![w(full)])]), Pin::Ma(x)),
        ("ma: ff twice in one block", design(vec![Proc::Ff(vec![w(full), w(full)])]), Pin::Clean),
        ("ma: ff disjoint slices in one block", design(vec![Proc::Ff(vec![w(r(x, 0, 2)), w(r(x, 2, 2))])]), Pin::Clean),
        ("ma: ff overlapping slices in one block", design(vec![Proc::Ff(vec![w(full), w(r(x, 2, 2))])]), Pin::Clean),
        ("ma: ff + ff", design(vec![Proc::Ff(vec![w(full)]), Proc::Ff(vec![w(full)])]), Pin::Ma(x)),
        ("ma: ff + ff disjoint", design(vec![Proc::Ff(vec![w(r(x, 0, 2))]), Proc::Ff(vec![w(r(x, 2, 2))])]), Pin::Clean),
        ("ma: ff + ff overlapping", design(vec![Proc::Ff(vec![w(full)]), Proc::Ff(vec![w(r(x, 2, 2))])]), Pin::Ma(x)),
        ("ma: comb twice in one block", design(vec![Proc::Comb(vec![w(full), w(full)])]), Pin::Clean),
        ("ma: comb disjoint slices in one block", design(vec![Proc::Comb(vec![w(r(x, 0, 2)), w(r(x, 2, 2))])]), Pin::Clean),
        ("ma: comb overlapping slices in one block", design(vec![Proc::Comb(vec![w(r(x, 0, 3)), w(r(x, 1, 3))])]), Pin::Clean),
        ("ma: comb + comb disjoint", design(vec![Proc::Comb(vec![w(r(x, 0, 2))]), Proc::Comb(vec![w(r(x, 2, 2))])]), Pin::Clean),
        ("ma: comb + comb overlapping", design(vec![Proc::Comb(vec![w(r(x, 0, 3))]), Proc::Comb(vec![w(r(x, 1, 3))])]), Pin::Ma(x)),
        ("ma: assign bit + inst output other bit", design(vec![asg(r(y, 0, 1)), Proc::InstOut { dst: r(y, 1, 1) }]), Pin::Clean),
        // fn unassign_variable
        ("uv: declared only", Design { procs: vec![], extra_decl: vec![x], y_out: false }, Pin::Uv(x)),
        ("uv: b = a; a = 1", design(vec![Proc::Comb(vec![wr(yf, r(x, 0, 2)), w(full)])]), Pin::Uv(x)),
        ("uv: a = a; a = 1", design(vec![Proc::Comb(vec![wr(full, full), w(full)])]), Pin::Uv(x)),
        ("uv: for covers all bits", design(vec![Proc::Comb(vec![Stmt::For { v: x, lo: 0, hi: 4 }])]), Pin::Clean),
        ("uv: a[0] in one comb, a[1] = a[0] in another", design(vec![Proc::Comb(vec![w(r(y, 0, 1))]), Proc::Comb(vec![wr(r(y, 1, 1), r(y, 0, 1))])]), Pin::Clean),
        ("uv: comb reads what assign drives", design(vec![Proc::Comb(vec![wr(yf, r(x, 0, 2))]), asg(full)]), Pin::Clean),
        ("uv: comb reads what an instance drives", design(vec![Proc::Comb(vec![wr(yf, r(x, 0, 2))]), Proc::InstOut { dst: full }]), Pin::Clean),
        ("uv: instance input of a never assigned var", design(vec![Proc::InstIn(full)]), Pin::Uv(x)),
        ("uv: Foo if {bar=0; baz=bar} else {bar=1; baz=0}", yo(vec![Proc::Comb(vec![iff(vec![vec![w(full), wr(yf, r(x, 0, 2))]], Some(vec![w(full), w(yf)]))])]), Pin::Clean),
        ("uv: Foo nested read then write", yo(vec![Proc::Comb(vec![iff(vec![vec![iff(vec![vec![wr(yf, r(x, 0, 2))]], Some(vec![w(yf)])), iff(vec![vec![w(full)]], Some(vec![w(full)]))]], Some(vec![w(full), w(yf)]))])]), Pin::Uv(x)),
        ("uv: Foo if {baz=bar} else {baz=0}; bar=0", yo(vec![Proc::Comb(vec![iff(vec![vec![wr(yf, r(x, 0, 2))]], Some(vec![w(yf)])), w(full)])]), Pin::Uv(x)),
        ("uv: Foo two ifs", yo(vec![Proc::Comb(vec![iff(vec![vec![wr(yf, r(x, 0, 2))]], Some(vec![w(yf)])), iff(vec![vec![w(full)]], Some(vec![w(full)]))])]), Pin::Uv(x)),
        ("uv: a = 0; a = a + 1", design(vec![Proc::Comb(vec![w(full), wr(full, full)])]), Pin::Clean),
        ("uv: partial slice, unassigned bits never read", design(vec![Proc::Ff(vec![iff(vec![vec![w(r(x, 1, 3))]], Some(vec![w(r(x, 1, 3))]))]), Proc::Sink(r(x, 1, 3))]), Pin::Clean),
        ("uv: partial slice, unassigned bits read", design(vec![Proc::Ff(vec![iff(vec![vec![w(r(x, 1, 3))]], Some(vec![w(r(x, 1, 3))]))]), Proc::Sink(full)]), Pin::Uv(x)),
        // fn uncovered_branch
        ("ub: if without else", design(vec![Proc::Comb(vec![iff(vec![vec![w(full)]], None)])]), Pin::Ub(x)),
        ("ub: nested if without else, outer else", design(vec![Proc::Comb(vec![iff(vec![vec![iff(vec![vec![w(full)]], None)]], Some(vec![w(full)]))])]), Pin::Ub(x)),
        ("ub: different bits in the two arms", design(vec![Proc::Comb(vec![iff(vec![vec![w(r(y, 0, 1))]], Some(vec![w(r(y, 1, 1))]))])]), Pin::Ub(y)),
        ("ub: both arms write both bits", design(vec![Proc::Comb(vec![iff(vec![vec![w(r(y, 0, 1)), w(r(y, 1, 1))]], Some(vec![w(r(y, 0, 1)), w(r(y, 1, 1))]))])]), Pin::Clean),
        ("ub: two complete ifs", design(vec![Proc::Comb(vec![iff(vec![vec![w(r(y, 0, 1))]], Some(vec![w(r(y, 0, 1))])), iff(vec![vec![w(r(y, 1, 1))]], Some(vec![w(r(y, 1, 1))]))])]), Pin::Clean),
        ("ub: default before if", design(vec![Proc::Comb(vec![w(full), iff(vec![vec![w(full)]], None)])]), Pin::Clean),
        ("ub: default before if / else if / else", design(vec![Proc::Comb(vec![w(full), iff(vec![vec![], vec![]], Some(vec![w(full)]))])]), Pin::Clean),
    ]
}

fn pin_holds(pin: Pin, v: &Verdict) -> bool {
    match pin {
        Pin::Clean => *v == Verdict::default(),
        Pin::Ma(x) => v.ma[x.idx()],
        Pin::Ub(x) => v.ub[x.idx()],
        Pin::Uv(x) => v.uv[x.idx()],
    }
}

// ---------------------------------------------------------------------------------------------
// comparison
// ---------------------------------------------------------------------------------------------

/// Diagnostics that say the generator produced something the analyzer does not accept for a
/// reason unrelated to the property (must stay near zero).
const GENERATOR_BUG_CODES: &[&str] = &[
    "undefined_identifier",
    "mismatch_type",
    "invalid_assignment",
    "invalid_select",
    "unknown_member",
    "unknown_port",
    "missing_port",
    "mismatch_assignment",
    "invalid_lsb",
    "invalid_msb",
    "referring_before_definition",
    "invalid_statement",
    "invalid_direction",
    "too_much_select",
    "out_of_range",
    "invalid_case_condition_non_elaborative",
    "unevaluable_value",
    "unexpected_token",
];

/// Splits a diagnostic identifier `x12[0]` into (variable index, module tag).
fn ident_var(ident: &str) -> Option<(usize, String)> {
    let name: &str = ident.split(|c| c == '[' || c == '.').next().unwrap_or("");
    let i = match name.chars().next()? {
        'x' => 0,
        'y' => 1,
        _ => return None,
    };
    let tag = &name[1..];
    if !tag.chars().all(|c| c.is_ascii_digit()) {
        return None;
    }
    Some((i, tag.to_string()))
}

/// Verdict of the module with the given tag.
fn observed_tag(diags: &[gen_abs::Diag], tag: &str) -> Verdict {
    let mut v = Verdict::default();
    for d in diags {
        let Some((i, t)) = ident_var(&d.ident) else {
            continue;
        };
        if t != tag {
            continue;
        }
        match d.code.as_str() {
            "multiple_assignment" => v.ma[i] = true,
            "uncovered_branch" => v.ub[i] = true,
            "unassign_variable" => v.uv[i] = true,
            _ => {}
        }
    }
    v
}

fn observed(diags: &[gen_abs::Diag]) -> Verdict {
    observed_tag(diags, "")
}

// ---- structural features used only to name a disagreement class (never to decide it) ----------

fn has_kind(b: &[Stmt], f: &dyn Fn(&Stmt) -> bool) -> bool {
    b.iter().any(|s| {
        f(s) || match s {
            Stmt::Br { arms, dflt, .. } => {
                arms.iter().any(|a| has_kind(a, f))
                    || dflt.as_ref().map(|d| has_kind(d, f)).unwrap_or(false)
            }
            _ => false,
        }
    })
}

fn proc_kind(p: &Proc) -> &'static str {
    match p {
        Proc::Assign { .. } => "assign",
        Proc::Comb(_) => "comb",
        Proc::Ff(_) => "ff",
        Proc::InstOut { .. } => "inst",
        Proc::Sink(_) => "sink",
        Proc::InstIn(_) => "instin",
    }
}

fn writes_var(p: &Proc, var: V) -> bool {
    match p {
        Proc::Assign { dst, .. } | Proc::InstOut { dst } => dst.v == var,
        Proc::Comb(b) | Proc::Ff(b) => has_kind(b, &|s| match s {
            Stmt::W { dst, .. } => dst.v == var,
            Stmt::For { v, .. } => *v == var,
            Stmt::ForCopy { .. } => var == V::Y,
            _ => false,
        }),
        _ => false,
    }
}

/// Constructs through which the analyzer is known not to see a read (each is one root cause and
/// one proposed known finding); a miss all of whose offending reads go through these is reported
/// once per construct involved.
const KNOWN_MISS_TAGS: &[&str] = &[
    "read-in-branch-condition",
    "read-by-instance-input",
    "assignment-overlaps-earlier-assigned-bits",
];

/// Class(es) of a disagreement: diagnostic, direction and the reason the reference gives (or the
/// construct through which the analyzer could have been misled).  Chosen so that one root cause
/// maps to one signature.
fn classify(d: &Design, info: &RefInfo, which: &str, var: V, fp: bool) -> Vec<String> {
    let dir = if fp { "false-positive" } else { "miss" };
    let i = var.idx();
    let comb_branchy = d.procs.iter().any(|p| match p {
        Proc::Comb(b) => has_kind(b, &|s| matches!(s, Stmt::Br { .. })),
        _ => false,
    });
    match which {
        "multiple_assignment" => {
            let mut kinds: BTreeSet<String> = BTreeSet::new();
            for p in &d.procs {
                if writes_var(p, var) {
                    let mut k = proc_kind(p).to_string();
                    if let Proc::Comb(b) | Proc::Ff(b) = p {
                        if has_kind(b, &|s| matches!(s, Stmt::For { .. } | Stmt::ForCopy { .. })) {
                            k.push_str("+for");
                        }
                        if has_kind(b, &|s| matches!(s, Stmt::Br { .. })) {
                            k.push_str("+branch");
                        }
                    }
                    kinds.insert(k);
                }
            }
            vec![format!(
                "C15:multiple_assignment:{dir}:{}",
                kinds.into_iter().collect::<Vec<_>>().join(",")
            )]
        }
        "uncovered_branch" => {
            let why = if fp {
                if info.ub_local_only[i] {
                    "covered-by-later-write".to_string()
                } else {
                    "other".to_string()
                }
            } else {
                let mut feats: BTreeSet<&'static str> = BTreeSet::new();
                for p in &d.procs {
                    if let Proc::Comb(b) = p {
                        if !writes_var(p, var) {
                            continue;
                        }
                        for (k, name) in [
                            (BrKind::If, "if"),
                            (BrKind::Case, "case"),
                            (BrKind::Switch, "switch"),
                        ] {
                            if has_kind(b, &|s| matches!(s, Stmt::Br { kind, .. } if *kind == k)) {
                                feats.insert(name);
                            }
                        }
                        if has_kind(b, &|s| matches!(s, Stmt::For { .. } | Stmt::ForCopy { .. })) {
                            feats.insert("for");
                        }
                    }
                }
                feats.into_iter().collect::<Vec<_>>().join(",")
            };
            vec![format!("C15:uncovered_branch:{dir}:{why}")]
        }
        _ => {
            if fp {
                return vec![format!(
                    "C15:unassign_variable:{dir}:{}",
                    if comb_branchy {
                        "comb-with-branch"
                    } else {
                        "comb-straight-line"
                    }
                )];
            }
            let tags = &info.uv_tags[i];
            let unexpected: Vec<&str> = tags
                .iter()
                .map(|t| t.as_str())
                .filter(|t| !KNOWN_MISS_TAGS.contains(t))
                .collect();
            if !unexpected.is_empty() || tags.is_empty() {
                vec![format!(
                    "C15:unassign_variable:{dir}:{}",
                    unexpected.join("+")
                )]
            } else {
                tags.iter()
                    .map(|t| format!("C15:unassign_variable:{dir}:{t}"))
                    .collect()
            }
        }
    }
}

struct Outcome {
    text: String,
    info: RefInfo,
    res: Analysis,
}

fn eval(d: &Design) -> Outcome {
    let text = render(d);
    let info = reference(d);
    let res = gen_abs::analyze(&text);
    Outcome { text, info, res }
}

/// Designs analysed per text in the bulk pass.  Every design whose batch verdict differs from
/// the reference (and every design of a batch that did not analyse cleanly) is analysed again
/// alone; only the stand-alone result is ever reported.
const BATCH: usize = 24;

enum Item {
    /// the batch analysis agreed with the reference for this design
    Agree { info: RefInfo, obs: Verdict },
    /// analysed alone (`batch_obs` = what the batch analysis had said, if it completed)
    Single {
        out: Outcome,
        batch_obs: Option<Verdict>,
    },
}

fn agrees(info: &RefInfo, obs: &Verdict) -> bool {
    let e = &info.verdict;
    e.ma == obs.ma
        && e.ub == obs.ub
        && (0..2).all(|i| info.uv_ambiguous[i] || e.uv[i] == obs.uv[i])
}

fn eval_batch(ds: &[Design]) -> Vec<Item> {
    let text = render_batch(ds);
    let res = gen_abs::analyze(&text);
    let diags = match &res {
        Analysis::Done { diags, .. }
            if !diags
                .iter()
                .any(|x| GENERATOR_BUG_CODES.contains(&x.code.as_str())) =>
        {
            Some(diags)
        }
        _ => None,
    };
    ds.iter()
        .enumerate()
        .map(|(k, d)| match diags {
            Some(diags) => {
                let info = reference(d);
                let obs = observed_tag(diags, &k.to_string());
                if agrees(&info, &obs) {
                    Item::Agree { info, obs }
                } else {
                    Item::Single {
                        out: eval(d),
                        batch_obs: Some(obs),
                    }
                }
            }
            None => Item::Single {
                out: eval(d),
                batch_obs: None,
            },
        })
        .collect()
}

fn verdict_json(v: &Verdict) -> Value {
    json!({
        "multiple_assignment": {"x": v.ma[0], "y": v.ma[1]},
        "uncovered_branch": {"x": v.ub[0], "y": v.ub[1]},
        "unassign_variable": {"x": v.uv[0], "y": v.uv[1]},
    })
}

const CHUNK: u64 = 1024;

pub fn run(ctx: &Ctx) -> Report {
    let mut rep = Report::new(Level::Exploration);
    install_quiet_panic_hook();
    let budget = ctx.budget(40.0, 1100.0);
    let fam = family(ctx.thorough());

    if std::env::var("VMC_C15_COUNT").is_ok() {
        for (name, _, n) in &fam.subs {
            eprintln!("{name}: {n}");
        }
        eprintln!("total: {}", fam.subs.iter().map(|x| x.2).sum::<u64>());
    }

    // ---- stage 0: the reference reading reproduces the repository's own tests ----------------
    let pins = pinned_tests();
    let pin_out = par_map(&pins, |(_, d, _)| eval(d));
    let mut pins_ok = 0u64;
    for ((name, _, pin), o) in pins.iter().zip(pin_out) {
        let refv = o.info.verdict;
        let ok_ref = pin_holds(*pin, &refv);
        let (ok_an, an_txt) = match &o.res {
            Analysis::Done { diags, .. } => {
                let obs = observed(diags);
                (pin_holds(*pin, &obs), format!("{}", verdict_json(&obs)))
            }
            x => (false, format!("{x:?}")),
        };
        if ok_ref && ok_an {
            pins_ok += 1;
        } else {
            rep.machinery(format!(
                "pinned repo test `{name}` ({pin:?}) not reproduced: reference_ok={ok_ref} ({}) analyzer_ok={ok_an} ({an_txt}) on\n{}",
                verdict_json(&refv),
                o.text
            ));
        }
    }
    rep.set("repo_tests_transcribed", pins.len() as u64);
    rep.set("repo_tests_reproduced_by_reference_and_analyzer", pins_ok);

    // ---- stage 1: the family -------------------------------------------------------------------
    // work list: (sub index, start, end), the sub-families interleaved round-robin so that a
    // budget cap leaves every sub-family partially covered instead of dropping the last ones
    let mut per_sub: Vec<std::collections::VecDeque<(usize, u64, u64)>> = vec![];
    for (si, (_, _, n)) in fam.subs.iter().enumerate() {
        let mut q = std::collections::VecDeque::new();
        let mut a = 0;
        while a < *n {
            let b = (a + CHUNK).min(*n);
            q.push_back((si, a, b));
            a = b;
        }
        per_sub.push(q);
    }
    let mut chunks: Vec<(usize, u64, u64)> = vec![];
    loop {
        let mut any = false;
        for q in per_sub.iter_mut() {
            if let Some(c) = q.pop_front() {
                chunks.push(c);
                any = true;
            }
        }
        if !any {
            break;
        }
    }
    let order = gen_abs::shard_order(chunks.len(), ctx.seed);

    let mut evaluations = 0u64;
    let mut nontrivial = 0u64;
    let mut skipped = Histo::default();
    let mut verdicts = Histo::default();
    let mut per_family = Histo::default();
    let mut obs_hist = Histo::default();
    let mut ambiguous = 0u64;
    let mut panics = 0u64;
    let mut capped = false;
    let mut chunks_done = 0usize;
    let mut viol_per_sig: BTreeMap<String, u64> = BTreeMap::new();
    let mut samples = 0;
    let mut singles = 0u64;
    let mut batch_differs = 0u64;

    let mut pos = 0usize;
    while pos < order.len() {
        if ctx.elapsed() > budget {
            capped = true;
            break;
        }
        // several chunks at a time so that all cores stay busy; within a chunk the designs are
        // analysed BATCH modules per text
        let mut groups: Vec<(usize, u64, u64)> = vec![];
        let mut n_designs = 0u64;
        let round = if ctx.thorough() { 4 * CHUNK } else { CHUNK };
        while pos < order.len() && n_designs < round {
            let (si, a, b) = chunks[order[pos]];
            let mut i = a;
            while i < b {
                let j = (i + BATCH as u64).min(b);
                groups.push((si, i, j));
                i = j;
            }
            n_designs += b - a;
            pos += 1;
            chunks_done += 1;
        }
        let outs = par_map(&groups, |(si, a, b)| {
            let ds: Vec<Design> = (*a..*b).map(|i| member(&fam, &fam.subs[*si].1, i)).collect();
            let items = eval_batch(&ds);
            (ds, items)
        });
        for ((si, _, _), (ds, items)) in groups.iter().zip(outs) {
            let name = &fam.subs[*si].0;
            for (d, item) in ds.iter().zip(items) {
                evaluations += 1;
                per_family.add(name);
                let (info, obs, single) = match item {
                    Item::Agree { info, obs } => (info, obs, None),
                    Item::Single { out, batch_obs } => {
                        singles += 1;
                        let diags = match &out.res {
                            Analysis::ParseError(e) => {
                                skipped.add("parse_error");
                                if skipped.get("parse_error") <= 2 {
                                    rep.notes.push(format!("parse error: {e} in\n{}", out.text));
                                }
                                continue;
                            }
                            Analysis::Panic(p) => {
                                panics += 1;
                                if panics <= 3 {
                                    rep.machinery(format!(
                                        "analyzer panicked ({p}) at {:?} on\n{}",
                                        take_panic_loc(),
                                        out.text
                                    ));
                                }
                                continue;
                            }
                            Analysis::Done { diags, .. } => diags.clone(),
                        };
                        if let Some(bad) = diags
                            .iter()
                            .find(|x| GENERATOR_BUG_CODES.contains(&x.code.as_str()))
                        {
                            skipped.add(&format!("rejected:{}", bad.code));
                            if skipped.0.values().sum::<u64>() <= 3 {
                                rep.notes
                                    .push(format!("generator bug? {} in\n{}", bad.msg, out.text));
                            }
                            continue;
                        }
                        let obs = observed(&diags);
                        if let Some(b) = batch_obs {
                            if b != obs {
                                batch_differs += 1;
                                if batch_differs <= 3 {
                                    rep.machinery(format!(
                                        "the stand-alone analysis of a module differs from its analysis inside a batch text: alone {} / in batch {} for\n{}",
                                        verdict_json(&obs),
                                        verdict_json(&b),
                                        out.text
                                    ));
                                }
                            }
                        }
                        (out.info.clone(), obs, Some((out.text.clone(), diags)))
                    }
                };
                let exp = info.verdict;
                if info.writes >= 2 || info.branches >= 1 || info.reads >= 1 {
                    nontrivial += 1;
                }
                for (nm, e, ob) in [
                    ("multiple_assignment", exp.ma, obs.ma),
                    ("uncovered_branch", exp.ub, obs.ub),
                    ("unassign_variable", exp.uv, obs.uv),
                ] {
                    let any_e = e[0] || e[1];
                    let any_o = ob[0] || ob[1];
                    verdicts.add(&format!("{nm}:reference={any_e}"));
                    obs_hist.add(&format!("{nm}:analyzer={any_o}"));
                    for v in VARS {
                        let i = v.idx();
                        if nm == "unassign_variable" && info.uv_ambiguous[i] {
                            ambiguous += 1;
                            continue;
                        }
                        if e[i] != ob[i] {
                            let Some((text, diags)) = &single else {
                                rep.machinery("internal: disagreement without stand-alone analysis");
                                continue;
                            };
                            for sig in classify(d, &info, nm, v, ob[i]) {
                            let n = viol_per_sig.entry(sig.clone()).or_insert(0);
                            *n += 1;
                            if *n <= 3 {
                                rep.violation(Violation {
                                    signature: sig,
                                    what: format!(
                                        "{nm} on `{}`: reference says {}, analyzer says {}",
                                        v.name(),
                                        e[i],
                                        ob[i]
                                    ),
                                    case: json!({"design": text, "family": name, "abstract": format!("{:?}", d)}),
                                    expected: verdict_json(&exp),
                                    observed: json!({
                                        "verdict": verdict_json(&obs),
                                        "diagnostics": diags.iter().map(|x| format!("{}: {}", x.code, x.msg)).collect::<Vec<_>>(),
                                    }),
                                });
                            }
                            }
                        }
                    }
                }
                if samples < 8 && (exp.ma[0] || exp.ub[0] || exp.uv[0]) && evaluations % 97 == 1 {
                    samples += 1;
                    rep.sample(json!({"design": render(d), "reference": verdict_json(&exp), "analyzer": verdict_json(&obs)}));
                }
            }
        }
    }

    let skipped_total: u64 = skipped.0.values().sum();
    rep.set("evaluations", evaluations);
    rep.set("distinct_nontrivial", nontrivial);
    rep.set(
        "rule",
        "designs are pairwise distinct by construction (distinct abstract trees, unranked from disjoint index ranges); non-trivial = at least two candidate (bit, process) writes, or a branch, or a read of a variable bit",
    );
    rep.set("verdict_histogram", verdicts.json());
    rep.set("analyzer_histogram", obs_hist.json());
    rep.set("designs_per_subfamily", per_family.json());
    rep.set(
        "subfamily_sizes",
        serde_json::to_value(
            fam.subs
                .iter()
                .map(|(n, _, c)| (n.clone(), *c))
                .collect::<BTreeMap<_, _>>(),
        )
        .unwrap(),
    );
    rep.set("skipped", skipped_total);
    rep.set("skipped_reasons", skipped.json());
    rep.set("uv_comparisons_skipped_as_ambiguous", ambiguous);
    rep.set("analyzer_panics", panics);
    rep.set("modules_per_batch_text", BATCH as u64);
    rep.set("designs_reanalysed_alone", singles);
    rep.set("batch_vs_alone_differences", batch_differs);
    rep.set("chunks_total", chunks.len() as u64);
    rep.set("chunks_completed", chunks_done as u64);
    rep.set("capped_by_budget", capped);
    rep.set("exhaustive", !capped);
    rep.set(
        "disagreement_cases_per_signature",
        serde_json::to_value(&viol_per_sig).unwrap(),
    );
    rep.set("bounds", fam.bounds.clone());
    rep.assume("control paths are syntactic: branch conditions are distinct free inputs (c0, c1, s) or a read of x, every path is feasible; a case/switch over all values without default is not generated");
    rep.assume("uncovered_branch / unassign_variable are compared at bit granularity folded per variable (the diagnostics name the variable only)");
    rep.assume("a variable with no assigned bit at all is reported as unassigned even if nothing reads it (pinned by the repo test `var _a: logic;`); an output port is read by the parent");
    rep.assume("read-before-assign: a bit is read on a control path of an always_comb/assign and written later on the same path; where the block also latches the bit (read on a path that never writes it) the text is ambiguous and the UV verdict of that variable is not compared (counted in uv_comparisons_skipped_as_ambiguous)");

    // vacuity guards
    for k in ["multiple_assignment", "uncovered_branch", "unassign_variable"] {
        if verdicts.get(&format!("{k}:reference=true")) == 0
            || verdicts.get(&format!("{k}:reference=false")) == 0
        {
            rep.machinery(format!("vacuity guard: reference verdict for {k} is constant"));
        }
        if obs_hist.get(&format!("{k}:analyzer=true")) == 0 {
            rep.machinery(format!("vacuity guard: analyzer never reported {k}"));
        }
    }
    if evaluations > 0 && skipped_total * 50 > evaluations {
        rep.machinery(format!(
            "generator bug rate too high: {skipped_total} of {evaluations} designs rejected for unrelated reasons"
        ));
    }
    if nontrivial < 2 {
        rep.machinery("vacuity guard: fewer than 2 non-trivial designs");
    }
    rep
}

pub fn replay(doc: &Value) -> i32 {
    let Some(text) = doc["case"]["design"].as_str() else {
        eprintln!("replay: no case.design");
        return 2;
    };
    match gen_abs::analyze(text) {
        Analysis::Done { diags, .. } => {
            let obs = observed(&diags);
            println!("design:\n{text}");
            for d in &diags {
                println!("diagnostic: {}: {}", d.code, d.msg);
            }
            println!("expected: {}", doc["expected"]);
            println!("observed: {}", verdict_json(&obs));
            if verdict_json(&obs) == doc["expected"] {
                println!("REPLAY: analyzer now agrees with the reference");
                0
            } else {
                println!("REPLAY: disagreement reproduced");
                1
            }
        }
        x => {
            eprintln!("replay: analysis did not complete: {x:?}");
            2
        }
    }
}

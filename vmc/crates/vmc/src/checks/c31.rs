//! C31 — dependency resolution is deterministic and picks the best version.
//!
//! Engine E1 on the real `veryl_metadata::{Metadata, Lockfile}` API (in process, in worker
//! subprocesses with private HOME / XDG_CACHE_HOME), against local git repositories created by
//! the harness (`file://` URLs, no network).
//!
//! Space: release sets = all non-empty subsets of {0.1.0, 0.1.1, 0.2.0, 1.0.0} (Veryl.pub written
//! in ascending and in rotated order) x requirements {0.1, ^0.1.0, ~0.1.0, >=0.1.1, <0.2, *, =0.2.0, 1}
//! x lock state {none, locked to each release} x graph shapes
//!   direct      root -> lib
//!   two         root -> liba, libb: the same project `lib` under two requirements
//!   path        root -> pd (path dependency) -> lib
//!   diamond     root -> m1, m2 (path dependencies), m1 -> lib, m2 -> lib; and the three-armed
//!               variant root -> m1, m2, m3 -> lib (arms in {2, 3}): with three arms up to three
//!               different releases are declared under the one name `lib`, so the conflict-suffix
//!               search (`lib`, `lib_0`, `lib_1`) is taken more than once for a name. The arms
//!               are interchangeable, so three-armed requirement triples are enumerated as
//!               multisets (r1 <= r2 <= r3), richest (most distinct reference picks) first
//!   chain       root -> mid (git, two releases) -> lib
//! A lock state "locked to r" is produced by a real history: resolve once with the requirement
//! `=r`, save Veryl.lock, then change the declaration to the requirement under test and update.
//!
//! Order: the shapes are interleaved proportionally (case i of a shape with n cases has rank i/n),
//! so a budget cut leaves the same leading fraction of every shape instead of dropping the later
//! shapes altogether.
//!
//! Oracle: the reference resolver of the property text (refmodels::semver_ref): for each
//! dependency edge the release recorded for that edge in the lock file if it still satisfies the
//! requirement, otherwise the highest published release that does; save/load round trip;
//! `update` on unchanged declarations returns false and changes nothing; lock names pairwise
//! distinct; repeated resolutions from the same inputs give the same table; `update --force`
//! equals a fresh resolution.

use crate::core::*;
use rayon::prelude::*;
use serde::{Deserialize, Serialize};
use serde_json::{Value, json};
use std::collections::{BTreeMap, BTreeSet};
use std::path::{Path, PathBuf};
use std::process::Command;
use vmc_refmodels::semver_ref::{Req, Ver, resolve};

pub const RELEASES: [&str; 4] = ["0.1.0", "0.1.1", "0.2.0", "1.0.0"];
pub const REQS: [&str; 8] = ["0.1", "^0.1.0", "~0.1.0", ">=0.1.1", "<0.2", "*", "=0.2.0", "1"];

#[derive(Clone, Debug, Serialize, Deserialize, PartialEq, Eq)]
pub struct Case {
    pub id: usize,
    pub shape: String,
    /// bit i set = RELEASES[i] is published
    pub rset: u8,
    /// 0 = Veryl.pub in ascending order (what `veryl publish` writes), 1 = rotated by one
    pub pub_order: u8,
    pub req1: usize,
    pub req2: Option<usize>,
    /// index into RELEASES
    pub lock1: Option<usize>,
    pub lock2: Option<usize>,
    /// third arm of the `diamond` shape (None = two arms)
    #[serde(default)]
    pub req3: Option<usize>,
    #[serde(default)]
    pub lock3: Option<usize>,
    /// `props` shape: value of the property override `P` before / after the declaration change
    #[serde(default)]
    pub prop1: Option<i64>,
    #[serde(default)]
    pub prop2: Option<i64>,
}

impl Case {
    fn released(&self) -> Vec<Ver> {
        (0..4).filter(|i| self.rset >> i & 1 == 1).map(|i| Ver::parse(RELEASES[i]).unwrap()).collect()
    }
    fn text(&self) -> String {
        format!(
            "{} releases={:?} pub_order={} req1={} req2={:?} req3={:?} lock1={:?} lock2={:?} lock3={:?} prop={:?}->{:?}",
            self.shape,
            self.released().iter().map(|v| v.text()).collect::<Vec<_>>(),
            if self.pub_order == 0 { "ascending" } else { "rotated" },
            REQS[self.req1],
            self.req2.map(|r| REQS[r]),
            self.req3.map(|r| REQS[r]),
            self.lock1.map(|r| RELEASES[r]),
            self.lock2.map(|r| RELEASES[r]),
            self.lock3.map(|r| RELEASES[r]),
            self.prop1,
            self.prop2,
        )
    }
}

#[derive(Clone, Debug, Serialize, Deserialize)]
pub struct Shard {
    pub cases: Vec<Case>,
    /// lib repo key `<rset>_<order>` -> (path, version -> revision)
    pub libs: BTreeMap<String, (String, BTreeMap<String, String>)>,
    pub scratch: String,
    pub budget_s: f64,
    pub repeats: usize,
}

#[derive(Clone, Debug, Serialize, Deserialize, Default)]
pub struct CaseResult {
    pub id: usize,
    pub skipped: Option<String>,
    /// (signature, what, expected, observed)
    pub violations: Vec<(String, String, Value, Value)>,
    pub outcome: String,
    pub nontrivial: bool,
    pub resolutions: u64,
}

// ------------------------------------------------------------------------------- git helpers

fn git(dir: &Path, args: &[&str]) -> Result<String, String> {
    let out = Command::new("git")
        .args(["-c", "maintenance.auto=false", "-c", "gc.auto=0", "-c", "core.fsync=none", "-c", "advice.detachedHead=false"])
        .args(args)
        .current_dir(dir)
        .env("GIT_AUTHOR_NAME", "vmc")
        .env("GIT_AUTHOR_EMAIL", "vmc@example.invalid")
        .env("GIT_COMMITTER_NAME", "vmc")
        .env("GIT_COMMITTER_EMAIL", "vmc@example.invalid")
        .env("GIT_AUTHOR_DATE", "2001-09-09T01:46:40Z")
        .env("GIT_COMMITTER_DATE", "2001-09-09T01:46:40Z")
        .env("GIT_CONFIG_GLOBAL", "/dev/null")
        .env("GIT_CONFIG_NOSYSTEM", "1")
        .output()
        .map_err(|e| format!("git {args:?}: {e}"))?;
    if !out.status.success() {
        return Err(format!("git {args:?} in {}: {}", dir.display(), String::from_utf8_lossy(&out.stderr)));
    }
    Ok(String::from_utf8_lossy(&out.stdout).trim().to_string())
}

fn project_toml(name: &str, version: &str, deps: &[(String, String)]) -> String {
    let mut s = format!("[project]\nname = \"{name}\"\nversion = \"{version}\"\n");
    if name == "lib" {
        s.push_str("\n[properties]\nP = 0\n");
    }
    if !deps.is_empty() {
        s.push_str("\n[dependencies]\n");
        for (n, spec) in deps {
            s.push_str(&format!("{n} = {spec}\n"));
        }
    }
    s
}

/// Creates a git repository holding project `name` with one commit per version and a final
/// commit that publishes them (Veryl.pub in the given order). Returns version -> revision.
/// Uses `git fast-import` (3 processes per repository instead of one per git command).
fn make_repo(dir: &Path, name: &str, versions: &[(String, Vec<(String, String)>)], pub_order: &[usize]) -> Result<BTreeMap<String, String>, String> {
    std::fs::create_dir_all(dir).map_err(|e| e.to_string())?;
    git(dir, &["init", "-q", "-b", "main"])?;
    let ident = "vmc <vmc@example.invalid> 1000000000 +0000";
    let data = |s: &str| format!("data {}\n{}\n", s.len(), s);
    let ignore = "Veryl.lock\n.build/\ndependencies/\n";
    let mut stream = String::new();
    for (i, (v, deps)) in versions.iter().enumerate() {
        let toml = project_toml(name, v, deps);
        stream.push_str(&format!("commit refs/heads/main\nmark :{}\nauthor {ident}\ncommitter {ident}\n{}", i + 1, data(&format!("version {v}"))));
        if i > 0 {
            stream.push_str(&format!("from :{i}\n"));
        }
        stream.push_str(&format!("M 100644 inline Veryl.toml\n{}M 100644 inline .gitignore\n{}\n", data(&toml), data(ignore)));
    }
    let marks = dir.join(".git/vmc-marks");
    git_stdin(dir, &["fast-import", "--quiet", &format!("--export-marks={}", marks.display())], &stream)?;
    let mut revs = BTreeMap::new();
    for line in std::fs::read_to_string(&marks).map_err(|e| e.to_string())?.lines() {
        let mut it = line.split_whitespace();
        if let (Some(m), Some(sha)) = (it.next(), it.next()) {
            if let Ok(i) = m.trim_start_matches(':').parse::<usize>() {
                if i >= 1 && i <= versions.len() {
                    revs.insert(versions[i - 1].0.clone(), sha.to_string());
                }
            }
        }
    }
    if revs.len() != versions.len() {
        return Err(format!("fast-import marks incomplete in {}", dir.display()));
    }
    let mut pubfile = String::from("# This file is automatically @generated by Veryl.\n# It is not intended for manual editing.\n");
    for i in pub_order {
        let (v, _) = &versions[*i];
        pubfile.push_str(&format!("[[releases]]\nversion = \"{v}\"\nrevision = \"{}\"\n\n", revs[v]));
    }
    let stream2 = format!("commit refs/heads/main\nauthor {ident}\ncommitter {ident}\n{}from refs/heads/main^0\nM 100644 inline Veryl.pub\n{}\n", data("publish"), data(&pubfile));
    git_stdin(dir, &["fast-import", "--quiet"], &stream2)?;
    // the work tree is not needed by clones, but keep the repository self-consistent
    git(dir, &["reset", "-q", "--hard", "main"])?;
    Ok(revs)
}

fn git_stdin(dir: &Path, args: &[&str], input: &str) -> Result<(), String> {
    use std::io::Write;
    let mut child = Command::new("git")
        .args(args)
        .current_dir(dir)
        .env("GIT_CONFIG_GLOBAL", "/dev/null")
        .env("GIT_CONFIG_NOSYSTEM", "1")
        .stdin(std::process::Stdio::piped())
        .stdout(std::process::Stdio::null())
        .stderr(std::process::Stdio::piped())
        .spawn()
        .map_err(|e| format!("git {args:?}: {e}"))?;
    child.stdin.take().unwrap().write_all(input.as_bytes()).map_err(|e| e.to_string())?;
    let out = child.wait_with_output().map_err(|e| e.to_string())?;
    if !out.status.success() {
        return Err(format!("git {args:?} in {}: {}", dir.display(), String::from_utf8_lossy(&out.stderr)));
    }
    Ok(())
}

fn lib_key(rset: u8, order: u8) -> String {
    format!("{rset}_{order}")
}

// ------------------------------------------------------------------------------- observation of a lock table

#[derive(Clone, Debug, PartialEq, Eq, PartialOrd, Ord, Serialize, Deserialize)]
pub struct LockView {
    pub name: String,
    pub project: String, // "" for a path source
    pub version: String, // path text for a path source
    pub revision: String,
    pub visible: bool,
    pub deps: Vec<(String, String)>, // (dependency name, version or path)
    #[serde(default)]
    pub props: Vec<(String, String)>,
}

fn view(lf: &veryl_metadata::Lockfile) -> Vec<LockView> {
    let mut v: Vec<LockView> = lf
        .projects()
        .into_iter()
        .map(|l| {
            let (project, version, revision) = match &l.source {
                veryl_metadata::LockSource::Repository(x) => (x.project.clone(), x.version.to_string(), x.revision.clone()),
                veryl_metadata::LockSource::Path(p) => (String::new(), p.to_string_lossy().to_string(), String::new()),
            };
            let mut deps: Vec<(String, String)> = l
                .dependencies
                .iter()
                .map(|d| {
                    (
                        d.name.clone(),
                        match &d.source {
                            veryl_metadata::LockSource::Repository(x) => x.version.to_string(),
                            veryl_metadata::LockSource::Path(p) => p.to_string_lossy().to_string(),
                        },
                    )
                })
                .collect();
            deps.sort();
            let props = l.properties.iter().map(|(k, v)| (k.clone(), v.value_string())).collect();
            LockView { name: l.name.clone(), project, version, revision, visible: l.visible, deps, props }
        })
        .collect();
    v.sort();
    v
}

type Res = Result<(bool, Vec<LockView>), String>;

fn err_class(e: &veryl_metadata::MetadataError) -> String {
    let d = format!("{e:?}");
    let head: String = d.chars().take_while(|c| c.is_alphanumeric()).collect();
    format!("{head}: {e}")
}

/// `Lockfile::new` on the project at `root` (fresh resolution, no lock file).
fn resolve_new(root: &Path, save: bool) -> Res {
    let md = veryl_metadata::Metadata::load(root.join("Veryl.toml")).map_err(|e| err_class(&e))?;
    let mut lf = veryl_metadata::Lockfile::new(&md).map_err(|e| err_class(&e))?;
    if save {
        lf.save(&md.lockfile_path).map_err(|e| err_class(&e))?;
    }
    Ok((true, view(&lf)))
}

/// `Lockfile::load` + `update(force)`; optionally saves.
fn resolve_update(root: &Path, force: bool, save: bool) -> Res {
    let md = veryl_metadata::Metadata::load(root.join("Veryl.toml")).map_err(|e| err_class(&e))?;
    let mut lf = veryl_metadata::Lockfile::load(&md).map_err(|e| err_class(&e))?;
    let modified = lf.update(&md, force).map_err(|e| err_class(&e))?;
    if save {
        lf.save(&md.lockfile_path).map_err(|e| err_class(&e))?;
    }
    Ok((modified, view(&lf)))
}

fn load_view(root: &Path) -> Result<Vec<LockView>, String> {
    let md = veryl_metadata::Metadata::load(root.join("Veryl.toml")).map_err(|e| err_class(&e))?;
    let lf = veryl_metadata::Lockfile::load(&md).map_err(|e| err_class(&e))?;
    Ok(view(&lf))
}

// ------------------------------------------------------------------------------- per-case procedure

struct Layout {
    root: PathBuf,
}

fn git_dep_props(url: &str, req: &str, prop: Option<i64>) -> String {
    match prop {
        Some(p) => format!("{{git = \"{url}\", version = \"{req}\", properties = {{P = {p}}}}}"),
        None => format!("{{git = \"{url}\", version = \"{req}\"}}"),
    }
}

fn git_dep(url: &str, project: Option<&str>, req: &str) -> String {
    match project {
        Some(p) => format!("{{git = \"{url}\", project = \"{p}\", version = \"{req}\"}}"),
        None => format!("{{git = \"{url}\", version = \"{req}\"}}"),
    }
}

/// Writes the declarations of one step. `r1`/`r2` are requirement texts.
fn write_step(case: &Case, dir: &Path, lib_url: &str, mid_url: Option<&str>, r1: &str, r2: Option<&str>, r3: Option<&str>, mid_req: Option<&str>, prop: Option<i64>) -> Result<Layout, String> {
    let root = dir.join("root");
    let w = |p: PathBuf, t: String| -> Result<(), String> {
        std::fs::create_dir_all(p.parent().unwrap()).map_err(|e| e.to_string())?;
        std::fs::write(&p, t).map_err(|e| e.to_string())
    };
    match case.shape.as_str() {
        "direct" => w(root.join("Veryl.toml"), project_toml("root", "0.1.0", &[("lib".into(), git_dep(lib_url, None, r1))]))?,
        "props" => w(root.join("Veryl.toml"), project_toml("root", "0.1.0", &[("lib".into(), git_dep_props(lib_url, r1, prop))]))?,
        "two" => w(
            root.join("Veryl.toml"),
            project_toml("root", "0.1.0", &[("liba".into(), git_dep(lib_url, Some("lib"), r1)), ("libb".into(), git_dep(lib_url, Some("lib"), r2.unwrap()))]),
        )?,
        "path" => {
            w(root.join("Veryl.toml"), project_toml("root", "0.1.0", &[("pd".into(), "{path = \"../pd\"}".into())]))?;
            w(dir.join("pd/Veryl.toml"), project_toml("pd", "0.1.0", &[("lib".into(), git_dep(lib_url, None, r1))]))?;
        }
        "diamond" => {
            let mut arms = vec![("m1".to_string(), "{path = \"../m1\"}".to_string()), ("m2".to_string(), "{path = \"../m2\"}".to_string())];
            if r3.is_some() {
                arms.push(("m3".to_string(), "{path = \"../m3\"}".to_string()));
            }
            w(root.join("Veryl.toml"), project_toml("root", "0.1.0", &arms))?;
            w(dir.join("m1/Veryl.toml"), project_toml("m1", "0.1.0", &[("lib".into(), git_dep(lib_url, None, r1))]))?;
            w(dir.join("m2/Veryl.toml"), project_toml("m2", "0.1.0", &[("lib".into(), git_dep(lib_url, None, r2.unwrap()))]))?;
            if let Some(r3) = r3 {
                w(dir.join("m3/Veryl.toml"), project_toml("m3", "0.1.0", &[("lib".into(), git_dep(lib_url, None, r3))]))?;
            }
        }
        "chain" => w(root.join("Veryl.toml"), project_toml("root", "0.1.0", &[("mid".into(), git_dep(mid_url.unwrap(), None, mid_req.unwrap()))]))?,
        x => return Err(format!("unknown shape {x}")),
    }
    Ok(Layout { root })
}

/// What the property text demands, as (project `lib` versions per edge) or an error class.
#[derive(Debug, Clone, PartialEq, Eq)]
enum Expect {
    Versions(Vec<(String, String)>), // (edge name, version) sorted
    NoMatch,
    RootDuplicate,
}

fn expectation(case: &Case, use_locks: bool) -> Expect {
    let published = case.released();
    let lock = |l: Option<usize>| if use_locks { l.map(|i| Ver::parse(RELEASES[i]).unwrap()) } else { None };
    let v1 = resolve(&published, &Req::parse(REQS[case.req1]).unwrap(), lock(case.lock1));
    match case.shape.as_str() {
        "direct" | "path" | "chain" | "props" => match v1 {
            Some(v) => Expect::Versions(vec![("lib".into(), v.text())]),
            None => Expect::NoMatch,
        },
        _ => {
            let v2 = resolve(&published, &Req::parse(REQS[case.req2.unwrap()]).unwrap(), lock(case.lock2));
            if let (true, Some(r3)) = (case.shape == "diamond", case.req3) {
                let v3 = resolve(&published, &Req::parse(REQS[r3]).unwrap(), lock(case.lock3));
                return match (v1, v2, v3) {
                    (Some(a), Some(b), Some(c)) => Expect::Versions(vec![("m1".into(), a.text()), ("m2".into(), b.text()), ("m3".into(), c.text())]),
                    _ => Expect::NoMatch,
                };
            }
            match (v1, v2) {
                (Some(a), Some(b)) => {
                    if case.shape == "two" {
                        if a == b {
                            return Expect::RootDuplicate;
                        }
                        Expect::Versions(vec![("liba".into(), a.text()), ("libb".into(), b.text())])
                    } else {
                        Expect::Versions(vec![("m1".into(), a.text()), ("m2".into(), b.text())])
                    }
                }
                _ => Expect::NoMatch,
            }
        }
    }
}

/// Per-edge versions of `lib` as recorded in an observed table.
fn observed_edges(case: &Case, t: &[LockView]) -> Vec<(String, String)> {
    let mut v = vec![];
    match case.shape.as_str() {
        "direct" | "props" => {
            for l in t.iter().filter(|l| l.project == "lib" && l.visible) {
                v.push(("lib".to_string(), l.version.clone()));
            }
        }
        "two" => {
            for l in t.iter().filter(|l| l.project == "lib") {
                v.push((l.name.clone(), l.version.clone()));
            }
        }
        "path" => {
            for l in t.iter().filter(|l| l.name == "pd") {
                for (n, ver) in &l.deps {
                    v.push((n.clone(), ver.clone()));
                }
            }
        }
        "diamond" => {
            for l in t.iter().filter(|l| l.name == "m1" || l.name == "m2" || l.name == "m3") {
                for (_, ver) in &l.deps {
                    v.push((l.name.clone(), ver.clone()));
                }
            }
        }
        "chain" => {
            for l in t.iter().filter(|l| l.project == "mid") {
                for (n, ver) in &l.deps {
                    v.push((n.clone(), ver.clone()));
                }
            }
        }
        _ => {}
    }
    v.sort();
    v
}

fn classify_err(e: &str) -> &'static str {
    if e.starts_with("VersionNotFound") {
        "NoMatch"
    } else if e.starts_with("InvalidDependency") && e.contains("conflicts") {
        "RootDuplicate"
    } else {
        "OtherError"
    }
}

fn run_case(case: &Case, shard: &Shard, dir: &Path, over: &dyn Fn() -> bool) -> CaseResult {
    let mut res = CaseResult { id: case.id, ..Default::default() };
    let (lib_path, revs) = &shard.libs[&lib_key(case.rset, case.pub_order)];
    let lib_url = format!("file://{lib_path}");
    let _ = std::fs::remove_dir_all(dir);
    let req1 = REQS[case.req1];
    let req2 = case.req2.map(|r| REQS[r]);
    let req3 = case.req3.map(|r| REQS[r]);
    let lock_req = |l: Option<usize>| l.map(|i| format!("={}", RELEASES[i]));

    // the chain's intermediate git repository: 0.1.0 pins lib to the lock state, 0.2.0 carries req1
    let mut mid_url = None;
    if case.shape == "chain" {
        let mut versions = vec![];
        if let Some(l) = lock_req(case.lock1) {
            versions.push(("0.1.0".to_string(), vec![("lib".to_string(), git_dep(&lib_url, None, &l))]));
        }
        versions.push(("0.2.0".to_string(), vec![("lib".to_string(), git_dep(&lib_url, None, req1))]));
        let order: Vec<usize> = (0..versions.len()).collect();
        match make_repo(&dir.join("mid"), "mid", &versions, &order) {
            Ok(_) => mid_url = Some(format!("file://{}", dir.join("mid").display())),
            Err(e) => {
                res.skipped = Some(format!("harness: {e}"));
                return res;
            }
        }
    }
    let case_json = || json!({"case": case.text(), "lib_repository": lib_path, "raw": case});
    let mut viol = |sig: String, what: String, exp: Value, obs: Value| {
        res.violations.push((sig, what, exp, obs));
    };

    if over() {
        res.skipped = Some("deadline".into());
        return res;
    }
    // ---- step 1: establish the lock state
    let has_lock = case.lock1.is_some();
    if has_lock {
        let l1 = lock_req(case.lock1).unwrap();
        let l2 = lock_req(case.lock2);
        let l3 = lock_req(case.lock3);
        let lay = match write_step(case, dir, &lib_url, mid_url.as_deref(), &l1, l2.as_deref(), l3.as_deref(), Some("=0.1.0"), case.prop1) {
            Ok(x) => x,
            Err(e) => {
                res.skipped = Some(format!("harness: {e}"));
                return res;
            }
        };
        res.resolutions += 1;
        match resolve_new(&lay.root, true) {
            Ok(_) => {}
            Err(e) => {
                res.skipped = Some(format!("lock state not reachable: {e}"));
                return res;
            }
        }
    }
    if over() {
        res.skipped = Some("deadline".into());
        return res;
    }
    // ---- step 2: the declarations under test
    let lay = match write_step(case, dir, &lib_url, mid_url.as_deref(), req1, req2, req3, Some("=0.2.0"), case.prop2) {
        Ok(x) => x,
        Err(e) => {
            res.skipped = Some(format!("harness: {e}"));
            return res;
        }
    };
    let lock_path = lay.root.join("Veryl.lock");
    let lock_before = std::fs::read(&lock_path).ok();
    let step2 = |save: bool| -> Res { if has_lock { resolve_update(&lay.root, false, save) } else { resolve_new(&lay.root, save) } };
    let restore_lock = || match &lock_before {
        Some(d) => {
            let _ = std::fs::write(&lock_path, d);
        }
        None => {
            let _ = std::fs::remove_file(&lock_path);
        }
    };

    let exp = expectation(case, true);
    let before_table = if has_lock { load_view(&lay.root).ok() } else { None };
    res.resolutions += 1;
    let first = step2(false);
    if let (Some(before), Ok((modified, after))) = (&before_table, &first) {
        if before != after && !*modified {
            viol(
                format!("C31:update-unreported-change:{}", case.shape),
                "`update` changed the lock table but reports no modification (the caller then does not save it)".into(),
                json!({"modified": true}),
                json!({"modified": modified, "before": before, "after": after}),
            );
        }
    }
    res.outcome = match &first {
        Ok(_) => "resolved".into(),
        Err(e) => classify_err(e).to_string(),
    };
    let shape = case.shape.clone();
    let lockdesc = if has_lock { "locked" } else { "no-lock" };
    match (&exp, &first) {
        (Expect::Versions(want), Ok((_, table))) => {
            let got = observed_edges(case, table);
            if &got != want {
                // classify: locked release dropped / wrong pick without lock
                let kind = if has_lock { "locked-release-not-kept-or-wrong" } else { "not-highest" };
                viol(
                    format!("C31:pick:{shape}:{kind}"),
                    format!("resolved versions differ from the property's rule ({lockdesc})"),
                    json!(want),
                    json!({"edges": got, "table": table}),
                );
            }
            // revisions must be those published for the version
            for l in table.iter().filter(|l| l.project == "lib") {
                if revs.get(&l.version) != Some(&l.revision) {
                    viol(format!("C31:revision:{shape}"), "the locked revision is not the one published for the version".into(), json!(revs.get(&l.version)), json!(l));
                }
            }
            // names pairwise distinct
            let names: BTreeSet<&String> = table.iter().map(|l| &l.name).collect();
            if names.len() != table.len() {
                viol(format!("C31:names-not-distinct:{shape}"), "two resolved dependencies share a project name".into(), json!("pairwise distinct names"), json!(table));
            }
            if case.shape == "props" {
                let want = vec![("P".to_string(), case.prop2.unwrap_or(0).to_string())];
                for l in table.iter().filter(|l| l.project == "lib") {
                    if l.props != want {
                        viol("C31:properties".into(), "the lock does not carry the declared property override".into(), json!(want), json!(l));
                    }
                }
            }
            res.nontrivial = case.released().len() >= 2;
        }
        (Expect::NoMatch, Err(e)) if classify_err(e) == "NoMatch" => {}
        (Expect::RootDuplicate, Err(e)) if classify_err(e) == "RootDuplicate" => {}
        (want, got) => {
            let gc = match got {
                Ok(_) => "resolved".to_string(),
                Err(e) => classify_err(e).to_string(),
            };
            let wc = match want {
                Expect::Versions(_) => "resolved",
                Expect::NoMatch => "NoMatch",
                Expect::RootDuplicate => "RootDuplicate",
            };
            viol(
                format!("C31:outcome:{shape}:{lockdesc}:expected-{wc}-got-{gc}"),
                "resolution outcome class differs from the property's rule".into(),
                json!(format!("{want:?}")),
                json!(match got {
                    Ok((m, t)) => json!({"modified": m, "edges": observed_edges(case, t), "table": t}),
                    Err(e) => json!(e),
                }),
            );
        }
    }

    if over() {
        res.skipped = Some("deadline".into());
        return res;
    }
    if let Ok((_, table)) = &first {
        // ---- determinism: the same inputs again
        for k in 0..shard.repeats {
            restore_lock();
            res.resolutions += 1;
            match step2(false) {
                Ok((_, t)) if &t == table => {}
                other => {
                    viol(
                        format!("C31:nondeterministic:{shape}"),
                        format!("resolution #{} from identical inputs gives a different lock table", k + 2),
                        json!(table),
                        json!(match other {
                            Ok((_, t)) => json!(t),
                            Err(e) => json!(e),
                        }),
                    );
                    break;
                }
            }
        }
        if over() {
            res.skipped = Some("deadline".into());
            return res;
        }
        // ---- save / load round trip
        restore_lock();
        res.resolutions += 1;
        match step2(true) {
            Ok((_, saved)) => match load_view(&lay.root) {
                Ok(loaded) => {
                    if loaded != saved {
                        viol(format!("C31:roundtrip:{shape}"), "loading the saved lock file gives a different lock table".into(), json!(saved), json!(loaded));
                    }
        if over() {
            res.skipped = Some("deadline".into());
            return res;
        }
                    // ---- update with unchanged declarations
                    res.resolutions += 1;
                    match resolve_update(&lay.root, false, false) {
                        Ok((modified, t)) => {
                            if modified || t != loaded {
                                viol(
                                    format!("C31:update-not-idempotent:{shape}"),
                                    "`update` on unchanged declarations reports a modification or changes the table".into(),
                                    json!({"modified": false, "table": loaded}),
                                    json!({"modified": modified, "table": t}),
                                );
                            }
                        }
                        Err(e) => viol(
                            format!("C31:update-not-idempotent:{shape}:error"),
                            "`update` on unchanged declarations fails".into(),
                            json!({"modified": false, "table": loaded}),
                            json!(e),
                        ),
                    }
        if over() {
            res.skipped = Some("deadline".into());
            return res;
        }
                    // ---- update --force == fresh resolution == highest matching
                    res.resolutions += 2;
                    let forced = resolve_update(&lay.root, true, false);
                    let _ = std::fs::remove_file(&lock_path);
                    let fresh = resolve_new(&lay.root, false);
                    let strip = |r: &Res| -> Result<Vec<(String, String)>, String> {
                        match r {
                            Ok((_, t)) => Ok(observed_edges(case, t)),
                            Err(e) => Err(classify_err(e).to_string()),
                        }
                    };
                    let want_fresh = expectation(case, false);
                    let fresh_edges = strip(&fresh);
                    let ok_fresh = match (&want_fresh, &fresh_edges) {
                        (Expect::Versions(w), Ok(g)) => w == g,
                        (Expect::NoMatch, Err(e)) => e == "NoMatch",
                        (Expect::RootDuplicate, Err(e)) => e == "RootDuplicate",
                        _ => false,
                    };
                    if !ok_fresh {
                        viol(format!("C31:pick:{shape}:fresh-not-highest"), "a fresh resolution does not pick the highest matching releases".into(), json!(format!("{want_fresh:?}")), json!(fresh_edges));
                    }
                    if strip(&forced) != fresh_edges {
                        viol(format!("C31:force-update-differs-from-fresh:{shape}"), "`update --force` and a fresh resolution disagree".into(), json!(fresh_edges), json!(strip(&forced)));
                    }
                }
                Err(e) => viol(format!("C31:roundtrip:{shape}:load-error"), "the saved lock file cannot be loaded".into(), json!(saved), json!(e)),
            },
            Err(e) => viol(format!("C31:nondeterministic:{shape}:error"), "a repeated resolution failed".into(), json!(table), json!(e)),
        }
    }
    if !res.violations.is_empty() {
        // attach the case to the first violation's observed value
        let cj = case_json();
        for v in res.violations.iter_mut() {
            v.3 = json!({"observed": v.3, "case": cj});
        }
    }
    res
}

// ------------------------------------------------------------------------------- worker

pub fn worker(args: &[String]) -> i32 {
    let (Some(inp), Some(outp)) = (args.first(), args.get(1)) else {
        eprintln!("usage: vmc worker c31 <shard.json> <out.json>");
        return 2;
    };
    let Ok(text) = std::fs::read_to_string(inp) else { return 2 };
    let Ok(shard) = serde_json::from_str::<Shard>(&text) else { return 2 };
    let start = std::time::Instant::now();
    let mut results = vec![];
    for c in &shard.cases {
        if start.elapsed().as_secs_f64() > shard.budget_s {
            break;
        }
        let dir = Path::new(&shard.scratch).join(format!("c{}", c.id));
        let over = || start.elapsed().as_secs_f64() > shard.budget_s;
        let r = match std::panic::catch_unwind(std::panic::AssertUnwindSafe(|| run_case(c, &shard, &dir, &over))) {
            Ok(r) => r,
            Err(p) => CaseResult { id: c.id, skipped: Some(format!("panic: {}", panic_message(p))), ..Default::default() },
        };
        let _ = std::fs::remove_dir_all(&dir);
        results.push(r);
    }
    if std::fs::write(outp, serde_json::to_string(&results).unwrap()).is_err() {
        return 2;
    }
    0
}

// ------------------------------------------------------------------------------- driver

fn build_cases(thorough: bool) -> Vec<Case> {
    let mut v: Vec<Case> = vec![];
    let mut push = |shape: &str, rset: u8, pub_order: u8, req1: usize, req2: Option<usize>, lock1: Option<usize>, lock2: Option<usize>| {
        let id = v.len();
        v.push(Case { id, shape: shape.into(), rset, pub_order, req1, req2, lock1, lock2, req3: None, lock3: None, prop1: None, prop2: None });
    };
    let members = |rset: u8| -> Vec<usize> { (0..4).filter(|i| rset >> i & 1 == 1).collect() };
    // direct: everything (the full release set first, so that a budget cut keeps the richest cases)
    for rset in (1..16u8).rev() {
        for order in 0..2u8 {
            if order == 1 && members(rset).len() < 2 {
                continue;
            }
            for req in 0..REQS.len() {
                push("direct", rset, order, req, None, None, None);
                if order == 1 && !thorough {
                    continue;
                }
                for l in members(rset) {
                    push("direct", rset, order, req, None, Some(l), None);
                }
            }
        }
    }
    // two: the same project under two requirements
    let two_sets: Vec<u8> = if thorough { (1..16).collect() } else { vec![15] };
    for rset in two_sets {
        for r1 in 0..REQS.len() {
            for r2 in 0..REQS.len() {
                push("two", rset, 0, r1, Some(r2), None, None);
                let ms = members(rset);
                for a in &ms {
                    for b in &ms {
                        if a == b {
                            continue;
                        }
                        if !thorough && !matches!((*a, *b), (0, 2) | (2, 0) | (1, 3) | (0, 3)) {
                            continue;
                        }
                        push("two", rset, 0, r1, Some(r2), Some(*a), Some(*b));
                    }
                }
            }
        }
    }
    // path
    let path_sets: Vec<u8> = if thorough { (1..16).collect() } else { vec![15, 0b0101, 0b1000] };
    for rset in path_sets {
        for req in 0..REQS.len() {
            push("path", rset, 0, req, None, None, None);
            for l in members(rset) {
                push("path", rset, 0, req, None, Some(l), None);
            }
        }
    }
    // diamond, three arms: requirement multisets, those whose reference picks are pairwise
    // different first (three releases under one declared name), then two different, then one
    {
        let all: Vec<Ver> = RELEASES.iter().map(|r| Ver::parse(r).unwrap()).collect();
        let pick = |r: usize| resolve(&all, &Req::parse(REQS[r]).unwrap(), None).map(|v| v.text());
        let mut triples: Vec<(usize, usize, usize)> = vec![];
        for r1 in 0..REQS.len() {
            for r2 in r1..REQS.len() {
                for r3 in r2..REQS.len() {
                    triples.push((r1, r2, r3));
                }
            }
        }
        let distinct = |t: &(usize, usize, usize)| -> usize { [pick(t.0), pick(t.1), pick(t.2)].into_iter().collect::<BTreeSet<_>>().len() };
        triples.sort_by_key(|t| std::cmp::Reverse(distinct(t)));
        for (r1, r2, r3) in triples {
            let mut locks: Vec<Option<(usize, usize, usize)>> = vec![None];
            for a in 0..4 {
                for b in 0..4 {
                    for c in 0..4 {
                        if !thorough && !matches!((a, b, c), (0, 3, 2) | (3, 1, 0)) {
                            continue;
                        }
                        locks.push(Some((a, b, c)));
                    }
                }
            }
            for l in locks {
                let id = v.len();
                v.push(Case {
                    id,
                    shape: "diamond".into(),
                    rset: 15,
                    pub_order: 0,
                    req1: r1,
                    req2: Some(r2),
                    req3: Some(r3),
                    lock1: l.map(|x| x.0),
                    lock2: l.map(|x| x.1),
                    lock3: l.map(|x| x.2),
                    prop1: None,
                    prop2: None,
                });
            }
        }
    }
    let mut push = |shape: &str, rset: u8, pub_order: u8, req1: usize, req2: Option<usize>, lock1: Option<usize>, lock2: Option<usize>| {
        let id = v.len();
        v.push(Case { id, shape: shape.into(), rset, pub_order, req1, req2, lock1, lock2, req3: None, lock3: None, prop1: None, prop2: None });
    };
    // diamond, two arms
    for r1 in 0..REQS.len() {
        for r2 in 0..REQS.len() {
            push("diamond", 15, 0, r1, Some(r2), None, None);
            for a in 0..4 {
                for b in 0..4 {
                    if !thorough && !matches!((a, b), (0, 3) | (3, 1)) {
                        continue;
                    }
                    push("diamond", 15, 0, r1, Some(r2), Some(a), Some(b));
                }
            }
        }
    }
    if thorough {
        for rset in 1..15u8 {
            for r in 0..REQS.len() {
                push("diamond", rset, 1, r, Some(r), None, None);
                for l in members(rset) {
                    push("diamond", rset, 1, r, Some(r), Some(l), Some(l));
                }
            }
        }
    }
    // chain through a git intermediate (props cases are appended after the loop below)
    let chain_sets: Vec<u8> = if thorough { (1..16).collect() } else { vec![15, 0b0110] };
    for rset in chain_sets {
        for req in 0..REQS.len() {
            push("chain", rset, 0, req, None, None, None);
            for l in members(rset) {
                push("chain", rset, 0, req, None, Some(l), None);
            }
        }
    }
    // property overrides: same release, the override changes (or not) between the two steps
    let star = REQS.iter().position(|r| *r == "*").unwrap();
    for rset in [15u8, 0b0010] {
        for l in members(rset) {
            for (p1, p2) in [(Some(1), Some(1)), (Some(1), Some(2)), (None, Some(1)), (Some(1), None)] {
                let id = v.len();
                v.push(Case { id, shape: "props".into(), rset, pub_order: 0, req1: star, req2: None, lock1: Some(l), lock2: None, req3: None, lock3: None, prop1: p1, prop2: p2 });
            }
        }
    }
    // proportional interleave of the shapes (see the module header); ties keep the shape order above
    let mut len: BTreeMap<String, usize> = BTreeMap::new();
    for c in &v {
        *len.entry(c.shape.clone()).or_default() += 1;
    }
    let mut seen: BTreeMap<String, usize> = BTreeMap::new();
    let mut keyed: Vec<(u64, Case)> = vec![];
    for c in v {
        let i = seen.entry(c.shape.clone()).or_default();
        // rank i/n as a fixed-point number
        keyed.push((((*i as u64) << 32) / len[&c.shape] as u64, c));
        *i += 1;
    }
    keyed.sort_by_key(|(k, _)| *k);
    let mut v: Vec<Case> = keyed.into_iter().map(|(_, c)| c).collect();
    for (i, c) in v.iter_mut().enumerate() {
        c.id = i;
    }
    v
}

pub fn run(ctx: &Ctx) -> Report {
    let mut rep = Report::new(Level::Exploration);
    let budget = ctx.budget(30.0, 600.0);
    // ---- the 15 x 2 lib repositories
    let repos = ctx.dir("repos");
    let mut libs: BTreeMap<String, (String, BTreeMap<String, String>)> = BTreeMap::new();
    // richest release sets first; creation stops when 40 % of the budget is gone (the cases that
    // need a missing repository are then not run and the run is reported as capped)
    let keys: Vec<(u8, u8)> = (1..16u8).rev().flat_map(|r| [(r, 0u8), (r, 1u8)]).collect();
    let built: Vec<Option<Result<(String, (String, BTreeMap<String, String>)), String>>> = super::projgen::par_in_order(&keys, |_, (rset, order)| {
        if ctx.elapsed() > budget * 0.4 {
            return None;
        }
        let ms: Vec<usize> = (0..4).filter(|i| rset >> i & 1 == 1).collect();
        let versions: Vec<(String, Vec<(String, String)>)> = ms.iter().map(|i| (RELEASES[*i].to_string(), vec![])).collect();
        let mut ord: Vec<usize> = (0..versions.len()).collect();
        if *order == 1 && ord.len() > 1 {
            ord.rotate_left(1);
        }
        let dir = repos.join(format!("lib_{rset}_{order}"));
        Some(make_repo(&dir, "lib", &versions, &ord).map(|revs| (lib_key(*rset, *order), (dir.to_string_lossy().to_string(), revs))))
    });
    for b in built.into_iter().flatten() {
        match b {
            Ok((k, v)) => {
                libs.insert(k, v);
            }
            Err(e) => {
                rep.machinery(format!("cannot create the release repositories: {e}"));
                return rep;
            }
        }
    }
    let mut cases = build_cases(ctx.thorough());
    let only = std::env::var("VMC_C31_ONLY").ok();
    if let Some(only) = &only {
        // development aid: restrict to some shapes (reported as not exhaustive)
        let keep: Vec<&str> = only.split(',').collect();
        cases.retain(|c| keep.contains(&c.shape.as_str()));
        for (i, c) in cases.iter_mut().enumerate() {
            c.id = i;
        }
        rep.notes.push(format!("VMC_C31_ONLY={only}: restricted run"));
    }
    let mut requested: BTreeMap<String, u64> = BTreeMap::new();
    for c in &cases {
        *requested.entry(c.shape.clone()).or_default() += 1;
    }
    let total_requested = cases.len();
    cases.retain(|c| libs.contains_key(&lib_key(c.rset, c.pub_order)));
    for (i, c) in cases.iter_mut().enumerate() {
        c.id = i;
    }
    // ---- shards: round robin so every worker sees the same mix in the same priority order
    let nworkers = rayon::current_num_threads().max(1);
    let mut shards: Vec<Vec<Case>> = vec![vec![]; nworkers];
    for (i, c) in cases.iter().enumerate() {
        shards[(i + ctx.seed as usize) % nworkers].push(c.clone());
    }
    let exe = std::env::current_exe().unwrap_or_else(|_| bin_dir().join("vmc"));
    let remaining = (budget - ctx.elapsed()).max(5.0);
    let outs: Vec<Result<Vec<CaseResult>, String>> = shards
        .par_iter()
        .enumerate()
        .map(|(wi, sc)| {
            let wdir = ctx.scratch.join(format!("worker{wi}"));
            let _ = std::fs::create_dir_all(wdir.join("home"));
            let _ = std::fs::create_dir_all(wdir.join("cache"));
            let shard = Shard { cases: sc.clone(), libs: libs.clone(), scratch: wdir.join("cases").to_string_lossy().to_string(), budget_s: remaining, repeats: if ctx.thorough() { 3 } else { 1 } };
            let inp = wdir.join("shard.json");
            let outp = wdir.join("out.json");
            std::fs::write(&inp, serde_json::to_string(&shard).unwrap()).map_err(|e| e.to_string())?;
            let st = Command::new(&exe)
                .args(["worker", "c31", inp.to_str().unwrap(), outp.to_str().unwrap()])
                .env_clear()
                .env("PATH", std::env::var("PATH").unwrap_or_else(|_| "/usr/bin:/bin".into()))
                .env("HOME", wdir.join("home"))
                .env("XDG_CACHE_HOME", wdir.join("cache"))
                .env("GIT_CONFIG_GLOBAL", "/dev/null")
                .env("GIT_CONFIG_NOSYSTEM", "1")
                .env("GIT_AUTHOR_NAME", "vmc")
                .env("GIT_AUTHOR_EMAIL", "vmc@example.invalid")
                .env("GIT_COMMITTER_NAME", "vmc")
                .env("GIT_COMMITTER_EMAIL", "vmc@example.invalid")
                .env("VMC_SWITCH", std::env::var("VMC_SWITCH").unwrap_or_default())
                .stdout(std::process::Stdio::null())
                .stderr(std::process::Stdio::piped())
                .output()
                .map_err(|e| format!("spawn worker: {e}"))?;
            if !st.status.success() {
                return Err(format!("worker {wi} failed: {}", String::from_utf8_lossy(&st.stderr).chars().take(600).collect::<String>()));
            }
            let text = std::fs::read_to_string(&outp).map_err(|e| e.to_string())?;
            serde_json::from_str::<Vec<CaseResult>>(&text).map_err(|e| e.to_string())
        })
        .collect();

    let mut evaluations = 0u64;
    let mut resolutions = 0u64;
    let mut nontrivial = 0u64;
    let mut skipped: BTreeMap<String, u64> = BTreeMap::new();
    let mut outcomes: BTreeMap<String, u64> = BTreeMap::new();
    let mut done: BTreeMap<String, u64> = BTreeMap::new();
    let mut sig_count: BTreeMap<String, u64> = BTreeMap::new();
    let mut completed = 0usize;
    for o in outs {
        match o {
            Err(e) => rep.machinery(e),
            Ok(rs) => {
                for r in rs {
                    completed += 1;
                    let c = &cases[r.id];
                    if r.skipped.as_deref() == Some("deadline") {
                        completed -= 1;
                        continue;
                    }
                    if let Some(s) = r.skipped {
                        let key: String = s.chars().take(60).collect();
                        *skipped.entry(key).or_default() += 1;
                        continue;
                    }
                    evaluations += 1;
                    resolutions += r.resolutions;
                    if r.nontrivial {
                        nontrivial += 1;
                    }
                    *done.entry(c.shape.clone()).or_default() += 1;
                    *outcomes.entry(format!("{}:{}", c.shape, r.outcome)).or_default() += 1;
                    if evaluations % 331 == 1 {
                        rep.sample(json!({"case": c.text(), "outcome": r.outcome, "resolutions": r.resolutions}));
                    }
                    for (sig, what, exp, obs) in r.violations {
                        let n = sig_count.entry(sig.clone()).or_default();
                        *n += 1;
                        if *n <= 2 {
                            rep.violation(Violation { signature: sig, what, case: json!({"case": c.text(), "raw": c}), expected: exp, observed: obs });
                        }
                    }
                }
            }
        }
    }
    let capped = completed < total_requested;
    let lock_unreachable: u64 = skipped.iter().filter(|(k, _)| k.starts_with("lock state not reachable")).map(|(_, v)| *v).sum();
    let other_skips: u64 = skipped.values().sum::<u64>() - lock_unreachable;
    rep.set("evaluations", evaluations);
    rep.set("distinct_nontrivial", nontrivial);
    rep.set("resolutions_run", resolutions);
    rep.set("cases_requested", json!(requested));
    rep.set("cases_completed", json!(done));
    rep.set("outcome_classes", json!(outcomes));
    rep.set("skipped", json!(skipped));
    rep.set("skipped_lock_state_unreachable", lock_unreachable);
    rep.set("skipped_other", other_skips);
    rep.set("violation_cases_by_signature", json!(sig_count));
    rep.set("release_repositories", libs.len() as u64);
    rep.set("capped_by_budget", capped);
    rep.set("exhaustive", !capped && only.is_none());
    rep.set("budget_s", budget);
    rep.set(
        "rule",
        "one evaluation = one (shape, release set, Veryl.pub order, requirement(s), lock state) case taken through lock-state history, resolution, repeated resolutions, save/load, update, update --force and a fresh resolution; non-trivial = resolved with >= 2 published releases to choose from",
    );
    rep.assume("releases are plain major.minor.patch versions; requirements are the 8 listed forms");
    rep.assume("a lock state is reached by first resolving with `=r` and then changing the declaration (for `chain`: by switching the intermediate from its release 0.1.0 to 0.2.0)");
    rep.assume("hash-order nondeterminism is probed by repeated in-process resolutions (each HashMap gets a fresh RandomState), not enumerated");
    if nontrivial < 2 || (!capped && only.is_none() && outcomes.len() < 3) {
        rep.machinery("vacuity guard: too few non-trivial cases / outcome classes");
    }
    if other_skips * 20 > evaluations.max(1) {
        rep.machinery(format!("vacuity guard: {other_skips} cases skipped for harness reasons: {skipped:?}"));
    }
    rep
}

pub fn replay(doc: &Value) -> i32 {
    let Ok(case) = serde_json::from_value::<Case>(doc["case"]["raw"].clone()) else {
        eprintln!("no raw case");
        return 2;
    };
    let ctx = Ctx::new("C31-replay", Tier::Quick);
    let home = ctx.dir("home");
    unsafe {
        std::env::set_var("HOME", &home);
        std::env::set_var("XDG_CACHE_HOME", home.join("cache"));
        std::env::set_var("GIT_CONFIG_GLOBAL", "/dev/null");
    }
    let ms: Vec<usize> = (0..4).filter(|i| case.rset >> i & 1 == 1).collect();
    let versions: Vec<(String, Vec<(String, String)>)> = ms.iter().map(|i| (RELEASES[*i].to_string(), vec![])).collect();
    let mut ord: Vec<usize> = (0..versions.len()).collect();
    if case.pub_order == 1 && ord.len() > 1 {
        ord.rotate_left(1);
    }
    let dir = ctx.dir("repos").join("lib");
    let revs = match make_repo(&dir, "lib", &versions, &ord) {
        Ok(r) => r,
        Err(e) => {
            eprintln!("{e}");
            return 2;
        }
    };
    let mut libs = BTreeMap::new();
    libs.insert(lib_key(case.rset, case.pub_order), (dir.to_string_lossy().to_string(), revs));
    let shard = Shard { cases: vec![case.clone()], libs, scratch: ctx.dir("cases").to_string_lossy().to_string(), budget_s: 60.0, repeats: 3 };
    let r = run_case(&case, &shard, &Path::new(&shard.scratch).join("c"), &|| false);
    println!("{}", case.text());
    if let Some(s) = &r.skipped {
        println!("skipped: {s}");
        return 2;
    }
    for (sig, what, exp, obs) in &r.violations {
        println!("{sig}: {what}\n  expected {exp}\n  observed {obs}");
    }
    if r.violations.is_empty() {
        println!("holds ({})", r.outcome);
        0
    } else {
        1
    }
}

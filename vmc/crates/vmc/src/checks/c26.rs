//! C26 — presentation-only build options never change behaviour.
//!
//! Engine E6 (configuration matrix): every design × ALL 96 combinations of
//! strip_comments{0,1} × newline_style{auto,unix,windows} × indent_width{2,4} × max_width{40,120}
//! × vertical_align{0,1} × expand_inside_operation{0,1}, through the real emitter, configured the
//! way `veryl build` does (Metadata `[build]` / `[format]` fields).
//!
//! Designs: every analysable file of `testcases/veryl` (LF and CRLF input), a family of "hostile
//! comment" designs (a base design with one comment — line or block — inserted at *every* token
//! gap), and a family of inside/outside/case designs over small operand widths.
//!
//! Oracles (own SV tokenizer `c26_svlex`, comments are tokens):
//!  * strip_comments: the code-token stream is unchanged; the remaining comments are exactly the
//!    ones that come from `embed`/`include` raw text (those are not Veryl comments);
//!  * newline_style: outputs are byte-equal after normalising line ends;
//!  * indent_width / max_width / vertical_align: token streams equal (comment text compared with
//!    white space squashed);
//!  * expand_inside_operation: where the token streams differ, both forms are elaborated by the
//!    reference SV interpreter R2 (`vmc_refmodels::svref`) and compared on every input value
//!    (4-state when small, else 2-state; two-step sequences when small enough).

use super::c06::SrcFile;
use super::c26_svlex::{self as lx, Tok};
use crate::core::*;
use serde_json::{Value, json};
use std::collections::{BTreeMap, BTreeSet};
use std::path::{Path, PathBuf};
use veryl_analyzer::Analyzer;
use veryl_emitter::Emitter;
use veryl_metadata::Metadata;
use veryl_parser::Parser;
use vmc_refmodels::bits::{Bit, V};
use vmc_refmodels::svref::{Design, PortDir, SvError};

const PRJ: &str = "prj";
const PANIC_MARK: &str = "\u{1}EMITTER-PANIC: ";
const STACK: usize = 256 * 1024 * 1024;

#[derive(Clone, Copy, Debug, PartialEq, Eq, PartialOrd, Ord, Hash)]
pub struct Cfg {
    pub strip: bool,
    pub nl: u8, // 0 auto, 1 unix, 2 windows
    pub indent: usize,
    pub maxw: usize,
    pub valign: bool,
    pub expand: bool,
}

impl Cfg {
    fn toml(&self) -> String {
        format!(
            r#"[project]
name = "{PRJ}"
version = "0.1.0"
[build]
clock_type = "posedge"
reset_type = "async_low"
sources = ["src"]
target = {{type = "directory", path = "target"}}
sourcemap_target = {{type = "none"}}
strip_comments = {}
expand_inside_operation = {}
[format]
indent_width = {}
max_width = {}
vertical_align = {}
newline_style = "{}"
"#,
            self.strip,
            self.expand,
            self.indent,
            self.maxw,
            self.valign,
            ["auto", "unix", "windows"][self.nl as usize]
        )
    }
    fn json(&self) -> Value {
        let nl = ["auto", "unix", "windows"][self.nl as usize];
        json!({"strip_comments": self.strip, "newline_style": nl, "indent_width": self.indent,
               "max_width": self.maxw, "vertical_align": self.valign, "expand_inside_operation": self.expand})
    }
}

pub fn all_cfgs() -> Vec<Cfg> {
    let mut v = vec![];
    for strip in [false, true] {
        for nl in 0..3u8 {
            for indent in [2usize, 4] {
                for maxw in [40usize, 120] {
                    for valign in [false, true] {
                        for expand in [false, true] {
                            v.push(Cfg { strip, nl, indent, maxw, valign, expand });
                        }
                    }
                }
            }
        }
    }
    v
}

#[derive(Clone)]
pub struct DesignIn {
    pub name: String,
    pub kind: &'static str,
    /// files analysed together; the last one is emitted
    pub files: Vec<SrcFile>,
    /// raw texts that the emitter copies verbatim (embed bodies, included files)
    pub raw_texts: Vec<String>,
}

pub enum EmitOut {
    Rejected(String),
    Ok(BTreeMap<Cfg, String>),
}

/// Analyses the design once and emits its last file under every configuration.
fn emit_all(d: &DesignIn, cfgs: &[Cfg]) -> EmitOut {
    let base: Metadata = toml::from_str(&cfgs[0].toml()).expect("metadata");
    let analyzer = Analyzer::new(&base);
    let mut parsers = vec![];
    for f in &d.files {
        let p = match Parser::parse(&f.text, &f.path) {
            Ok(p) => p,
            Err(e) => return EmitOut::Rejected(format!("parse: {e}")),
        };
        let errs = analyzer.analyze_pass1(PRJ, &p.veryl);
        if let Some(e) = errs.iter().find(|e| e.is_error()) {
            return EmitOut::Rejected(format!("pass1: {e}"));
        }
        parsers.push(p);
    }
    let errs = Analyzer::analyze_post_pass1();
    if let Some(e) = errs.iter().find(|e| e.is_error()) {
        return EmitOut::Rejected(format!("post_pass1: {e}"));
    }
    let mut actx = veryl_analyzer::Context::default();
    for p in &parsers {
        actx.set_project_name(PRJ);
        let errs = analyzer.analyze_pass2(&p.veryl, &mut actx, None);
        if let Some(e) = errs.iter().find(|e| e.is_error()) {
            return EmitOut::Rejected(format!("pass2: {e}"));
        }
    }
    let last = d.files.len() - 1;
    let src = &d.files[last].path;
    let dst = src.with_extension("sv");
    let map = src.with_extension("sv.map");
    let mut out = BTreeMap::new();
    for c in cfgs {
        let md: Metadata = toml::from_str(&c.toml()).expect("metadata");
        // the emitter only reads the analyzer tables: a panic under one configuration leaves the
        // state usable for the next one
        let r = std::panic::catch_unwind(std::panic::AssertUnwindSafe(|| {
            let mut em = Emitter::new(&md, PRJ, src, &dst, &map);
            em.emit(&parsers[last].veryl, &d.files[last].text);
            em.as_str().to_string()
        }));
        match r {
            Ok(s) => {
                out.insert(*c, s);
            }
            Err(p) => {
                let loc = take_panic_loc().unwrap_or_default();
                out.insert(*c, format!("{PANIC_MARK}{} at {}", panic_message(p), loc));
            }
        }
    }
    EmitOut::Ok(out)
}

// ---------------------------------------------------------------------------- oracles

#[derive(Debug, Clone)]
pub struct Finding {
    pub class: String,
    pub what: String,
    pub cfg_a: Cfg,
    pub cfg_b: Cfg,
    pub expected: String,
    pub observed: String,
}

fn code<'a>(t: &'a [Tok]) -> Vec<&'a str> {
    t.iter().filter(|x| !x.is_comment()).map(|x| x.text.as_str()).collect()
}
fn comments(t: &[Tok]) -> Vec<String> {
    t.iter().filter(|x| x.is_comment()).map(|x| lx::squash_ws(&x.text)).collect()
}
fn all_squashed(t: &[Tok]) -> Vec<String> {
    t.iter().map(|x| if x.is_comment() { lx::squash_ws(&x.text) } else { x.text.clone() }).collect()
}

fn first_seq_diff<T: PartialEq + std::fmt::Debug>(a: &[T], b: &[T]) -> (String, String) {
    let mut k = 0;
    while k < a.len() && k < b.len() && a[k] == b[k] {
        k += 1;
    }
    let ctx = |v: &[T]| -> String {
        let st = k.saturating_sub(6);
        let en = (k + 6).min(v.len());
        format!("token #{k}: …{:?}…", &v[st..en])
    };
    (ctx(a), ctx(b))
}

fn is_raw_comment(c: &str, raw: &[String]) -> bool {
    raw.iter().any(|r| r.contains(c))
}

fn norm_nl(s: &str) -> String {
    s.replace("\r\n", "\n")
}

/// Token class of the first differing code token, for signatures.
fn tok_class(t: &str) -> &'static str {
    let c = t.chars().next().unwrap_or(' ');
    if c.is_ascii_alphabetic() || c == '_' || c == '$' || c == '\\' {
        "word"
    } else if c.is_ascii_digit() || c == '\'' {
        "number"
    } else if c == '"' {
        "string"
    } else if c == '`' {
        "directive"
    } else {
        "punct"
    }
}

/// Configurations under which the emitter panicked while it did not under others: which option
/// values do all panicking configurations share (and not all configurations)?
fn classify_panics(all: &[Cfg], panicked: &[(Cfg, String)]) -> String {
    let mut parts = vec![];
    macro_rules! opt {
        ($name:expr, $f:expr) => {
            let vals: BTreeSet<String> = panicked.iter().map(|(c, _)| $f(c)).collect();
            let allv: BTreeSet<String> = all.iter().map(|c| $f(c)).collect();
            if vals.len() == 1 && allv.len() > 1 {
                parts.push(format!("{}={}", $name, vals.iter().next().unwrap()));
            }
        };
    }
    opt!("strip_comments", |c: &Cfg| c.strip.to_string());
    opt!("newline_style", |c: &Cfg| ["auto", "unix", "windows"][c.nl as usize].to_string());
    opt!("indent_width", |c: &Cfg| c.indent.to_string());
    opt!("max_width", |c: &Cfg| c.maxw.to_string());
    opt!("vertical_align", |c: &Cfg| c.valign.to_string());
    opt!("expand_inside_operation", |c: &Cfg| c.expand.to_string());
    parts.join(",")
}

fn check_token_oracles(d: &DesignIn, outs: &BTreeMap<Cfg, String>, findings: &mut Vec<Finding>, surviving: &mut Vec<String>) {
    let strict_strip = std::env::var("VMC_C26_STRICT_STRIP").is_ok();
    let toks: BTreeMap<Cfg, Vec<Tok>> = outs.iter().map(|(c, s)| (*c, lx::lex(s))).collect();
    let raw_sq: Vec<String> = d.raw_texts.iter().map(|r| lx::squash_ws(r)).collect();
    for (c, t) in &toks {
        // ---- strip_comments
        if c.strip {
            let mut n = *c;
            n.strip = false;
            let Some(tn) = toks.get(&n) else { continue };
            let (cs, cn) = (code(t), code(tn));
            if cs != cn {
                let (a, b) = first_seq_diff(&cn, &cs);
                let k = cs.iter().zip(cn.iter()).take_while(|(x, y)| x == y).count();
                let cls = cn.get(k).or(cs.get(k)).map(|x| tok_class(x)).unwrap_or("end");
                findings.push(Finding {
                    class: format!("strip_comments:code-tokens-change:{cls}"),
                    what: "strip_comments changes the non-comment token stream".into(),
                    cfg_a: n,
                    cfg_b: *c,
                    expected: a,
                    observed: b,
                });
            }
            let rem = comments(t);
            let leftover: Vec<&String> = rem.iter().filter(|x| !is_raw_comment(x, &raw_sq)).collect();
            if !leftover.is_empty() && !strict_strip {
                // "strip_comments only removes comments": a comment that survives changes nothing
                // else, so it is recorded as an observation, not as a violation of the statement
                for l in &leftover {
                    if !surviving.contains(l) {
                        surviving.push((*l).clone());
                    }
                }
            }
            if !leftover.is_empty() && strict_strip {
                findings.push(Finding {
                    class: "strip_comments:comment-left".into(),
                    what: "a Veryl comment survives strip_comments".into(),
                    cfg_a: n,
                    cfg_b: *c,
                    expected: "no comment except embed/include raw text".into(),
                    observed: format!("{:?}", &leftover[..leftover.len().min(4)]),
                });
            }
            let expect_raw: Vec<String> = comments(tn).into_iter().filter(|x| is_raw_comment(x, &raw_sq)).collect();
            let got_raw: Vec<String> = rem.into_iter().filter(|x| is_raw_comment(x, &raw_sq)).collect();
            // a Veryl comment whose text also occurs in an embed body may legitimately be missing
            if got_raw.len() > expect_raw.len() || !is_subsequence(&got_raw, &expect_raw) {
                findings.push(Finding {
                    class: "strip_comments:raw-text-comment-changed".into(),
                    what: "comments inside embed/include raw text differ under strip_comments".into(),
                    cfg_a: n,
                    cfg_b: *c,
                    expected: format!("{:?}", &expect_raw[..expect_raw.len().min(4)]),
                    observed: format!("{:?}", &got_raw[..got_raw.len().min(4)]),
                });
            }
        }
        // ---- newline_style
        if c.nl != 1 {
            let mut u = *c;
            u.nl = 1;
            let Some(ou) = outs.get(&u) else { continue };
            if norm_nl(&outs[c]) != norm_nl(ou) {
                let (la, lb) = first_line_diff(&norm_nl(ou), &norm_nl(&outs[c]));
                findings.push(Finding {
                    class: "newline_style:content-changes".into(),
                    what: "newline_style changes more than the line endings".into(),
                    cfg_a: u,
                    cfg_b: *c,
                    expected: la,
                    observed: lb,
                });
            }
        }
        // ---- widths / alignment
        if !(c.indent == 4 && c.maxw == 120 && c.valign) {
            let mut r = *c;
            r.indent = 4;
            r.maxw = 120;
            r.valign = true;
            let Some(tr) = toks.get(&r) else { continue };
            let (ca, cb) = (code(tr), code(t));
            if ca != cb {
                let (a, b) = first_seq_diff(&ca, &cb);
                let k = ca.iter().zip(cb.iter()).take_while(|(x, y)| x == y).count();
                let cls = ca.get(k).or(cb.get(k)).map(|x| tok_class(x)).unwrap_or("end");
                let opt = if c.maxw != 120 { "max_width" } else if c.indent != 4 { "indent_width" } else { "vertical_align" };
                findings.push(Finding {
                    class: format!("layout:{opt}:code-tokens-change:{cls}"),
                    what: "a layout option changes the non-comment token stream".into(),
                    cfg_a: r,
                    cfg_b: *c,
                    expected: a,
                    observed: b,
                });
            } else if all_squashed(tr) != all_squashed(t) {
                let (a, b) = first_seq_diff(&all_squashed(tr), &all_squashed(t));
                findings.push(Finding {
                    class: "layout:comment-tokens-change".into(),
                    what: "a layout option changes comment text or comment position among the tokens".into(),
                    cfg_a: r,
                    cfg_b: *c,
                    expected: a,
                    observed: b,
                });
            }
        }
    }
}

fn is_subsequence(a: &[String], b: &[String]) -> bool {
    let mut j = 0;
    for x in a {
        while j < b.len() && &b[j] != x {
            j += 1;
        }
        if j == b.len() {
            return false;
        }
        j += 1;
    }
    true
}

fn first_line_diff(a: &str, b: &str) -> (String, String) {
    let mut ia = a.lines();
    let mut ib = b.lines();
    loop {
        match (ia.next(), ib.next()) {
            (None, None) => return (String::new(), String::new()),
            (x, y) if x == y => continue,
            (x, y) => return (x.unwrap_or("<end>").to_string(), y.unwrap_or("<end>").to_string()),
        }
    }
}

// ---------------------------------------------------------------------------- behaviour (expand_inside_operation)

#[derive(Debug, Default, Clone)]
pub struct BehStat {
    pub modules_compared: u64,
    pub input_vectors: u64,
    pub skipped: Vec<String>,
}

fn module_names(sv: &str) -> Vec<String> {
    let t = lx::lex(sv);
    let mut v = vec![];
    for i in 0..t.len().saturating_sub(1) {
        if t[i].text == "module" && t[i].kind == lx::Kind::Ident && t[i + 1].kind == lx::Kind::Ident {
            v.push(t[i + 1].text.clone());
        }
    }
    v
}

fn enum_values(width: usize, four: bool) -> Vec<V> {
    let digits: &[Bit] = if four { &[Bit::Zero, Bit::One, Bit::X, Bit::Z] } else { &[Bit::Zero, Bit::One] };
    let mut out = vec![];
    let n = digits.len().pow(width as u32);
    for mut k in 0..n {
        let mut bits = vec![];
        for _ in 0..width {
            bits.push(digits[k % digits.len()]);
            k /= digits.len();
        }
        out.push(V::new(bits, false));
    }
    out
}

/// Compares the two SV texts module by module on all input values.
fn compare_behaviour(sv_a: &str, sv_b: &str, stat: &mut BehStat) -> Option<(String, String, String)> {
    for top in module_names(sv_a) {
        let da = Design::elaborate(&[sv_a.to_string()], &top);
        let db = Design::elaborate(&[sv_b.to_string()], &top);
        let (mut da, mut db) = match (da, db) {
            (Ok(a), Ok(b)) => (a, b),
            (Err(SvError::Unsupported(s)), _) | (_, Err(SvError::Unsupported(s))) => {
                stat.skipped.push(format!("{top}: unsupported by R2: {s}"));
                continue;
            }
            (Err(e), _) | (_, Err(e)) => {
                stat.skipped.push(format!("{top}: R2 cannot elaborate: {e}"));
                continue;
            }
        };
        let ins: Vec<(String, usize)> = da.ports().iter().filter(|p| p.dir == PortDir::Input).map(|p| (p.name.clone(), p.width)).collect();
        let total: usize = ins.iter().map(|x| x.1).sum();
        let four = total <= 5;
        if total > 12 {
            stat.skipped.push(format!("{top}: {total} input bits, not enumerated"));
            continue;
        }
        let per: Vec<Vec<V>> = ins.iter().map(|(_, w)| enum_values(*w, four)).collect();
        let n: usize = per.iter().map(|x| x.len()).product::<usize>().max(1);
        let steps = if n * n <= 4096 && !ins.is_empty() { 2 } else { 1 };
        let seqs = if steps == 2 { n * n } else { n };
        let names: Vec<String> = da.var_names();
        let snap_a = da.snapshot();
        let snap_b = db.snapshot();
        let mut ok = true;
        for s in 0..seqs {
            da.restore(&snap_a);
            db.restore(&snap_b);
            let idxs = if steps == 2 { vec![s / n, s % n] } else { vec![s] };
            let mut trace = vec![];
            for mut k in idxs {
                let mut asg = vec![];
                for (pi, (name, _)) in ins.iter().enumerate() {
                    let v = &per[pi][k % per[pi].len()];
                    k /= per[pi].len();
                    let _ = da.set(name, v);
                    let _ = db.set(name, v);
                    asg.push(format!("{name}={}", v.to_string_msb()));
                }
                trace.push(asg.join(","));
                let ra = da.settle();
                let rb = db.settle();
                match (ra, rb) {
                    (Ok(()), Ok(())) => {}
                    (a, b) => {
                        stat.skipped.push(format!("{top}: settle failed {a:?} / {b:?}"));
                        ok = false;
                        break;
                    }
                }
                stat.input_vectors += 1;
                for nm in &names {
                    let va = da.get_var(nm);
                    let vb = db.get_var(nm);
                    if va != vb {
                        return Some((
                            format!("module {top}, inputs {trace:?}, variable {nm}"),
                            format!("{:?}", va.map(|x| x.iter().map(|y| y.to_string_msb()).collect::<Vec<_>>())),
                            format!("{:?}", vb.map(|x| x.iter().map(|y| y.to_string_msb()).collect::<Vec<_>>())),
                        ));
                    }
                }
            }
            if !ok {
                break;
            }
        }
        if ok {
            stat.modules_compared += 1;
        }
    }
    None
}

// ---------------------------------------------------------------------------- design families

fn raw_texts_of(text: &str, dir: &Path) -> Vec<String> {
    let mut v = vec![];
    let mut rest = text;
    while let Some(p) = rest.find("{{{") {
        let after = &rest[p + 3..];
        if let Some(q) = after.find("}}}") {
            v.push(after[..q].replace("\\{", "{").replace("\\}", "}"));
            rest = &after[q + 3..];
        } else {
            break;
        }
    }
    // include (inline, "file")
    let t = lx::lex(text);
    for i in 0..t.len() {
        if t[i].text == "include" {
            if let Some(s) = t[i..].iter().take(8).find(|x| x.kind == lx::Kind::Str) {
                let name = s.text.trim_matches('"');
                if let Ok(c) = std::fs::read_to_string(dir.join(name)) {
                    v.push(c);
                }
            }
        }
    }
    v
}

pub const HOSTILE_BASES: [(&str, &str); 2] = [
    (
        "hb1",
        r#"module HbLeaf #(
    param W: u32 = 4,
) (
    i_x: input  logic<W>,
    o_y: output logic<W>,
) {
    assign o_y = ~i_x;
}
module Hb1 #(
    param P: u32 = 4,
    const Q: u32 = P + 1,
) (
    i_clk: input  clock   ,
    i_rst: input  reset   ,
    i_a  : input  logic<P>,
    i_b  : input  logic<P>,
    o_c  : output logic<Q>,
    o_d  : output logic   ,
) {
    enum St: logic<2> {
        IDLE,
        RUN = 2,
    }
    struct Pair {
        hi: logic<P>,
        lo: logic<P>,
    }
    var st: St      ;
    var r : logic<P>;
    var pr: Pair    ;
    var y : logic<P>;
    function add1 (
        v: input logic<P>,
    ) -> logic<P> {
        return v + 1;
    }
    always_ff {
        if_reset {
            st = St::IDLE;
            r  = 0;
        } else if i_a == 0 {
            st = St::RUN;
        } else {
            case st {
                St::IDLE: r = add1(i_a);
                St::RUN : {
                    r = r + i_b;
                }
                default: r = 0;
            }
        }
    }
    always_comb {
        pr.hi = i_a & i_b;
        pr.lo = if i_a >: i_b ? i_a : i_b;
    }
    inst u: HbLeaf #(
        W: P,
    ) (
        i_x: r,
        o_y: y,
    );
    assign o_c = {1'b0, y} + {pr.hi[0], pr.lo} + i_a * i_b + (i_a ^ i_b) - {r[0] repeat Q} + 5'd3 + 5'h1f;
    assign o_d = inside i_a {0, 2..4} | (st == St::RUN);
}
"#,
    ),
    (
        "hb2",
        r#"package HbPkg {
    const N: u32 = 3;
    type t = logic<N>;
}
interface HbIf {
    var v: HbPkg::t;
    modport mp {
        v: input,
    }
}
module Hb2 (
    i_v: input  HbPkg::t,
    i_s: input  logic<2>,
    o_z: output HbPkg::t,
) {
    import HbPkg::*;
    inst m: HbIf;
    assign m.v = i_v;
    let k: t = m.v;
    var z: t;
    always_comb {
        z = 0;
        for i in 0..N {
            z[i] = k[N - 1 - i];
        }
        switch {
            i_s == 0: z = k;
            i_s == 1: {
                z = ~k;
            }
            default: z = z;
        }
    }
    assign o_z = case i_s {
        0      : z,
        1..=2  : k,
        default: z | k,
    };
}
"#,
    ),
];

/// Every variant of `text` with one comment inserted at one token gap.
pub fn comment_insertions(text: &str) -> Vec<(String, String)> {
    let toks = lx::lex(text);
    let mut gaps: Vec<usize> = vec![0];
    for t in &toks {
        gaps.push(t.end);
    }
    let mut v = vec![];
    for (gi, g) in gaps.iter().enumerate() {
        for (style, c) in [("block", format!(" /* cmt{gi} */ ")), ("line", format!(" // cmt{gi}\n"))] {
            let mut s = String::with_capacity(text.len() + 16);
            s.push_str(&text[..*g]);
            s.push_str(&c);
            s.push_str(&text[*g..]);
            v.push((format!("gap{gi}:{style}"), s));
        }
    }
    v
}

const ITEM_POOL: [&str; 10] = ["0", "1", "3", "1..3", "1..=2", "0..=3", "2'b1x", "2'bz0", "K", "K..=3"];

/// inside/outside/case family over 2-bit operands (all 4-state input values are enumerated).
pub fn inside_family() -> Vec<(String, String)> {
    let mut stmts: Vec<String> = vec![];
    for op in ["inside", "outside"] {
        for ex in ["a", "a + b", "a & b"] {
            for i in 0..ITEM_POOL.len() {
                stmts.push(format!("{op} {ex} {{{}}}", ITEM_POOL[i]));
                for j in 0..ITEM_POOL.len() {
                    stmts.push(format!("{op} {ex} {{{}, {}}}", ITEM_POOL[i], ITEM_POOL[j]));
                }
            }
        }
    }
    let mut out = vec![];
    for (mi, chunk) in stmts.chunks(22).enumerate() {
        let n = chunk.len();
        let mut s = format!(
            "module InsFam{mi} (\n    a: input  logic<2>,\n    b: input  logic<2>,\n    o: output logic<{n}>,\n) {{\n    const K: u32 = 2;\n"
        );
        for (k, st) in chunk.iter().enumerate() {
            s.push_str(&format!("    assign o[{k}] = {st};\n"));
        }
        s.push_str("}\n");
        out.push((format!("inside:{mi}"), s));
    }
    // case statements / case expressions with range items: all ordered pairs of arms from the pool
    let arms: Vec<&str> = ITEM_POOL.iter().copied().filter(|x| !x.contains('x') && !x.contains('z')).collect();
    let mut ci = 0;
    let mut body = String::new();
    let mut nports = 0;
    let flush = |body: &mut String, nports: &mut usize, out: &mut Vec<(String, String)>, ci: &mut usize| {
        if *nports == 0 {
            return;
        }
        let mut s = format!("module CaseFam{ci} (\n    a: input  logic<2>,\n    b: input  logic<2>,\n");
        for k in 0..*nports {
            s.push_str(&format!("    p{k}: output logic<2>,\n    q{k}: output logic<2>,\n"));
        }
        s.push_str(") {\n    const K: u32 = 2;\n");
        s.push_str(body);
        s.push_str("}\n");
        out.push((format!("case:{ci}"), s));
        *ci += 1;
        body.clear();
        *nports = 0;
    };
    for x in &arms {
        for y in &arms {
            for sel in ["a", "a ^ b"] {
                let k = nports;
                body.push_str(&format!(
                    "    always_comb {{\n        case {sel} {{\n            {x}: p{k} = 1;\n            {y}, 3: p{k} = 2;\n            default: p{k} = b;\n        }}\n    }}\n"
                ));
                body.push_str(&format!(
                    "    assign q{k} = case {sel} {{\n        {x}: 1,\n        {y}, 3: 2,\n        default: b,\n    }};\n"
                ));
                nports += 1;
                if nports == 8 {
                    flush(&mut body, &mut nports, &mut out, &mut ci);
                }
            }
        }
    }
    flush(&mut body, &mut nports, &mut out, &mut ci);
    out
}

fn scratch_file(dir: &Path, rel: &str, text: &str) -> SrcFile {
    let p: PathBuf = dir.join(rel);
    if let Some(parent) = p.parent() {
        let _ = std::fs::create_dir_all(parent);
    }
    let _ = std::fs::write(&p, text);
    SrcFile { path: p, text: text.to_string() }
}

pub fn build_designs(scratch: &Path, thorough: bool) -> (Vec<DesignIn>, Vec<(String, String)>) {
    let mut v = vec![];
    let mut skipped = vec![];
    // corpus
    let dir = repo_root().join("testcases/veryl");
    let mut names: Vec<String> = std::fs::read_dir(&dir)
        .map(|rd| rd.flatten().map(|e| e.file_name().to_string_lossy().to_string()).filter(|n| n.ends_with(".veryl")).collect())
        .unwrap_or_default();
    names.sort();
    for n in &names {
        let stem = n.trim_end_matches(".veryl");
        if stem.starts_with("25_dependency") || stem.starts_with("68_std") {
            skipped.push((n.clone(), "needs other projects ($std / dependencies)".to_string()));
            continue;
        }
        let read = |n: &str| -> SrcFile {
            let p = dir.join(n);
            let text = std::fs::read_to_string(&p).unwrap_or_default();
            SrcFile { path: p, text }
        };
        let mut files = vec![];
        if stem == "84_package_self_ref_1" {
            files.push(read("84_package_self_ref_2.veryl"));
        } else if stem == "84_package_self_ref_2" {
            files.push(read("84_package_self_ref_1.veryl"));
        }
        let f = read(n);
        let raw = raw_texts_of(&f.text, &dir);
        files.push(f.clone());
        v.push(DesignIn { name: format!("corpus:{stem}"), kind: "corpus", files: files.clone(), raw_texts: raw.clone() });
        // CRLF input (newline_style = auto follows the input)
        if !f.text.contains('\r') {
            let crlf = f.text.replace('\n', "\r\n");
            let mut files2 = files.clone();
            let last = files2.len() - 1;
            // same path (include files are looked up next to it); only the text differs
            files2[last] = SrcFile { path: f.path.clone(), text: crlf };
            let raw2: Vec<String> = raw.iter().map(|r| r.replace('\n', "\r\n")).chain(raw.iter().cloned()).collect();
            v.push(DesignIn { name: format!("corpus-crlf:{stem}"), kind: "corpus-crlf", files: files2, raw_texts: raw2 });
        }
    }
    // hostile comments
    let nb = if thorough { HOSTILE_BASES.len() } else { 1 };
    for (bn, bt) in HOSTILE_BASES.iter().take(nb) {
        let f = scratch_file(scratch, &format!("hostile/{bn}/base.veryl"), bt);
        v.push(DesignIn { name: format!("hostile:{bn}:base"), kind: "hostile", files: vec![f], raw_texts: vec![] });
        for (vn, vt) in comment_insertions(bt) {
            let f = scratch_file(scratch, &format!("hostile/{bn}/{}.veryl", vn.replace(':', "_")), &vt);
            v.push(DesignIn { name: format!("hostile:{bn}:{vn}"), kind: "hostile", files: vec![f], raw_texts: vec![] });
        }
    }
    // inside family
    for (n, t) in inside_family() {
        let f = scratch_file(scratch, &format!("inside/{}.veryl", n.replace(':', "_")), &t);
        v.push(DesignIn { name: format!("family:{n}"), kind: "inside-family", files: vec![f], raw_texts: vec![] });
    }
    (v, skipped)
}

// ---------------------------------------------------------------------------- driver

struct DesignResult {
    name: String,
    kind: &'static str,
    rejected: Option<String>,
    outputs: u64,
    distinct_outputs: usize,
    expand_differs: bool,
    beh: BehStat,
    findings: Vec<Finding>,
    panicked: Option<String>,
    surviving_comments: Vec<String>,
}

fn run_design(d: &DesignIn, cfgs: &[Cfg]) -> DesignResult {
    let mut r = DesignResult {
        name: d.name.clone(),
        kind: d.kind,
        rejected: None,
        outputs: 0,
        distinct_outputs: 0,
        expand_differs: false,
        beh: BehStat::default(),
        findings: vec![],
        panicked: None,
        surviving_comments: vec![],
    };
    let d2 = d.clone();
    let cf = cfgs.to_vec();
    let outs = match run_isolated(STACK, move || emit_all(&d2, &cf)) {
        Ok(EmitOut::Ok(o)) => o,
        Ok(EmitOut::Rejected(e)) => {
            r.rejected = Some(e);
            return r;
        }
        Err(p) => {
            r.panicked = Some(p);
            return r;
        }
    };
    r.outputs = outs.len() as u64;
    let panicked: Vec<(Cfg, String)> = outs.iter().filter(|(_, s)| s.starts_with(PANIC_MARK)).map(|(c, s)| (*c, s[PANIC_MARK.len()..].to_string())).collect();
    let mut outs = outs;
    outs.retain(|_, s| !s.starts_with(PANIC_MARK));
    if !panicked.is_empty() {
        if outs.is_empty() {
            r.panicked = Some(format!("the emitter panics under every configuration: {}", panicked[0].1));
            return r;
        }
        let when = classify_panics(cfgs, &panicked);
        let ok_example = *outs.keys().next().unwrap();
        r.findings.push(Finding {
            class: format!("emitter-panic:when[{when}]"),
            what: format!("the emitter panics under {} of {} configurations and emits normally under the others", panicked.len(), cfgs.len()),
            cfg_a: ok_example,
            cfg_b: panicked[0].0,
            expected: "an emitted text, as under the other configurations".into(),
            observed: format!("panic: {}", panicked[0].1),
        });
    }
    r.distinct_outputs = outs.values().collect::<BTreeSet<_>>().len();
    check_token_oracles(d, &outs, &mut r.findings, &mut r.surviving_comments);
    // expand_inside_operation: behaviour, on the reference layout without comments
    let ca = Cfg { strip: true, nl: 1, indent: 4, maxw: 120, valign: true, expand: false };
    let mut cb = ca;
    cb.expand = true;
    if let (Some(a), Some(b)) = (outs.get(&ca), outs.get(&cb)) {
        let (ta, tb) = (lx::lex(a), lx::lex(b));
        if code(&ta) != code(&tb) {
            r.expand_differs = true;
            let (a2, b2) = (a.clone(), b.clone());
            let res = run_isolated(STACK, move || {
                let mut st = BehStat::default();
                let f = compare_behaviour(&a2, &b2, &mut st);
                (st, f)
            });
            match res {
                Ok((st, f)) => {
                    r.beh = st;
                    if let Some((w, e, o)) = f {
                        r.findings.push(Finding {
                            class: "expand_inside_operation:behaviour".into(),
                            what: format!("the two emitted forms compute different values: {w}"),
                            cfg_a: ca,
                            cfg_b: cb,
                            expected: e,
                            observed: o,
                        });
                    }
                }
                Err(p) => r.beh.skipped.push(format!("R2 panicked: {p}")),
            }
        }
    }
    // all other option values must not interact with expand: token equality of (expand, x) pairs
    // is already implied by the layout/strip/newline oracles relative to their reference configs.
    r
}

pub fn run(ctx: &Ctx) -> Report {
    let mut rep = Report::new(Level::Exploration);
    if std::env::var("VMC_TRACE_PANICS").is_err() {
        install_quiet_panic_hook();
    }
    let budget = ctx.budget(40.0, 600.0);
    let scratch = ctx.dir("c26");
    let (mut designs, skipped_corpus) = build_designs(&scratch, ctx.thorough());
    if let Ok(only) = std::env::var("VMC_C26_ONLY") {
        designs.retain(|d| d.name.contains(&only));
    }
    if !ctx.thorough() {
        // quick: CRLF inputs for every 4th corpus file only
        let mut k = 0;
        designs.retain(|d| {
            if d.kind == "corpus-crlf" {
                k += 1;
                k % 4 == 1
            } else {
                true
            }
        });
    }
    let cfgs = all_cfgs();
    let n_designs = designs.len();
    let results: Vec<Option<DesignResult>> = par_map(&designs, |d| {
        if ctx.elapsed() > budget {
            return None;
        }
        Some(run_design(d, &cfgs))
    });

    let mut evaluations = 0u64;
    let mut completed = 0u64;
    let mut nontrivial = 0u64;
    let mut per_kind: BTreeMap<&'static str, (u64, u64)> = BTreeMap::new();
    let mut rejected: Vec<Value> = skipped_corpus.iter().map(|(n, r)| json!({"design": n, "reason": r})).collect();
    let mut rejected_generated = 0u64;
    let mut expand_differs = 0u64;
    let mut beh_modules = 0u64;
    let mut beh_vectors = 0u64;
    let mut beh_skipped: BTreeMap<String, u64> = BTreeMap::new();
    let mut sig_count: BTreeMap<String, u64> = BTreeMap::new();
    let mut surviving_designs = 0u64;
    let mut surviving_samples: Vec<Value> = vec![];
    let by_name: BTreeMap<String, &DesignIn> = designs.iter().map(|d| (d.name.clone(), d)).collect();
    for r in results.into_iter().flatten() {
        completed += 1;
        if let Some(p) = &r.panicked {
            rep.machinery(format!("{}: emitter/analyzer panicked: {p}", r.name));
            continue;
        }
        if let Some(e) = &r.rejected {
            if r.kind == "hostile" || r.kind == "inside-family" {
                rejected_generated += 1;
                if rejected_generated <= 5 {
                    rejected.push(json!({"design": r.name, "reason": e.chars().take(200).collect::<String>()}));
                }
            } else {
                rejected.push(json!({"design": r.name, "reason": e.chars().take(200).collect::<String>()}));
            }
            continue;
        }
        evaluations += r.outputs;
        let e = per_kind.entry(r.kind).or_insert((0, 0));
        e.0 += 1;
        e.1 += r.outputs;
        if r.distinct_outputs >= 2 {
            nontrivial += 1;
        }
        if r.expand_differs {
            expand_differs += 1;
        }
        if !r.surviving_comments.is_empty() {
            surviving_designs += 1;
            if surviving_samples.len() < 6 {
                surviving_samples.push(json!({"design": r.name, "comments": r.surviving_comments.iter().take(3).collect::<Vec<_>>()}));
            }
        }
        beh_modules += r.beh.modules_compared;
        beh_vectors += r.beh.input_vectors;
        for s in &r.beh.skipped {
            // group by reason class
            let key = s.split(':').skip(1).collect::<Vec<_>>().join(":").trim().chars().take(80).collect::<String>();
            *beh_skipped.entry(key).or_insert(0) += 1;
        }
        if rep.coverage.get("samples").and_then(|x| x.as_array()).map(|a| a.len()).unwrap_or(0) < 6 && r.distinct_outputs > 3 {
            rep.sample(json!({"design": r.name, "configurations": r.outputs, "distinct_output_texts": r.distinct_outputs, "expand_changes_tokens": r.expand_differs, "modules_compared_by_R2": r.beh.modules_compared}));
        }
        for f in r.findings {
            let sig = format!("C26:{}", f.class);
            let n = sig_count.entry(sig.clone()).or_insert(0);
            *n += 1;
            let d = by_name.get(&r.name);
            let case = if *n <= 3 {
                json!({"design": r.name, "files": d.map(|d| d.files.iter().map(|f| json!({"path": f.path.to_string_lossy(), "text": f.text})).collect::<Vec<_>>()),
                       "config_a": f.cfg_a.json(), "config_b": f.cfg_b.json()})
            } else {
                json!({"design": r.name, "config_a": f.cfg_a.json(), "config_b": f.cfg_b.json()})
            };
            if *n <= 40 {
                rep.violation(Violation { signature: sig, what: f.what, case, expected: json!(f.expected), observed: json!(f.observed) });
            }
        }
    }
    let capped = completed < n_designs as u64;
    rep.set("evaluations", evaluations);
    rep.set("designs_total", n_designs as u64);
    rep.set("designs_completed", completed);
    rep.set("configurations_per_design", cfgs.len() as u64);
    rep.set("distinct_nontrivial", nontrivial);
    rep.set("designs_by_kind", json!(per_kind.iter().map(|(k, v)| (k.to_string(), json!({"designs": v.0, "outputs": v.1}))).collect::<BTreeMap<_, _>>()));
    rep.set("rejected_designs", json!(rejected));
    rep.set("rejected_generated_designs", rejected_generated);
    rep.set("designs_where_expand_changes_tokens", expand_differs);
    rep.set("expand_modules_compared_by_R2", beh_modules);
    rep.set("expand_input_vectors_evaluated", beh_vectors);
    rep.set("expand_modules_not_evaluated", json!(beh_skipped));
    rep.set("violation_cases_by_signature", json!(sig_count));
    rep.set("designs_with_comments_surviving_strip_comments", surviving_designs);
    rep.set("comments_surviving_strip_comments_samples", json!(surviving_samples));
    rep.set("capped_by_budget", capped);
    rep.set("exhaustive", !capped);
    rep.set(
        "rule",
        "one evaluation = one emitted text (design × configuration) checked against its reference configurations; non-trivial design = the 96 configurations produce at least 2 distinct output texts",
    );
    rep.assume("the analyzer does not read strip_comments / expand_inside_operation / [format] (checked by grep), so each design is analysed once and emitted 96 times with the Metadata of each configuration");
    rep.assume("newline_style = native is not in the matrix (equals unix on this platform)");
    rep.assume("behaviour under expand_inside_operation is compared with the reference SV interpreter R2 on the modules it supports (others are listed in expand_modules_not_evaluated); where the code-token streams are equal no evaluation is needed");
    rep.assume("comments inside embed/include raw text are not Veryl comments and must survive strip_comments");
    if nontrivial < 2 && std::env::var("VMC_C26_ONLY").is_err() {
        rep.machinery("vacuity guard: fewer than 2 designs with differing outputs across configurations");
    }
    if beh_modules == 0 && std::env::var("VMC_C26_ONLY").is_err() {
        rep.machinery("vacuity guard: no module was compared behaviourally for expand_inside_operation");
    }
    if rejected_generated > (n_designs as u64) / 20 {
        rep.machinery(format!("{rejected_generated} generated designs rejected by the analyzer (generator bugs)"));
    }
    rep
}

pub fn replay(doc: &Value) -> i32 {
    install_quiet_panic_hook();
    let name = doc["case"]["design"].as_str().unwrap_or("");
    let ctx = Ctx::new("C26-replay", Tier::Quick);
    let scratch = ctx.dir("c26");
    let (designs, _) = build_designs(&scratch, true);
    let Some(d) = designs.iter().find(|d| d.name == name) else {
        eprintln!("unknown design {name}");
        return 2;
    };
    let r = run_design(d, &all_cfgs());
    if let Some(p) = r.panicked {
        println!("panicked: {p}");
        return 1;
    }
    if let Some(e) = r.rejected {
        println!("design rejected by the analyzer: {e}");
        return 2;
    }
    if r.findings.is_empty() {
        println!("all 96 configurations agree");
        return 0;
    }
    let mut seen = BTreeSet::new();
    for f in &r.findings {
        if seen.insert(f.class.clone()) {
            println!("still failing: {} - {}\n  a: {}\n  b: {}\n  expected: {}\n  observed: {}", f.class, f.what, f.cfg_a.json(), f.cfg_b.json(), f.expected, f.observed);
        }
    }
    1
}

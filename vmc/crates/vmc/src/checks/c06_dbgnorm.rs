//! Canonical form of `{:?}` output of analyzer data for cold/warm comparison (C06).
//!
//! Two runs that built the same analyzer state by different routes (parse vs fragment restore)
//! agree on every *counter* id (token, text, symbol, definition: restore reserves what parse
//! consumed) but not on *interned* ids: `StrId`, `PathId` and `ScopeId` numbers depend on the
//! order in which strings / paths / scopes were first seen. This module rewrites a Debug string so
//! that
//!   * `StrId(n)`, `PathId(n)`, `ScopeId(n)` are replaced by what they denote (through a resolver
//!     supplied by the caller), and
//!   * the entries of anonymous `{…}` groups (Debug of maps and sets, whose iteration order depends
//!     on the hash of interned ids) are sorted after normalisation.
//! Everything else is kept verbatim, in order. It shares no code with veryl.

#[derive(Debug)]
enum Tok {
    Atom(String),
    Str(String), // quoted string or char literal, verbatim including quotes
    Colon,
    Group(char, Vec<Vec<Tok>>), // opening bracket, comma separated items
}

pub trait Resolver {
    fn str_id(&self, n: usize) -> String;
    fn path_id(&self, n: usize) -> String;
    fn scope_id(&self, n: usize) -> String;
}

struct P<'a> {
    s: &'a [u8],
    i: usize,
}

fn closing(c: u8) -> u8 {
    match c {
        b'(' => b')',
        b'{' => b'}',
        _ => b']',
    }
}

impl<'a> P<'a> {
    /// Parses items up to the closing bracket `end` (0 = end of input).
    fn items(&mut self, end: u8) -> Result<Vec<Vec<Tok>>, String> {
        let mut items: Vec<Vec<Tok>> = vec![];
        let mut cur: Vec<Tok> = vec![];
        loop {
            if self.i >= self.s.len() {
                if end == 0 {
                    if !cur.is_empty() {
                        items.push(cur);
                    }
                    return Ok(items);
                }
                return Err("unexpected end".into());
            }
            let c = self.s[self.i];
            match c {
                b' ' | b'\n' | b'\t' | b'\r' => self.i += 1,
                b',' => {
                    self.i += 1;
                    items.push(std::mem::take(&mut cur));
                }
                b':' => {
                    // `::` never occurs in derive(Debug) output outside strings; keep it atomic if it does
                    if self.s.get(self.i + 1) == Some(&b':') {
                        cur.push(Tok::Atom("::".into()));
                        self.i += 2;
                    } else {
                        cur.push(Tok::Colon);
                        self.i += 1;
                    }
                }
                b'(' | b'{' | b'[' => {
                    self.i += 1;
                    let inner = self.items(closing(c))?;
                    cur.push(Tok::Group(c as char, inner));
                }
                b')' | b'}' | b']' => {
                    if c != end {
                        return Err(format!("unbalanced {} at {}", c as char, self.i));
                    }
                    self.i += 1;
                    if !cur.is_empty() {
                        items.push(cur);
                    }
                    return Ok(items);
                }
                b'"' => {
                    let st = self.i;
                    self.i += 1;
                    while self.i < self.s.len() && self.s[self.i] != b'"' {
                        if self.s[self.i] == b'\\' {
                            self.i += 1;
                        }
                        self.i += 1;
                    }
                    if self.i >= self.s.len() {
                        return Err("unterminated string".into());
                    }
                    self.i += 1;
                    cur.push(Tok::Str(String::from_utf8_lossy(&self.s[st..self.i]).to_string()));
                }
                b'\'' => {
                    // char literal: '\x', 'c' (c may be multi-byte)
                    let st = self.i;
                    self.i += 1;
                    if self.s.get(self.i) == Some(&b'\\') {
                        self.i += 2;
                        // \u{...}
                        while self.i < self.s.len() && self.s[self.i] != b'\'' {
                            self.i += 1;
                        }
                    } else {
                        self.i += 1;
                        while self.i < self.s.len() && (self.s[self.i] & 0xC0) == 0x80 {
                            self.i += 1;
                        }
                    }
                    if self.s.get(self.i) != Some(&b'\'') {
                        return Err(format!("bad char literal at {st}"));
                    }
                    self.i += 1;
                    cur.push(Tok::Str(String::from_utf8_lossy(&self.s[st..self.i]).to_string()));
                }
                _ => {
                    let st = self.i;
                    while self.i < self.s.len()
                        && !matches!(
                            self.s[self.i],
                            b' ' | b'\n' | b'\t' | b'\r' | b',' | b':' | b'(' | b')' | b'{' | b'}' | b'[' | b']' | b'"' | b'\''
                        )
                    {
                        self.i += 1;
                    }
                    cur.push(Tok::Atom(String::from_utf8_lossy(&self.s[st..self.i]).to_string()));
                }
            }
        }
    }
}

fn render_item(item: &[Tok], r: &dyn Resolver, out: &mut String) {
    let mut k = 0;
    while k < item.len() {
        match &item[k] {
            Tok::Atom(a) => {
                // interned id newtypes
                if matches!(a.as_str(), "StrId" | "PathId" | "ScopeId") {
                    if let Some(Tok::Group('(', inner)) = item.get(k + 1) {
                        if inner.len() == 1 && inner[0].len() == 1 {
                            if let Tok::Atom(n) = &inner[0][0] {
                                if let Ok(n) = n.parse::<usize>() {
                                    let v = match a.as_str() {
                                        "StrId" => format!("S<{}>", r.str_id(n)),
                                        "PathId" => format!("P<{}>", r.path_id(n)),
                                        _ => format!("Scope<{}>", r.scope_id(n)),
                                    };
                                    out.push_str(&v);
                                    k += 2;
                                    continue;
                                }
                            }
                        }
                    }
                }
                out.push_str(a);
                // separate an identifier from what follows only by a blank before `{`
                if let Some(Tok::Group('{', _)) = item.get(k + 1) {
                    out.push(' ');
                }
            }
            Tok::Str(s) => out.push_str(s),
            Tok::Colon => out.push_str(": "),
            Tok::Group(open, inner) => {
                let mut parts: Vec<String> = inner
                    .iter()
                    .map(|it| {
                        let mut s = String::new();
                        render_item(it, r, &mut s);
                        s
                    })
                    .collect();
                // anonymous `{…}` = map or set: order is an artefact of hashing interned ids
                let named = k > 0 && matches!(item[k - 1], Tok::Atom(_));
                if *open == '{' && !named {
                    parts.sort();
                }
                out.push(*open);
                out.push_str(&parts.join(", "));
                out.push(closing(*open as u8) as char);
            }
        }
        k += 1;
    }
}

/// Canonicalises one Debug string. On a parse failure (a hand-written Debug impl with unbalanced
/// brackets) returns Err with the reason; callers count these and fall back to the raw text.
pub fn canon(text: &str, r: &dyn Resolver) -> Result<String, String> {
    let mut p = P { s: text.as_bytes(), i: 0 };
    let items = p.items(0)?;
    let mut out = String::with_capacity(text.len());
    let n = items.len();
    for (i, it) in items.iter().enumerate() {
        render_item(it, r, &mut out);
        if i + 1 < n {
            out.push_str(", ");
        }
    }
    Ok(out)
}

#[cfg(test)]
mod tests {
    use super::*;
    struct R;
    impl Resolver for R {
        fn str_id(&self, n: usize) -> String {
            format!("s{n}")
        }
        fn path_id(&self, n: usize) -> String {
            format!("p{n}")
        }
        fn scope_id(&self, n: usize) -> String {
            format!("c{n}")
        }
    }
    #[test]
    fn basic() {
        let t = r#"Symbol { token: Token { id: TokenId(3), text: StrId(7), source: File { path: PathId(1), text: TextId(1) } }, m: {StrId(9): 1, StrId(2): 2}, s: "a{b", c: 'x' }"#;
        let c = canon(t, &R).unwrap();
        assert!(c.contains("S<s7>"));
        assert!(c.contains("{S<s2>: 2, S<s9>: 1}"));
        assert!(c.contains("\"a{b\""));
    }
}

//! C18 — run-time operator evaluation matches the reference at every width.
//!
//! Engine E6 (differential enumeration): one generated combinational module per
//! `(wa, wb, wy, sa, sb)` with one `logic<wy>` output per expression over the input ports `a`
//! (`wa` bits) and `b` (`wb` bits): every unary operator on `a`, every binary operator on
//! `(a, b)`, and two-operator compositions in which the context width / signedness propagates.
//! Each module is analysed once and run on every `veryl_simulator` engine configuration
//! (`Config::all()`; quick: the four in-process interpreter/JIT × 2-/4-state configurations).
//! Inputs: ALL values when the total input width is small, otherwise all pairs of the corner
//! alphabet (4-state engines get the X/Z members too).
//!
//! Each `Simulator::get` of an output is compared with
//!  * R1 (`vmc_refmodels::expr::assign`: IEEE 1800-2017 11.6 / 11.8.2 on the same tree, assignment
//!    to a `wy`-bit target), and
//!  * the compile-time evaluator: veryl's `Op::eval_value_*` replayed over the tree with the IEEE
//!    call contexts (shown by C17 part E to equal `Expression::eval_value`), plus the real analyzer
//!    pipeline (`eval_const_expr`) on the literal-substituted expression for a fixed subset of the
//!    inputs of every module.
//!
//! 2-state engines cannot represent x: outputs whose IEEE value contains x/z are not compared
//! there (counted).

use crate::checks::gen_sim;
use crate::checks::gen_values::*;
use crate::core::*;
use serde_json::{Value as J, json};
use std::collections::{BTreeMap, BTreeSet};
use veryl_analyzer::value::{MaskCache, Value};
use veryl_simulator::{Config, Simulator};
use vmc_refmodels::bits::{Bit, V};
use vmc_refmodels::expr;

const WIDTHS: [usize; 17] = [1, 2, 3, 4, 8, 31, 32, 33, 63, 64, 65, 127, 128, 129, 200, 256, 300];

#[derive(Clone, Debug, PartialEq, Eq, Hash, PartialOrd, Ord)]
struct Spec {
    wa: usize,
    wb: usize,
    wy: usize,
    sa: bool,
    sb: bool,
}

#[derive(Clone)]
struct Out {
    name: String,
    ex: Ex,
}

fn a() -> Box<Ex> {
    leaf(0)
}
fn b() -> Box<Ex> {
    leaf(1)
}
fn one() -> Box<Ex> {
    leaf(2)
}
fn bi(op: BOp, l: Box<Ex>, r: Box<Ex>) -> Box<Ex> {
    Box::new(Ex::Bi(op, l, r))
}
fn un(op: UOp, x: Box<Ex>) -> Box<Ex> {
    Box::new(Ex::Un(op, x))
}

/// The expressions of one module. Leaf 0 = `a`, 1 = `b`, 2 = the constant `1'b1`.
fn outputs(spec: &Spec) -> Vec<Out> {
    let mut v = vec![];
    let mut add = |name: String, ex: Box<Ex>| v.push(Out { name, ex: *ex });
    for op in UOPS {
        add(op.name().to_string(), un(op, a()));
    }
    for op in BOPS {
        if op == BOp::As {
            continue;
        }
        add(op.token().to_string(), bi(op, a(), b()));
    }
    // compositions: the outer operator's context (or the assignment target) widens the inner one
    for op1 in [BOp::Add, BOp::Sub, BOp::Mul, BOp::Shl, BOp::AShr] {
        let inner = || bi(op1, a(), b());
        add(format!("({})>>1", op1.token()), bi(BOp::Shr, inner(), one()));
        add(format!("({})==a", op1.token()), bi(BOp::Eq, inner(), a()));
        let cw = spec.wa.max(spec.wb) + 1;
        add(format!("({})as+1", op1.token()), Box::new(Ex::Cast(inner(), cw)));
        if spec.wa.max(spec.wb) > 1 {
            add(format!("({})as-1", op1.token()), Box::new(Ex::Cast(inner(), cw - 2)));
        }
    }
    add("-(+)".into(), un(UOp::Neg, bi(BOp::Add, a(), b())));
    add("~(^)".into(), un(UOp::BitNot, bi(BOp::Xor, a(), b())));
    add("|(&)".into(), un(UOp::RedOr, bi(BOp::And, a(), b())));
    add("(+)*a".into(), bi(BOp::Mul, bi(BOp::Add, a(), b()), a()));
    add("(-)/b".into(), bi(BOp::Div, bi(BOp::Sub, a(), b()), b()));
    add("(*)%b".into(), bi(BOp::Rem, bi(BOp::Mul, a(), b()), b()));
    add("(<:)+a".into(), bi(BOp::Add, bi(BOp::Lt, a(), b()), a()));
    add("(>>>)+b".into(), bi(BOp::Add, bi(BOp::AShr, a(), one()), b()));
    add("(u-)>>>1".into(), bi(BOp::AShr, un(UOp::Neg, a()), one()));
    add("{a,b}".into(), Box::new(Ex::Concat(vec![Ex::Leaf(0), Ex::Leaf(1)])));
    add("{b,a}>>1".into(), bi(BOp::Shr, Box::new(Ex::Concat(vec![Ex::Leaf(1), Ex::Leaf(0)])), one()));
    add("?:(<:)".into(), Box::new(Ex::Cond(bi(BOp::Lt, a(), b()), a(), b())));
    add("?:(r|)+".into(), Box::new(Ex::Cond(un(UOp::RedOr, b()), bi(BOp::Add, a(), b()), a())));
    v
}

fn module_text(spec: &Spec, outs: &[Out]) -> String {
    let mut s = String::from("module Top (\n");
    s.push_str(&format!("    a: input {}logic<{}>,\n", if spec.sa { "signed " } else { "" }, spec.wa));
    s.push_str(&format!("    b: input {}logic<{}>,\n", if spec.sb { "signed " } else { "" }, spec.wb));
    for (k, _) in outs.iter().enumerate() {
        s.push_str(&format!("    y{k}: output logic<{}>,\n", spec.wy));
    }
    s.push_str(") {\n");
    let port = |i: usize| match i {
        0 => "a".to_string(),
        1 => "b".to_string(),
        _ => "1'b1".to_string(),
    };
    for (k, o) in outs.iter().enumerate() {
        s.push_str(&format!("    assign y{k} = {};\n", o.ex.text(&port)));
    }
    s.push_str("}\n");
    s
}

fn kind_of(e: &Ex) -> &'static str {
    match e {
        Ex::Leaf(_) => "leaf",
        Ex::Un(op, _) => {
            if op.context_determined() {
                "un-ctx"
            } else {
                "un-self"
            }
        }
        Ex::Bi(op, _, _) => match op.class() {
            BClass::Arith => "arith",
            BClass::Shift => "shift",
            BClass::Rel => "rel",
            BClass::Equ => "equ",
            BClass::Logic => "logic",
            BClass::Cast => "cast",
        },
        Ex::Cond(..) => "cond",
        Ex::Concat(_) => "concat",
        Ex::Cast(..) => "cast",
    }
}

/// root operator token, and the kinds of its operator children
fn root_and_kids(e: &Ex) -> (String, String) {
    let (root, kids): (String, Vec<&Ex>) = match e {
        Ex::Leaf(_) => ("leaf".into(), vec![]),
        Ex::Un(op, x) => (op.name().into(), vec![x.as_ref()]),
        // `<:` / `>:` without the colon (the signature separator)
        Ex::Bi(op, l, r) => (op.token().replace(':', ""), vec![l.as_ref(), r.as_ref()]),
        Ex::Cond(c, a, b) => ("ternary".into(), vec![c.as_ref(), a.as_ref(), b.as_ref()]),
        Ex::Concat(xs) => ("{}".into(), xs.iter().collect()),
        Ex::Cast(x, _) => ("as".into(), vec![x.as_ref()]),
    };
    let mut ks: Vec<&str> = kids.iter().map(|k| kind_of(k)).filter(|k| *k != "leaf").collect();
    ks.sort();
    ks.dedup();
    (root, ks.join(","))
}

/// 2-state operands: `C18:<what>:<root operator>[(<operand kinds>)]:<engine>:<width class>:2state-<signs>:<difference>[:<amount class>]`;
/// operands with x/z: `C18:<what>:<root operator>:<engine>:<width class>:xz` (how an x/z-semantics
/// defect shows depends on the input pattern, not on the defect).
#[allow(clippy::too_many_arguments)]
fn signature(what: &str, o: &Out, eclass: &str, ew: usize, spec: &Spec, xz: bool, mismatch: &str, env: &[V]) -> String {
    let (root, kids) = root_and_kids(&o.ex);
    let engine = eclass.split('-').next().unwrap_or(eclass);
    if xz {
        return format!("C18:{what}:{root}:{engine}:{}:xz", wclass3(ew));
    }
    let name = if kids.is_empty() { root } else { format!("{root}({kids})") };
    let mut s = format!("C18:{what}:{name}:{engine}:{}:2state-{}:{mismatch}", wclass3(ew), signs(spec));
    if let Ex::Bi(op, l, r) = &o.ex {
        if op.class() == BClass::Shift {
            if let Ex::Leaf(i) = r.as_ref() {
                let wl = expr::self_width(&l.to_ref(), env).max(spec.wy);
                s.push(':');
                s.push_str(amount_class(&env[*i], wl));
            }
        }
    }
    s
}

fn wclass3(w: usize) -> &'static str {
    if w <= 64 {
        "w<=64"
    } else if w <= 128 {
        "w<=128"
    } else {
        "w>128"
    }
}

fn uses_leaf(e: &Ex, i: usize) -> bool {
    match e {
        Ex::Leaf(k) => *k == i,
        Ex::Un(_, x) | Ex::Cast(x, _) => uses_leaf(x, i),
        Ex::Bi(_, l, r) => uses_leaf(l, i) || uses_leaf(r, i),
        Ex::Cond(c, a, b) => uses_leaf(c, i) || uses_leaf(a, i) || uses_leaf(b, i),
        Ex::Concat(xs) => xs.iter().any(|x| uses_leaf(x, i)),
    }
}

fn signs(spec: &Spec) -> &'static str {
    match (spec.sa, spec.sb) {
        (false, false) => "uu",
        (true, true) => "ss",
        (true, false) => "su",
        (false, true) => "us",
    }
}

#[derive(Default)]
struct Acc {
    evals: u64,
    nontrivial: u64,
    compared_r1: u64,
    compared_ct: u64,
    e2e_ct: u64,
    e2e_ct_equal_replay: u64,
    e2e_rejected: u64,
    skipped_2state_x: u64,
    xz_inputs: u64,
    wide_evals: u64,
    viol: BTreeMap<String, (u64, Violation)>,
    per_engine: BTreeMap<String, u64>,
    distinct_outputs: BTreeSet<u64>,
    machinery: Vec<String>,
    skipped: Vec<String>,
    modules: u64,
    sample: Option<J>,
    tolerated_warnings: BTreeMap<String, u64>,
    replay_differs_from_analyzer: u64,
    ct_mismatch_not_confirmed_by_analyzer: u64,
}

impl Acc {
    fn merge(&mut self, o: Acc) {
        self.evals += o.evals;
        self.nontrivial += o.nontrivial;
        self.compared_r1 += o.compared_r1;
        self.compared_ct += o.compared_ct;
        self.e2e_ct += o.e2e_ct;
        self.e2e_ct_equal_replay += o.e2e_ct_equal_replay;
        self.e2e_rejected += o.e2e_rejected;
        self.skipped_2state_x += o.skipped_2state_x;
        self.xz_inputs += o.xz_inputs;
        self.wide_evals += o.wide_evals;
        self.modules += o.modules;
        self.replay_differs_from_analyzer += o.replay_differs_from_analyzer;
        self.ct_mismatch_not_confirmed_by_analyzer += o.ct_mismatch_not_confirmed_by_analyzer;
        for (k, n) in o.tolerated_warnings {
            *self.tolerated_warnings.entry(k).or_insert(0) += n;
        }
        for (k, (n, v)) in o.viol {
            self.viol.entry(k).or_insert((0, v)).0 += n;
        }
        for (k, n) in o.per_engine {
            *self.per_engine.entry(k).or_insert(0) += n;
        }
        if self.distinct_outputs.len() < 100_000 {
            self.distinct_outputs.extend(o.distinct_outputs);
        }
        for m in o.machinery {
            if self.machinery.len() < 8 {
                self.machinery.push(m);
            }
        }
        self.skipped.extend(o.skipped);
        if self.sample.is_none() {
            self.sample = o.sample;
        }
    }
    fn violation(&mut self, sig: String, what: String, case: J, expected: J, observed: J) {
        let e = self.viol.entry(sig.clone()).or_insert_with(|| (0, Violation { signature: sig, what, case, expected, observed }));
        e.0 += 1;
    }
}

fn engine_class(c: &Config) -> String {
    format!(
        "{}{}",
        if c.aot_c { "cc" } else if c.use_jit { "jit" } else { "interp" },
        if c.use_4state { "-4state" } else { "-2state" }
    )
}

/// input pairs for a module: (a, b) bit vectors
fn input_pairs(spec: &Spec, four_state: bool, thorough: bool) -> Vec<(Vec<Bit>, Vec<Bit>)> {
    let total = spec.wa + spec.wb;
    let exhaustive_limit = if four_state {
        if thorough { 6 } else { 4 }
    } else {
        8
    };
    let (av, bv) = if total <= exhaustive_limit {
        if four_state {
            (all_values(spec.wa), all_values(spec.wb))
        } else {
            (all_values_2state(spec.wa), all_values_2state(spec.wb))
        }
    } else {
        let pick = |w: usize| -> Vec<Vec<Bit>> {
            if w <= 3 {
                if four_state { all_values(w) } else { all_values_2state(w) }
            } else {
                corner_alphabet(w, four_state)
            }
        };
        let av = pick(spec.wa);
        let mut bv = pick(spec.wb);
        // shift amounts / exponents around the width and the word boundaries
        for x in amount_alphabet(spec.wa.max(spec.wy), spec.wb) {
            if !bv.contains(&x) {
                bv.push(x);
            }
        }
        (av, bv)
    };
    let mut out = vec![];
    for x in &av {
        for y in &bv {
            out.push((x.clone(), y.clone()));
        }
    }
    out
}

fn hash_bits(k: usize, v: &V) -> u64 {
    let mut h = 0xcbf29ce484222325u64 ^ (k as u64).wrapping_mul(0x100000001b3);
    for b in &v.bits {
        h = (h ^ (*b as u64 + 1)).wrapping_mul(0x100000001b3);
    }
    h
}

struct ModuleRun {
    acc: Acc,
}

fn run_module(spec: &Spec, configs: &[Config], thorough: bool, only: Option<(&V, &V)>) -> ModuleRun {
    let mut acc = Acc::default();
    let outs = outputs(spec);
    let code = module_text(spec, &outs);
    // veryl builds these designs with two style warnings (`>>>`/`<<<` on an unsigned operand,
    // `&&`/`||`/`!` on a multi-bit operand); both constructs are legal and defined in IEEE 1800
    let air = match gen_sim::analyze_allowing(&code, &["UnsignedArithShift", "InvalidLogicalOperand"]) {
        Ok((x, warn)) => {
            for w in warn {
                *acc.tolerated_warnings.entry(w).or_insert(0) += 1;
            }
            x
        }
        Err(e) => {
            acc.skipped.push(format!("{spec:?}: {e}"));
            return ModuleRun { acc };
        }
    };
    acc.modules += 1;
    let mut sims: Vec<(String, String, bool, Simulator)> = vec![];
    for c in configs {
        let built = std::panic::catch_unwind(std::panic::AssertUnwindSafe(|| gen_sim::build(&air, "Top", c).map(|ir| Simulator::new(ir, None))));
        match built {
            Ok(Ok(sim)) => sims.push((gen_sim::config_name(c), engine_class(c), c.use_4state, sim)),
            Ok(Err(e)) => acc.machinery.push(format!("{spec:?} {}: {e}", gen_sim::config_name(c))),
            Err(p) => {
                // the engine cannot be built for this module: find the expressions responsible by
                // building one-output modules
                let loc = take_panic_loc().unwrap_or_default();
                let msg = panic_message(p);
                let mut culprits = vec![];
                for o in &outs {
                    let one = vec![o.clone()];
                    let code1 = module_text(spec, &one);
                    let Ok((air1, _)) = gen_sim::analyze_allowing(&code1, &["UnsignedArithShift", "InvalidLogicalOperand"]) else { continue };
                    let r = std::panic::catch_unwind(std::panic::AssertUnwindSafe(|| gen_sim::build(&air1, "Top", c).map(|ir| Simulator::new(ir, None)).is_ok()));
                    if r.is_err() {
                        let _ = take_panic_loc();
                        culprits.push((o.clone(), code1));
                    }
                }
                let short_loc = loc.rsplit('/').next().unwrap_or(&loc).to_string();
                if culprits.is_empty() {
                    acc.violation(
                        format!("C18:engine-build-panic:whole-module:{}:{}", engine_class(c).split('-').next().unwrap_or(""), short_loc),
                        format!("building the {} engine for the module panics: {msg} at {loc} (no single expression reproduces it)", gen_sim::config_name(c)),
                        json!({"spec": {"wa": spec.wa, "wb": spec.wb, "wy": spec.wy, "sa": spec.sa, "sb": spec.sb}, "engine": gen_sim::config_name(c), "module": code}),
                        json!("a simulator"),
                        json!(format!("panic: {msg} at {loc}")),
                    );
                }
                for (o, code1) in culprits {
                    let (root, kids) = root_and_kids(&o.ex);
                    let name = if kids.is_empty() { root } else { format!("{root}({kids})") };
                    acc.violation(
                        format!("C18:engine-build-panic:{name}:{}:{}", engine_class(c).split('-').next().unwrap_or(""), short_loc),
                        format!(
                            "building the {} engine panics for `assign y: logic<{}> = {}` (a: {}logic<{}>, b: {}logic<{}>): {msg} at {loc}",
                            gen_sim::config_name(c),
                            spec.wy,
                            o.ex.text(&|i| ["a", "b", "1'b1"][i].to_string()),
                            if spec.sa { "signed " } else { "" },
                            spec.wa,
                            if spec.sb { "signed " } else { "" },
                            spec.wb
                        ),
                        json!({"spec": {"wa": spec.wa, "wb": spec.wb, "wy": spec.wy, "sa": spec.sa, "sb": spec.sb}, "expr": o.name, "engine": gen_sim::config_name(c), "module": code1}),
                        json!("a simulator"),
                        json!(format!("panic: {msg} at {loc}")),
                    );
                }
            }
        }
    }
    let any4 = sims.iter().any(|s| s.2);
    let pairs = match only {
        Some((x, y)) => vec![(x.bits.clone(), y.bits.clone())],
        None => input_pairs(spec, any4, thorough),
    };
    let one_v = V::from_u128(1, 1, false);
    let mut mc = MaskCache::default();
    let case = |o: &Out, av: &V, bv: &V, engine: &str| {
        json!({"spec": {"wa": spec.wa, "wb": spec.wb, "wy": spec.wy, "sa": spec.sa, "sb": spec.sb},
               "expr": o.name, "veryl": o.ex.text(&|i| ["a", "b", "1'b1"][i].to_string()),
               "a": v_text(av), "b": v_text(bv), "engine": engine, "module": code})
    };
    // the real analyzer pipeline is run on a fixed subset of the pairs
    let e2e_stride = (pairs.len() / 6).max(1);
    for (pi, (abits, bbits)) in pairs.iter().enumerate() {
        let av = V::new(abits.clone(), spec.sa);
        let bv = V::new(bbits.clone(), spec.sb);
        let xz = av.has_xz() || bv.has_xz();
        let env = vec![av.clone(), bv.clone(), one_v.clone()];
        let envx: Vec<Value> = env.iter().map(v_to_value).collect();
        // expected values
        let mut adm: Vec<Vec<V>> = Vec::with_capacity(outs.len());
        let mut ct: Vec<Option<V>> = Vec::with_capacity(outs.len());
        for o in &outs {
            let r = o.ex.to_ref();
            let mut set: Vec<V> = vec![];
            for rd in expr::READINGS {
                let v = expr::assign(&r, &env, spec.wy, rd);
                if !set.contains(&v) {
                    set.push(v);
                }
            }
            adm.push(set);
            let w = expr::self_width(&r, &env).max(spec.wy);
            let s = expr::self_signed(&r, &env);
            let mut c = comptime_replay(&o.ex, &env, &envx, w, s, &mut mc).and_then(|x| value_to_v(&x).ok()).map(|x| x.resize(spec.wy).with_sign(false));
            if pi % e2e_stride == 0 {
                let text = o.ex.text(&|i| literal(&env[i]));
                match std::panic::catch_unwind(std::panic::AssertUnwindSafe(|| gen_sim::eval_const_expr(&text, Some(spec.wy)))) {
                    Ok(Ok(x)) => {
                        acc.e2e_ct += 1;
                        if let Ok(xv) = value_to_v(&x) {
                            // the target is unsigned logic<wy>: extension (if any) by the value's own type
                            let xv = xv.resize(spec.wy).with_sign(false);
                            match &c {
                                Some(rep) if *rep == xv => acc.e2e_ct_equal_replay += 1,
                                // the analyzer's context handling deviates from 11.8.2 here (C17
                                // reports it); the analyzer's own value is what counts
                                Some(_) => acc.replay_differs_from_analyzer += 1,
                                None => {}
                            }
                            c = Some(xv);
                        }
                    }
                    _ => acc.e2e_rejected += 1,
                }
            }
            ct.push(c);
        }
        if xz {
            acc.xz_inputs += 1;
        }
        for (cfg_name, eclass, four, sim) in sims.iter_mut() {
            if xz && !*four {
                continue;
            }
            sim.set("a", envx[0].clone());
            sim.set("b", envx[1].clone());
            for (k, o) in outs.iter().enumerate() {
                let got = match std::panic::catch_unwind(std::panic::AssertUnwindSafe(|| sim.get(&format!("y{k}")))) {
                    Ok(Some(g)) => g,
                    Ok(None) => {
                        acc.machinery.push(format!("{spec:?}: output y{k} not found"));
                        continue;
                    }
                    Err(p) => {
                        acc.violation(
                            format!("C18:panic:{}:{}:{}", root_and_kids(&o.ex).0, eclass.split('-').next().unwrap_or(""), wclass3(spec.wy.max(spec.wa).max(spec.wb))),
                            format!("Simulator::get panicked: {}", panic_message(p)),
                            case(o, &av, &bv, cfg_name),
                            json!(adm[k].iter().map(v_text).collect::<Vec<_>>()),
                            json!("panic"),
                        );
                        continue;
                    }
                };
                acc.evals += 1;
                *acc.per_engine.entry(eclass.clone()).or_insert(0) += 1;
                // x/z among the operands this expression reads
                let oxz = (0..2).any(|i| env[i].has_xz() && uses_leaf(&o.ex, i));
                let ew = spec.wy.max(spec.wa).max(spec.wb);
                if ew > 64 {
                    acc.wide_evals += 1;
                }
                let gv = match value_to_v(&got) {
                    Ok(g) => g.with_sign(false),
                    Err(e) => {
                        acc.violation(
                            format!("C18:stray-bits:{}:{}:{}", root_and_kids(&o.ex).0, eclass.split('-').next().unwrap_or(""), wclass3(ew)),
                            format!(
                                "{} with a={} b={} assigned to logic<{}>: Simulator::get on {} returns a value with bits above the port width: {e}",
                                o.ex.text(&|i| ["a", "b", "1'b1"][i].to_string()),
                                v_text(&av),
                                v_text(&bv),
                                spec.wy,
                                cfg_name
                            ),
                            case(o, &av, &bv, cfg_name),
                            json!(adm[k].iter().map(v_text).collect::<Vec<_>>()),
                            json!(value_text(&got)),
                        );
                        continue;
                    }
                };
                if gv.bits != av.bits && gv.bits != bv.bits && !gv.is_zero() {
                    acc.nontrivial += 1;
                }
                if acc.distinct_outputs.len() < 4096 {
                    acc.distinct_outputs.insert(hash_bits(k, &gv));
                }
                // ---- R1
                let r1_known = adm[k].iter().any(|e| !e.has_xz());
                let mut ieee_failed = false;
                if !*four && !r1_known {
                    acc.skipped_2state_x += 1;
                } else {
                    acc.compared_r1 += 1;
                    let ok = if *four {
                        adm[k].iter().any(|e| e.bits == gv.bits)
                    } else {
                        adm[k].iter().any(|e| !e.has_xz() && e.bits == gv.bits)
                    };
                    if !ok {
                        ieee_failed = true;
                        let e0 = adm[k].iter().find(|e| *four || !e.has_xz()).unwrap_or(&adm[k][0]);
                        let mc_ = if gv.width() == e0.width() { mismatch_class(&gv.bits, &e0.bits) } else { "width" };
                        acc.violation(
                            signature("ieee", o, eclass, ew, spec, oxz, mc_, &env),
                            format!(
                                "{} with a={} b={} assigned to logic<{}> reads {} on {} — IEEE 1800: {}",
                                o.ex.text(&|i| ["a", "b", "1'b1"][i].to_string()),
                                v_text(&av),
                                v_text(&bv),
                                spec.wy,
                                v_text(&gv),
                                cfg_name,
                                adm[k].iter().map(v_text).collect::<Vec<_>>().join(" or ")
                            ),
                            case(o, &av, &bv, cfg_name),
                            json!(adm[k].iter().map(v_text).collect::<Vec<_>>()),
                            json!(v_text(&gv)),
                        );
                    } else if acc.sample.is_none() && ew > 64 && pi > 3 {
                        let mut c = case(o, &av, &bv, cfg_name);
                        c["module"] = json!(null);
                        c["result"] = json!(v_text(&gv));
                        acc.sample = Some(c);
                    }
                }
                // ---- compile-time evaluator (a read that already disagrees with IEEE 1800 is
                // reported once, above)
                if ieee_failed {
                    continue;
                }
                if let Some(c) = &ct[k] {
                    if !*four && c.has_xz() {
                        continue;
                    }
                    acc.compared_ct += 1;
                    if c.bits != gv.bits {
                        // a replayed value is confirmed by the real analyzer before it is reported
                        let text = o.ex.text(&|i| literal(&env[i]));
                        let confirmed = match std::panic::catch_unwind(std::panic::AssertUnwindSafe(|| gen_sim::eval_const_expr(&text, Some(spec.wy)))) {
                            Ok(Ok(x)) => value_to_v(&x).ok().map(|xv| xv.resize(spec.wy).with_sign(false)),
                            _ => None,
                        };
                        let Some(cv) = confirmed else {
                            acc.ct_mismatch_not_confirmed_by_analyzer += 1;
                            continue;
                        };
                        if cv.bits == gv.bits || (!*four && cv.has_xz()) {
                            acc.ct_mismatch_not_confirmed_by_analyzer += 1;
                            continue;
                        }
                        let mc_ = if gv.width() == cv.width() { mismatch_class(&gv.bits, &cv.bits) } else { "width" };
                        acc.violation(
                            signature("vs-comptime", o, eclass, ew, spec, oxz, mc_, &env),
                            format!(
                                "{} with a={} b={} assigned to logic<{}> reads {} on {} — compile-time evaluation of `{text}` gives {}",
                                o.ex.text(&|i| ["a", "b", "1'b1"][i].to_string()),
                                v_text(&av),
                                v_text(&bv),
                                spec.wy,
                                v_text(&gv),
                                cfg_name,
                                v_text(&cv)
                            ),
                            case(o, &av, &bv, cfg_name),
                            json!(v_text(&cv)),
                            json!(v_text(&gv)),
                        );
                    }
                }
            }
        }
    }
    ModuleRun { acc }
}

/// `run_module` with a panic of the harness or of an unguarded veryl call turned into a
/// machinery error that names the location.
fn run_module_guarded(spec: &Spec, configs: &[Config], thorough: bool, only: Option<(&V, &V)>) -> Acc {
    match std::panic::catch_unwind(std::panic::AssertUnwindSafe(|| run_module(spec, configs, thorough, only).acc)) {
        Ok(a) => a,
        Err(p) => {
            let mut a = Acc::default();
            a.machinery.push(format!("module {spec:?}: panic outside a guarded call: {} at {}", panic_message(p), take_panic_loc().unwrap_or_default()));
            a
        }
    }
}

fn specs(thorough: bool) -> Vec<Spec> {
    let mut out: Vec<Spec> = vec![];
    let mut push = |wa: usize, wb: usize, wy: usize, sa: bool, sb: bool| {
        let s = Spec { wa, wb, wy, sa, sb };
        if !out.contains(&s) {
            out.push(s);
        }
    };
    let next_up = |m: usize| WIDTHS.iter().copied().find(|w| *w > m).unwrap_or(m + 1);
    let next_down = |m: usize| WIDTHS.iter().rev().copied().find(|w| *w < m).unwrap_or(1);
    let mut pairs: Vec<(usize, usize)> = vec![];
    if thorough {
        for (i, &x) in WIDTHS.iter().enumerate() {
            let mut ys = vec![x, 1, 8, 64, 65, 300];
            if i > 0 {
                ys.push(WIDTHS[i - 1]);
            }
            if i + 1 < WIDTHS.len() {
                ys.push(WIDTHS[i + 1]);
            }
            for y in ys {
                if !pairs.contains(&(x, y)) {
                    pairs.push((x, y));
                }
            }
        }
    } else {
        for &x in &WIDTHS {
            pairs.push((x, x));
        }
        pairs.extend([(32, 33), (33, 32), (64, 65), (65, 64), (128, 129), (129, 64), (8, 64), (64, 8), (4, 128), (300, 8), (1, 300), (2, 2), (3, 1), (1, 3), (2, 3), (63, 4), (127, 65), (200, 256)]);
    }
    for (wa, wb) in pairs {
        let m = wa.max(wb);
        let sign_sets: &[(bool, bool)] = if thorough {
            &[(false, false), (true, true), (true, false), (false, true)]
        } else if wa == wb {
            &[(false, false), (true, true)]
        } else {
            &[(false, false), (true, true), (true, false)]
        };
        for &(sa, sb) in sign_sets {
            push(wa, wb, m, sa, sb);
            if sa == sb || !thorough {
                push(wa, wb, next_up(m), sa, sb);
            }
            if thorough && m > 1 && sa == sb {
                push(wa, wb, next_down(m), sa, sb);
            }
        }
    }
    out
}

pub fn run(ctx: &Ctx) -> Report {
    install_quiet_panic_hook();
    let mut rep = Report::new(Level::Exploration);
    let thorough = ctx.thorough();
    let budget = ctx.budget(32.0, 1200.0);
    let configs: Vec<Config> = if thorough {
        gen_sim::configs(true)
    } else {
        gen_sim::configs(false).into_iter().filter(|c| !c.disable_ff_opt).collect()
    };
    let mut all = specs(thorough);
    if ctx.seed != 0 && !all.is_empty() {
        let k = (ctx.seed as usize) % all.len();
        all.rotate_left(k);
    }
    // cheap modules first within each chunk is not needed: chunks are cut by the budget
    let mut total = Acc::default();
    let mut done = 0usize;
    let mut capped = false;
    let threads = rayon::current_num_threads().max(1);
    for chunk in all.chunks(threads) {
        if ctx.elapsed() > budget {
            capped = true;
            break;
        }
        let rs = par_map(chunk, |s| {
            let s2 = s.clone();
            let cfgs = configs.clone();
            run_isolated(gen_sim::STACK, move || run_module_guarded(&s2, &cfgs, thorough, None))
        });
        for (s, r) in chunk.iter().zip(rs) {
            match r {
                Ok(a) => total.merge(a),
                Err(p) => rep.machinery(format!("module {s:?}: harness thread panicked: {p}")),
            }
        }
        done += chunk.len();
    }

    rep.set("evaluations", total.evals);
    rep.set("distinct_nontrivial", total.nontrivial);
    rep.set("rule", "an output read is non-trivial when its value is non-zero and differs from both input bit vectors");
    rep.set("modules_total", all.len() as u64);
    rep.set("modules_completed", done as u64);
    rep.set("modules_accepted", total.modules);
    rep.set("modules_rejected_by_analyzer", total.skipped.len() as u64);
    rep.set("rejected_reasons", json!(total.skipped.iter().take(5).collect::<Vec<_>>()));
    rep.set("expressions_per_module", outputs(&Spec { wa: 4, wb: 4, wy: 4, sa: false, sb: false }).len() as u64);
    rep.set("compared_with_r1", total.compared_r1);
    rep.set("compared_with_compile_time_evaluator", total.compared_ct);
    rep.set("compile_time_through_real_analyzer", total.e2e_ct);
    rep.set("compile_time_real_analyzer_equal_to_replay", total.e2e_ct_equal_replay);
    rep.set("compile_time_real_analyzer_rejected", total.e2e_rejected);
    rep.set("not_compared_2state_result_is_x", total.skipped_2state_x);
    rep.set("compile_time_replay_differs_from_real_analyzer", total.replay_differs_from_analyzer);
    rep.set("compile_time_mismatch_of_replay_not_confirmed_by_analyzer", total.ct_mismatch_not_confirmed_by_analyzer);
    rep.set("tolerated_warning_kinds", json!(total.tolerated_warnings));
    rep.set("input_pairs_with_xz", total.xz_inputs);
    rep.set("evaluations_wider_than_64", total.wide_evals);
    rep.set("distinct_output_values_seen", total.distinct_outputs.len() as u64);
    rep.set("evaluations_per_engine", json!(total.per_engine));
    rep.set("engines", json!(configs.iter().map(gen_sim::config_name).collect::<Vec<_>>()));
    rep.set("exhaustive", !capped);
    rep.set("capped_by_budget", capped);
    rep.set("bounds", json!({"widths": WIDTHS, "inputs": "all values when wa+wb <= 8 (2-state) / <= 4 quick, 6 thorough (4-state); else all pairs of the corner alphabet + shift-amount alphabet"}));
    rep.set("violation_signatures", json!(total.viol.iter().map(|(k, (n, _))| (k.clone(), *n)).collect::<BTreeMap<String, u64>>()));
    if let Some(s) = total.sample.take() {
        rep.sample(s);
    }
    rep.assume("IEEE value of a Veryl operator = that of the SystemVerilog operator it is emitted as; outputs are unsigned logic<wy> (assignment context, 10.7 / 11.6)");
    rep.assume("== != ==? !=? with x/z operands and unary + with x/z: both readings of the standard accepted");
    for m in &total.machinery {
        rep.machinery(m.clone());
    }
    if total.modules == 0 || total.evals == 0 || total.nontrivial < 2 || total.distinct_outputs.len() < 16 {
        rep.machinery("vacuous run: no module simulated or outputs never varied");
    }
    if total.skipped.len() * 20 > all.len() {
        rep.machinery(format!("{} generated modules were rejected by the analyzer (generator bug): {:?}", total.skipped.len(), total.skipped.iter().take(3).collect::<Vec<_>>()));
    }
    if let Ok(path) = std::env::var("VMC_C18_DUMP") {
        let mut out = String::new();
        for (k, (n, v)) in &total.viol {
            let mut c = v.case.clone();
            c["module"] = json!(null);
            out.push_str(&json!({"signature": k, "n": n, "what": v.what, "case": c}).to_string());
            out.push('\n');
        }
        let _ = std::fs::write(path, out);
    }
    for (_, (n, mut v)) in total.viol {
        v.what = format!("{} [{} case(s)]", v.what, n);
        rep.violation(v);
    }
    rep
}

fn parse_v(s: &str) -> Option<V> {
    let (w, rest) = s.split_once('\'')?;
    let signed = rest.starts_with('s');
    let bits = rest.trim_start_matches('s').strip_prefix('b')?;
    let v = V::from_str_msb(bits, signed);
    (v.width() == w.parse::<usize>().ok()?).then_some(v)
}

/// Re-runs the recorded module on the recorded input pair under every in-process engine (and the
/// cc engines when the recorded engine was one).
pub fn replay(doc: &J) -> i32 {
    install_quiet_panic_hook();
    let c = &doc["case"];
    let sp = &c["spec"];
    let (Some(wa), Some(wb), Some(wy)) = (sp["wa"].as_u64(), sp["wb"].as_u64(), sp["wy"].as_u64()) else { return 2 };
    let spec = Spec { wa: wa as usize, wb: wb as usize, wy: wy as usize, sa: sp["sa"].as_bool().unwrap_or(false), sb: sp["sb"].as_bool().unwrap_or(false) };
    // engine-build panics carry no input pair: any pair rebuilds the engines
    let av = c["a"].as_str().and_then(parse_v).unwrap_or_else(|| V::zeros(spec.wa, spec.sa));
    let bv = c["b"].as_str().and_then(parse_v).unwrap_or_else(|| V::zeros(spec.wb, spec.sb));
    let with_cc = c["engine"].as_str().map(|e| e.starts_with("cc")).unwrap_or(false);
    let name = c["expr"].as_str().unwrap_or("").to_string();
    let r = run_isolated(gen_sim::STACK, move || run_module_guarded(&spec, &gen_sim::configs(with_cc), false, Some((&av, &bv))));
    match r {
        Ok(acc) => {
            let hits: Vec<_> = acc.viol.iter().filter(|(_, (_, v))| v.case["expr"].as_str() == Some(name.as_str())).collect();
            for m in &acc.machinery {
                println!("machinery: {m}");
            }
            if let Some((k, (_, v))) = hits.first() {
                println!("still differs [{k}]: {}\nexpected {}\nobserved {}", v.what, v.expected, v.observed);
                1
            } else {
                println!("agrees now ({} reads compared)", acc.evals);
                0
            }
        }
        Err(p) => {
            println!("cannot replay: {p} at {:?}", take_panic_loc());
            2
        }
    }
}

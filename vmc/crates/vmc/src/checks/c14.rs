//! C14 — combinational loop detection is exact.
//!
//! Engine E1 (finite family): abstract designs **CL** over five module-level bits
//! (`a: logic<2>`, `b: logic<2>`, `c: logic`), one data input and one free condition input; each
//! design is a list of <= 3 processes with pairwise disjoint driven bits.  A process is a
//! continuous assign, an always_comb (statement order, one-level if/else, sequential
//! reassignment, read-before-write), an always_ff, a pure function call or an instance of one of
//! four fixed children with one-bit ports (feed-through, registered, constant, partial
//! feed-through) or of a child taken from the two enumerated child classes "two inputs, one
//! output" (`CT<m>`, all 4 transfers: the output depends on no / the first / the second / both
//! inputs) and "two inputs, two outputs" (`CX<m>`, all 16 transfer matrices, among them the
//! straight, the crossing and the converging ones), connected in both input orders so that the
//! parent's feedback can enter through either input.  Every design is rendered to Veryl and analysed by the real analyzer
//! (`post_pass2` = `comb_loop_detect::check`); the verdict "some `combinational_loop` diagnostic"
//! is compared, in both directions, with a reference bit graph computed from the abstract design:
//!
//! * nodes = module-level bits;
//! * every process is evaluated symbolically in statement order (a read sees the most recent
//!   write of the bit on the path, else the module-level bit; an `if` merges both arms and adds
//!   the bits its condition reads to everything written inside it);
//! * an instance contributes exactly the child's per-input transfer: output `j` depends on the
//!   bit connected to input `k` iff the child's output `j` depends on its input `k`;
//! * the design has a loop iff the graph has a cycle (self edges included).
//!
//! The family is restricted to the region in which the repository's non-ignored tests assert
//! exactness ("CL-exact"): constant single-bit selects, whole-variable copies, one-bit operators,
//! reductions, one-bit ports, latch-free always_comb blocks.  The classes the maintainers record
//! as inexact (`#[ignore = "comb-loop migration: ..."]`: positional/periodic transfers, multi-bit
//! module feed-through, dynamic indices, unreachable code, retained state) are not generated,
//! except for the small `known_*` sub-families that reach two of those classes on purpose and
//! report them under their own signatures.
//!
//! The reference reading is validated at the start of every run against transcriptions of
//! non-ignored repository tests.

use crate::checks::gen_abs::{self, Analysis, Histo, SimLeg};
use crate::core::*;
use serde_json::{Value, json};
use std::collections::{BTreeMap, BTreeSet};

// ---------------------------------------------------------------------------------------------
// abstract designs
// ---------------------------------------------------------------------------------------------

/// Module-level bits: 0 = a[0], 1 = a[1], 2 = b[0], 3 = b[1], 4 = c, 5..=10 = d[0..=5]
/// (`d` is only used by the `known_*` sub-families).
type Bit = u8;
const NBITS: usize = 11;
/// Variables: 0 = a (2 bits), 1 = b (2 bits), 2 = c (1 bit), 3 = d (6 bits).
type Var = u8;

fn var_name(v: Var) -> &'static str {
    ["a", "b", "c", "d"][v as usize]
}

fn var_bits(v: Var) -> Vec<Bit> {
    match v {
        0 => vec![0, 1],
        1 => vec![2, 3],
        2 => vec![4],
        _ => vec![5, 6, 7, 8, 9, 10],
    }
}

fn bit_text(b: Bit, tag: &str) -> String {
    match b {
        0 => format!("a{tag}[0]"),
        1 => format!("a{tag}[1]"),
        2 => format!("b{tag}[0]"),
        3 => format!("b{tag}[1]"),
        4 => format!("c{tag}"),
        _ => format!("d{tag}[{}]", b - 5),
    }
}

#[derive(Clone, Copy, PartialEq, Eq, Debug, Hash, PartialOrd, Ord)]
enum E {
    Const,
    /// the data input `inp`
    In,
    Bit(Bit),
    And(Bit, Bit),
    /// `inp & bit`
    AndIn(Bit),
    /// `|v` over a two-bit variable
    RedOr(Var),
    /// `f(bit)` with `function f(x: input logic) -> logic { return x; }`
    Call(Bit),
    /// `if bit ? 1'b0 : 1'b0` style ternary: `if s ? x : y`
    Tern(Bit, Bit, Bit),
    /// whole two-bit variable (only as the source of a whole two-bit destination)
    Full(Var),
    /// `{hi, lo}` concatenation of two bits (only for a whole two-bit destination)
    Cat(Bit, Bit),
    /// `d[lo+len-1:lo]` (only as the source of an equally long `Dst::Range`)
    Range(u8, u8),
}

#[derive(Clone, Copy, PartialEq, Eq, Debug, Hash, PartialOrd, Ord)]
enum Dst {
    Bit(Bit),
    /// whole two-bit variable a or b
    Full(Var),
    /// `d[lo+len-1:lo]`
    Range(u8, u8),
}

impl Dst {
    fn bits(self) -> Vec<Bit> {
        match self {
            Dst::Bit(b) => vec![b],
            Dst::Full(v) => var_bits(v),
            Dst::Range(lo, len) => (5 + lo..5 + lo + len).collect(),
        }
    }
}

#[derive(Clone, Copy, PartialEq, Eq, Debug, Hash, PartialOrd, Ord)]
enum Cond {
    /// the free input `k`
    Free,
    Bit(Bit),
}

#[derive(Clone, PartialEq, Eq, Debug, Hash, PartialOrd, Ord)]
enum S {
    Asg(Dst, E),
    If { cond: Cond, t: Vec<S>, e: Vec<S> },
}

#[derive(Clone, Copy, PartialEq, Eq, Debug, Hash, PartialOrd, Ord)]
enum Child {
    /// `assign o = i;`
    Ft,
    /// `always_ff { o = i; }`
    Reg,
    /// `assign o = 0;` (input unused)
    Konst,
    /// two inputs, `assign o = i0;` (i1 unused)
    Pf,
    /// `CT<m>`: two inputs, one output; bit k of `m` set = `o` depends on input `ik`
    /// (0: `o = 0`, 1: `o = i0`, 2: `o = i1`, 3: `o = i0 & i1`)
    M21(u8),
}

/// Right-hand side of a child output that depends on the inputs in `mask`.
fn transfer_expr(mask: u8) -> &'static str {
    ["0", "i0", "i1", "i0 & i1"][(mask & 3) as usize]
}

#[derive(Clone, PartialEq, Eq, Debug, Hash, PartialOrd, Ord)]
enum P {
    Assign(Dst, E),
    Comb(Vec<S>),
    Ff(Dst, E),
    Inst { kind: Child, ins: Vec<Bit>, out: Bit },
    /// `inst u: CVec (i: <var>, o: <var>)` with two-bit ports, `assign o = i;` inside
    InstVec { i: Var, o: Var },
    /// `CX<m>`: two inputs, two outputs; `m & 3` = inputs `o0` depends on, `m >> 2` = inputs `o1`
    /// depends on (straight `o0 = i0; o1 = i1` is m = 9, crossing `o0 = i1; o1 = i0` is m = 6,
    /// converging `o0 = i0 & i1` is m & 3 = 3)
    Inst2 { m: u8, ins: [Bit; 2], outs: [Bit; 2] },
}

#[derive(Clone, PartialEq, Eq, Debug, Hash)]
struct Design {
    procs: Vec<P>,
}

// ---------------------------------------------------------------------------------------------
// rendering
// ---------------------------------------------------------------------------------------------

fn expr_text(e: E, tag: &str) -> String {
    match e {
        E::Const => "0".into(),
        E::In => "inp".into(),
        E::Bit(b) => bit_text(b, tag),
        E::And(x, y) => format!("{} & {}", bit_text(x, tag), bit_text(y, tag)),
        E::AndIn(x) => format!("inp & {}", bit_text(x, tag)),
        E::RedOr(v) => format!("|{}{tag}", var_name(v)),
        E::Call(b) => format!("f({})", bit_text(b, tag)),
        E::Tern(s, x, y) => format!(
            "if {} ? {} : {}",
            bit_text(s, tag),
            bit_text(x, tag),
            bit_text(y, tag)
        ),
        E::Full(v) => format!("{}{tag}", var_name(v)),
        E::Cat(h, l) => format!("{{{}, {}}}", bit_text(h, tag), bit_text(l, tag)),
        E::Range(lo, len) => format!("d{tag}[{}:{}]", lo + len - 1, lo),
    }
}

fn dst_text(d: Dst, tag: &str) -> String {
    match d {
        Dst::Bit(b) => bit_text(b, tag),
        Dst::Full(v) => format!("{}{tag}", var_name(v)),
        Dst::Range(lo, len) => format!("d{tag}[{}:{}]", lo + len - 1, lo),
    }
}

fn render_stmts(out: &mut String, ind: usize, body: &[S], tag: &str) {
    let p = " ".repeat(ind * 4);
    for s in body {
        match s {
            S::Asg(d, e) => out.push_str(&format!("{p}{} = {};\n", dst_text(*d, tag), expr_text(*e, tag))),
            S::If { cond, t, e } => {
                let c = match cond {
                    Cond::Free => "k".to_string(),
                    Cond::Bit(b) => bit_text(*b, tag),
                };
                out.push_str(&format!("{p}if {c} {{\n"));
                render_stmts(out, ind + 1, t, tag);
                if !e.is_empty() {
                    out.push_str(&format!("{p}}} else {{\n"));
                    render_stmts(out, ind + 1, e, tag);
                }
                out.push_str(&format!("{p}}}\n"));
            }
        }
    }
}

fn uses_d(d: &Design) -> bool {
    d.procs.iter().any(|p| driven_bits(p).iter().any(|b| *b >= 5))
}

fn uses_call(d: &Design) -> bool {
    fn e_has(e: &E) -> bool {
        matches!(e, E::Call(_))
    }
    fn s_has(s: &S) -> bool {
        match s {
            S::Asg(_, e) => e_has(e),
            S::If { t, e, .. } => t.iter().any(s_has) || e.iter().any(s_has),
        }
    }
    d.procs.iter().any(|p| match p {
        P::Assign(_, e) | P::Ff(_, e) => e_has(e),
        P::Comb(b) => b.iter().any(s_has),
        P::Inst { .. } | P::InstVec { .. } | P::Inst2 { .. } => false,
    })
}

/// The enumerated children the designs instantiate (the fixed ones are always rendered).
fn used_children(ds: &[Design]) -> String {
    let mut m21: BTreeSet<u8> = BTreeSet::new();
    let mut m22: BTreeSet<u8> = BTreeSet::new();
    for d in ds {
        for p in &d.procs {
            match p {
                P::Inst { kind: Child::M21(m), .. } => {
                    m21.insert(*m);
                }
                P::Inst2 { m, .. } => {
                    m22.insert(*m);
                }
                _ => {}
            }
        }
    }
    let mut out = String::new();
    for m in m21 {
        out.push_str(&format!(
            "module CT{m} (\n    i0: input logic,\n    i1: input logic,\n    o: output logic,\n) {{\n    assign o = {};\n}}\n",
            transfer_expr(m)
        ));
    }
    for m in m22 {
        out.push_str(&format!(
            "module CX{m} (\n    i0: input logic,\n    i1: input logic,\n    o0: output logic,\n    o1: output logic,\n) {{\n    assign o0 = {};\n    assign o1 = {};\n}}\n",
            transfer_expr(m & 3),
            transfer_expr(m >> 2)
        ));
    }
    out
}

const CHILDREN: &str = "module CFt (\n    i: input logic,\n    o: output logic,\n) {\n    assign o = i;\n}\nmodule CReg (\n    i_clk: input clock,\n    i_rst: input reset,\n    i: input logic,\n    o: output logic,\n) {\n    always_ff {\n        if_reset {\n            o = 0;\n        } else {\n            o = i;\n        }\n    }\n}\nmodule CKonst (\n    i: input logic,\n    o: output logic,\n) {\n    assign o = 0;\n}\nmodule CPf (\n    i0: input logic,\n    i1: input logic,\n    o: output logic,\n) {\n    assign o = i0;\n}\nmodule CVec (\n    i: input logic<2>,\n    o: output logic<2>,\n) {\n    assign o = i;\n}\n";

fn render_module(d: &Design, tag: &str) -> String {
    let mut body = String::new();
    body.push_str(&format!("    var a{tag}: logic<2>;\n    var b{tag}: logic<2>;\n    var c{tag}: logic;\n"));
    if uses_d(d) {
        body.push_str(&format!("    var d{tag}: logic<6>;\n"));
    }
    if uses_call(d) {
        body.push_str("    function f (\n        x: input logic,\n    ) -> logic {\n        return x;\n    }\n");
    }
    for (n, p) in d.procs.iter().enumerate() {
        match p {
            P::Assign(dst, e) => {
                body.push_str(&format!("    assign {} = {};\n", dst_text(*dst, tag), expr_text(*e, tag)));
            }
            P::Comb(b) => {
                body.push_str("    always_comb {\n");
                render_stmts(&mut body, 2, b, tag);
                body.push_str("    }\n");
            }
            P::Ff(dst, e) => {
                body.push_str(&format!(
                    "    always_ff {{\n        if_reset {{\n            {d} = 0;\n        }} else {{\n            {d} = {};\n        }}\n    }}\n",
                    expr_text(*e, tag),
                    d = dst_text(*dst, tag)
                ));
            }
            P::InstVec { i, o } => body.push_str(&format!(
                "    inst u{n}: CVec (\n        i: {}{tag},\n        o: {}{tag},\n    );\n",
                var_name(*i),
                var_name(*o)
            )),
            P::Inst2 { m, ins, outs } => body.push_str(&format!(
                "    inst u{n}: CX{m} (\n        i0: {},\n        i1: {},\n        o0: {},\n        o1: {},\n    );\n",
                bit_text(ins[0], tag),
                bit_text(ins[1], tag),
                bit_text(outs[0], tag),
                bit_text(outs[1], tag)
            )),
            P::Inst { kind, ins, out } => match kind {
                Child::M21(m) => body.push_str(&format!(
                    "    inst u{n}: CT{m} (\n        i0: {},\n        i1: {},\n        o: {},\n    );\n",
                    bit_text(ins[0], tag),
                    bit_text(ins[1], tag),
                    bit_text(*out, tag)
                )),
                Child::Ft => body.push_str(&format!(
                    "    inst u{n}: CFt (\n        i: {},\n        o: {},\n    );\n",
                    bit_text(ins[0], tag),
                    bit_text(*out, tag)
                )),
                Child::Reg => body.push_str(&format!(
                    "    inst u{n}: CReg (\n        i_clk,\n        i_rst,\n        i: {},\n        o: {},\n    );\n",
                    bit_text(ins[0], tag),
                    bit_text(*out, tag)
                )),
                Child::Konst => body.push_str(&format!(
                    "    inst u{n}: CKonst (\n        i: {},\n        o: {},\n    );\n",
                    bit_text(ins[0], tag),
                    bit_text(*out, tag)
                )),
                Child::Pf => body.push_str(&format!(
                    "    inst u{n}: CPf (\n        i0: {},\n        i1: {},\n        o: {},\n    );\n",
                    bit_text(ins[0], tag),
                    bit_text(ins[1], tag),
                    bit_text(*out, tag)
                )),
            },
        }
    }
    format!(
        "module Top{tag} (\n    i_clk: input clock,\n    i_rst: input reset,\n    k: input logic,\n    inp: input logic,\n    inp2: input logic<2>,\n) {{\n{body}}}\n"
    )
}

fn render(d: &Design) -> String {
    format!("{}{}{}", render_module(d, ""), CHILDREN, used_children(std::slice::from_ref(d)))
}

fn render_batch(ds: &[Design]) -> String {
    let mut out = String::new();
    for (k, d) in ds.iter().enumerate() {
        out.push_str(&render_module(d, &k.to_string()));
    }
    out.push_str(CHILDREN);
    out.push_str(&used_children(ds));
    out
}

// ---------------------------------------------------------------------------------------------
// reference bit graph
// ---------------------------------------------------------------------------------------------

type Deps = BTreeSet<Bit>;
/// Symbolic state of a block: for each bit, `Some(deps)` once written on the current path.
type Env = [Option<Deps>; NBITS];

fn rd(env: &Env, b: Bit) -> Deps {
    match &env[b as usize] {
        Some(d) => d.clone(),
        None => [b].into_iter().collect(),
    }
}

/// Dependencies of each destination bit (low bit first for a two-bit destination).
fn eval_expr(e: E, env: &Env, width: usize) -> Vec<Deps> {
    let one = |d: Deps| -> Vec<Deps> {
        // a one-bit value written to a two-bit destination is zero extended: the high bit is a
        // constant.  (Not generated; kept for completeness.)
        let mut v = vec![d];
        while v.len() < width {
            v.push(Deps::new());
        }
        v
    };
    match e {
        E::Const | E::In => vec![Deps::new(); width],
        E::Bit(b) => one(rd(env, b)),
        E::And(x, y) => {
            let mut d = rd(env, x);
            d.extend(rd(env, y));
            one(d)
        }
        E::AndIn(x) => one(rd(env, x)),
        E::RedOr(v) => {
            let mut d = Deps::new();
            for b in var_bits(v) {
                d.extend(rd(env, b));
            }
            one(d)
        }
        E::Call(b) => one(rd(env, b)),
        E::Tern(s, x, y) => {
            let mut d = rd(env, s);
            d.extend(rd(env, x));
            d.extend(rd(env, y));
            one(d)
        }
        E::Full(v) => var_bits(v).into_iter().map(|b| rd(env, b)).collect(),
        E::Cat(h, l) => vec![rd(env, l), rd(env, h)],
        E::Range(lo, len) => (5 + lo..5 + lo + len).map(|b| rd(env, b)).collect(),
    }
}

/// Runs a statement list; `ctrl` = bits the enclosing conditions depend on.  Returns false if
/// the block is not latch-free (a bit written in one arm only and not before the `if`).
fn run_block(body: &[S], env: &mut Env, ctrl: &Deps) -> bool {
    for s in body {
        match s {
            S::Asg(d, e) => {
                let bits = d.bits();
                let vals = eval_expr(*e, env, bits.len());
                for (b, mut v) in bits.into_iter().zip(vals) {
                    v.extend(ctrl.iter().copied());
                    env[b as usize] = Some(v);
                }
            }
            S::If { cond, t, e } => {
                let mut c2 = ctrl.clone();
                if let Cond::Bit(b) = cond {
                    c2.extend(rd(env, *b));
                }
                let mut et = env.clone();
                let mut ee = env.clone();
                if !run_block(t, &mut et, &c2) || !run_block(e, &mut ee, &c2) {
                    return false;
                }
                for b in 0..NBITS {
                    env[b] = match (et[b].take(), ee[b].take()) {
                        (Some(x), Some(y)) => {
                            let mut u = x;
                            u.extend(y);
                            Some(u)
                        }
                        (None, None) => None,
                        // written in one arm only and not before the if: a latch
                        _ => return false,
                    };
                }
            }
        }
    }
    true
}

#[derive(Clone, Debug, Default)]
struct RefInfo {
    /// edges src -> dst
    edges: BTreeSet<(Bit, Bit)>,
    cyclic: bool,
    /// bits on some cycle
    on_cycle: BTreeSet<Bit>,
    /// not latch-free or multiply driven: outside the family
    invalid: bool,
    /// number of comb edges whose source is a driven bit (candidate feedback edges)
    candidates: usize,
}

fn driven_bits(p: &P) -> BTreeSet<Bit> {
    fn stmts(b: &[S], out: &mut BTreeSet<Bit>) {
        for s in b {
            match s {
                S::Asg(d, _) => out.extend(d.bits()),
                S::If { t, e, .. } => {
                    stmts(t, out);
                    stmts(e, out);
                }
            }
        }
    }
    let mut out = BTreeSet::new();
    match p {
        P::Assign(d, _) | P::Ff(d, _) => out.extend(d.bits()),
        P::Comb(b) => stmts(b, &mut out),
        P::Inst { out: o, .. } => {
            out.insert(*o);
        }
        P::InstVec { o, .. } => out.extend(var_bits(*o)),
        P::Inst2 { outs, .. } => out.extend(outs.iter().copied()),
    }
    out
}

fn reference(d: &Design) -> RefInfo {
    let mut info = RefInfo::default();
    let mut driven: BTreeSet<Bit> = BTreeSet::new();
    for p in &d.procs {
        let db = driven_bits(p);
        if db.iter().any(|b| driven.contains(b)) {
            info.invalid = true;
        }
        driven.extend(db);
        let mut env: Env = Default::default();
        match p {
            P::Assign(dst, e) => {
                if !run_block(&[S::Asg(*dst, *e)], &mut env, &Deps::new()) {
                    info.invalid = true;
                }
            }
            P::Comb(b) => {
                if !run_block(b, &mut env, &Deps::new()) {
                    info.invalid = true;
                }
            }
            P::Ff(..) => {}
            P::InstVec { i, o } => {
                for (s, t) in var_bits(*i).into_iter().zip(var_bits(*o)) {
                    env[t as usize] = Some([s].into_iter().collect());
                }
            }
            P::Inst { kind, ins, out } => match kind {
                Child::Ft | Child::Pf => {
                    env[*out as usize] = Some([ins[0]].into_iter().collect());
                }
                Child::Reg | Child::Konst => {}
                Child::M21(m) => {
                    env[*out as usize] = Some((0..2).filter(|k| m >> k & 1 == 1).map(|k| ins[k]).collect());
                }
            },
            P::Inst2 { m, ins, outs } => {
                if outs[0] == outs[1] {
                    info.invalid = true;
                }
                for j in 0..2 {
                    let mask = m >> (2 * j) & 3;
                    env[outs[j] as usize] = Some((0..2).filter(|k| mask >> k & 1 == 1).map(|k| ins[k]).collect());
                }
            }
        }
        for (b, v) in env.iter().enumerate() {
            if let Some(v) = v {
                for s in v {
                    info.edges.insert((*s, b as Bit));
                }
            }
        }
    }
    info.candidates = info.edges.iter().filter(|(s, _)| driven.contains(s)).count();
    // cycle detection: transitive closure on 5 nodes
    let mut reach = [[false; NBITS]; NBITS];
    for (s, t) in &info.edges {
        reach[*s as usize][*t as usize] = true;
    }
    for k in 0..NBITS {
        for i in 0..NBITS {
            for j in 0..NBITS {
                if reach[i][k] && reach[k][j] {
                    reach[i][j] = true;
                }
            }
        }
    }
    for i in 0..NBITS {
        if reach[i][i] {
            info.cyclic = true;
            info.on_cycle.insert(i as Bit);
        }
    }
    info
}

// ---------------------------------------------------------------------------------------------
// process menus and families
// ---------------------------------------------------------------------------------------------

/// All processes that drive exactly the target `t` (a single bit), reading from `srcs`.
fn ring_procs(t: Bit, srcs: &[Bit]) -> Vec<P> {
    let d = Dst::Bit(t);
    let mut v = vec![P::Assign(d, E::Const)];
    for &s in srcs {
        v.push(P::Assign(d, E::Bit(s)));
        v.push(P::Inst { kind: Child::Ft, ins: vec![s], out: t });
        v.push(P::Inst { kind: Child::Reg, ins: vec![s], out: t });
        v.push(P::Comb(vec![S::If {
            cond: Cond::Bit(s),
            t: vec![S::Asg(d, E::In)],
            e: vec![S::Asg(d, E::Const)],
        }]));
    }
    for (i, &s) in srcs.iter().enumerate() {
        for &s2 in &srcs[i + 1..] {
            v.push(P::Assign(d, E::And(s, s2)));
        }
    }
    v
}

/// The classes the maintainers record as inexact, reached on purpose (each member is still
/// compared with the exact bit graph; the disagreements carry their own signatures).
fn known_positional() -> Vec<P> {
    // always_comb { d[5:1] = d[4:0]; d[0] = <x>; }  — a bit chain, cyclic only for x = d[5]
    let mut v = vec![];
    for x in [E::Const, E::In, E::Bit(10), E::Bit(7), E::Bit(5)] {
        v.push(P::Comb(vec![
            S::Asg(Dst::Range(1, 5), E::Range(0, 5)),
            S::Asg(Dst::Bit(5), x),
        ]));
        v.push(P::Comb(vec![
            S::Asg(Dst::Bit(5), x),
            S::Asg(Dst::Range(1, 5), E::Range(0, 5)),
        ]));
    }
    v
}

fn single_target_procs(t: Bit, srcs: &[Bit], level: u8) -> Vec<P> {
    let mut v = vec![];
    let d = Dst::Bit(t);
    v.push(P::Assign(d, E::Const));
    v.push(P::Assign(d, E::In));
    for &s in srcs {
        v.push(P::Assign(d, E::Bit(s)));
        v.push(P::Assign(d, E::Call(s)));
        v.push(P::Assign(d, E::AndIn(s)));
        v.push(P::Inst { kind: Child::Ft, ins: vec![s], out: t });
        v.push(P::Inst { kind: Child::Reg, ins: vec![s], out: t });
        v.push(P::Ff(d, E::Bit(s)));
        // condition dependency
        v.push(P::Comb(vec![S::If {
            cond: Cond::Bit(s),
            t: vec![S::Asg(d, E::In)],
            e: vec![S::Asg(d, E::Const)],
        }]));
        // pre-assignment, then a conditional overwrite
        v.push(P::Comb(vec![
            S::Asg(d, E::Const),
            S::If {
                cond: Cond::Free,
                t: vec![S::Asg(d, E::Bit(s))],
                e: vec![],
            },
        ]));
        // overwrite kills the first source
        v.push(P::Comb(vec![S::Asg(d, E::Bit(s)), S::Asg(d, E::In)]));
        if level >= 1 {
            v.push(P::Inst { kind: Child::Konst, ins: vec![s], out: t });
            // reads its own earlier write, not the module-level bit
            v.push(P::Comb(vec![S::Asg(d, E::Bit(s)), S::Asg(d, E::AndIn(t))]));
        }
    }
    for (i, &s) in srcs.iter().enumerate() {
        for &s2 in &srcs[i + 1..] {
            v.push(P::Assign(d, E::And(s, s2)));
            v.push(P::Comb(vec![S::If {
                cond: Cond::Free,
                t: vec![S::Asg(d, E::Bit(s))],
                e: vec![S::Asg(d, E::Bit(s2))],
            }]));
            if level >= 1 {
                v.push(P::Inst { kind: Child::Pf, ins: vec![s, s2], out: t });
                v.push(P::Inst { kind: Child::Pf, ins: vec![s2, s], out: t });
                for m in [2u8, 3] {
                    v.push(P::Inst { kind: Child::M21(m), ins: vec![s, s2], out: t });
                    v.push(P::Inst { kind: Child::M21(m), ins: vec![s2, s], out: t });
                }
                v.push(P::Assign(d, E::Tern(s, s2, s2)));
            }
        }
    }
    for var in 0..2u8 {
        v.push(P::Assign(d, E::RedOr(var)));
    }
    v
}

/// Processes that drive a whole two-bit variable `v` (0 = a, 1 = b); `o` = the other one.
fn full_target_procs(v: Var, level: u8) -> Vec<P> {
    let o = 1 - v;
    let bits = var_bits(v);
    let (lo, hi) = (bits[0], bits[1]);
    let ob = var_bits(o);
    let d = Dst::Full(v);
    let mut out = vec![
        P::Assign(d, E::Const),
        P::Assign(d, E::Full(o)),
        P::Assign(d, E::Full(v)),
        P::Assign(d, E::Cat(lo, hi)),
        P::Assign(d, E::Cat(hi, lo)),
        P::Assign(d, E::Cat(ob[1], lo)),
        P::Assign(d, E::Cat(lo, ob[0])),
        // o = 0; o[0] = o[1]; o[1] = o[0];  (acyclic: each read sees the latest write)
        P::Comb(vec![
            S::Asg(d, E::Const),
            S::Asg(Dst::Bit(lo), E::Bit(hi)),
            S::Asg(Dst::Bit(hi), E::Bit(lo)),
        ]),
        // o[0] = o[1]; o[1] = o[0];  (first read sees the module-level bit)
        P::Comb(vec![
            S::Asg(Dst::Bit(lo), E::Bit(hi)),
            S::Asg(Dst::Bit(hi), E::Bit(lo)),
        ]),
        // o[1] = o[0]; o[0] = in;   (read before write of the own output, no return path)
        P::Comb(vec![
            S::Asg(Dst::Bit(hi), E::Bit(lo)),
            S::Asg(Dst::Bit(lo), E::In),
        ]),
        // o[0] = in; o[1] = o[0];
        P::Comb(vec![
            S::Asg(Dst::Bit(lo), E::In),
            S::Asg(Dst::Bit(hi), E::Bit(lo)),
        ]),
        // whole copy then one bit overwritten
        P::Comb(vec![
            S::Asg(d, E::Full(o)),
            S::Asg(Dst::Bit(lo), E::In),
        ]),
        P::Comb(vec![
            S::Asg(d, E::Full(v)),
            S::Asg(Dst::Bit(lo), E::In),
            S::Asg(Dst::Bit(hi), E::In),
        ]),
    ];
    if level >= 1 {
        out.extend([
            // if k { v = o } else { v = {o[0], o[1]} }
            P::Comb(vec![S::If {
                cond: Cond::Free,
                t: vec![S::Asg(d, E::Full(o))],
                e: vec![S::Asg(d, E::Cat(ob[0], ob[1]))],
            }]),
            // condition reads the own output
            P::Comb(vec![S::If {
                cond: Cond::Bit(lo),
                t: vec![S::Asg(d, E::Const)],
                e: vec![S::Asg(d, E::Full(o))],
            }]),
            // conditional self reference in one arm
            P::Comb(vec![S::If {
                cond: Cond::Free,
                t: vec![S::Asg(d, E::Full(o))],
                e: vec![S::Asg(d, E::Full(v))],
            }]),
            // pre-assign, then conditional self reference: not a loop
            P::Comb(vec![
                S::Asg(d, E::Const),
                S::If {
                    cond: Cond::Free,
                    t: vec![S::Asg(d, E::Full(o))],
                    e: vec![S::Asg(d, E::Full(v))],
                },
            ]),
            P::Ff(d, E::Full(o)),
            P::Ff(d, E::Full(v)),
        ]);
    }
    out
}

/// always_comb blocks that drive two bits of different variables.
fn two_target_procs(t1: Bit, t2: Bit, srcs: &[Bit]) -> Vec<P> {
    let d1 = Dst::Bit(t1);
    let d2 = Dst::Bit(t2);
    let mut v = vec![];
    for &s in srcs {
        // forward: t1 = s; t2 = t1   (t2 sees the new t1)
        v.push(P::Comb(vec![S::Asg(d1, E::Bit(s)), S::Asg(d2, E::Bit(t1))]));
        // backward: t2 = t1; t1 = s  (t2 sees the module-level t1)
        v.push(P::Comb(vec![S::Asg(d2, E::Bit(t1)), S::Asg(d1, E::Bit(s))]));
        // independent statements of one block must not be tied together
        v.push(P::Comb(vec![S::Asg(d1, E::Bit(s)), S::Asg(d2, E::In)]));
        v.push(P::Comb(vec![S::If {
            cond: Cond::Free,
            t: vec![S::Asg(d1, E::Bit(s)), S::Asg(d2, E::Const)],
            e: vec![S::Asg(d1, E::Const), S::Asg(d2, E::Bit(s))],
        }]));
    }
    v
}

/// Every ordered pair of distinct bits of `srcs`.
fn ordered_pairs(srcs: &[Bit]) -> Vec<[Bit; 2]> {
    let mut v = vec![];
    for &x in srcs {
        for &y in srcs {
            if x != y {
                v.push([x, y]);
            }
        }
    }
    v
}

/// Instances of every two-input one-output child (all 4 transfers) that drive `t`, inputs
/// connected to every ordered pair of `srcs`.
fn m21_procs(t: Bit, srcs: &[Bit]) -> Vec<P> {
    let mut v = vec![];
    for m in 0..4u8 {
        for ins in ordered_pairs(srcs) {
            v.push(P::Inst { kind: Child::M21(m), ins: ins.to_vec(), out: t });
        }
    }
    v
}

/// Instances of every two-input two-output child (all 16 transfer matrices) that drive `t0`, `t1`.
fn m22_procs(t0: Bit, t1: Bit, srcs: &[Bit]) -> Vec<P> {
    let mut v = vec![];
    for m in 0..16u8 {
        for ins in ordered_pairs(srcs) {
            v.push(P::Inst2 { m, ins, outs: [t0, t1] });
        }
    }
    v
}

struct Family {
    /// (name, processes of slot 1, processes of slot 2, processes of slot 3)
    subs: Vec<(String, Vec<Vec<P>>)>,
}

fn family(thorough: bool) -> Family {
    let level = if thorough { 1 } else { 0 };
    let all: Vec<Bit> = vec![0, 1, 2, 3, 4];
    let st = |t: Bit| single_target_procs(t, &all, level);
    let mut subs: Vec<(String, Vec<Vec<P>>)> = vec![];
    // enumerated two-input children (first: their chunks lead every round of the interleaved
    // order).  One process: loops closed directly at the instance, through either input.
    let srcs3: Vec<Bit> = vec![0, 2, 4];
    let mut inst2 = m21_procs(0, &all);
    inst2.extend(m22_procs(0, 2, &all));
    subs.push(("one_inst2".into(), vec![inst2]));
    // two processes: the feedback returns through another process
    subs.push(("two_m21_a0_b0".into(), vec![m21_procs(0, &all), ring_procs(2, &all)]));
    // (quick: inputs and the third process restricted to one bit per variable)
    let pair_srcs = if thorough { &all } else { &srcs3 };
    subs.push(("two_m22_a0b0_c".into(), vec![m22_procs(0, 2, pair_srcs), ring_procs(4, pair_srcs)]));
    // two instances feeding each other
    subs.push(("two_m21_a0_m21_b0".into(), vec![m21_procs(0, pair_srcs), m21_procs(2, pair_srcs)]));
    // one process: only self loops
    let mut one = vec![];
    for t in [0u8, 1, 4] {
        one.extend(st(t));
    }
    for v in 0..2u8 {
        one.extend(full_target_procs(v, 1));
    }
    one.extend(two_target_procs(0, 2, &all));
    one.extend(two_target_procs(1, 4, &all));
    subs.push(("one".into(), vec![one]));
    // two processes, targets: two bits of the same variable / bits of different variables
    for (name, t1, t2) in [("two_a0_a1", 0u8, 1u8), ("two_a0_b0", 0, 2), ("two_a1_b0", 1, 2), ("two_a1_c", 1, 4)] {
        if !thorough && name == "two_a1_b0" {
            continue;
        }
        subs.push((name.into(), vec![st(t1), st(t2)]));
    }
    // whole variable against single bits / whole variable
    subs.push(("two_fullA_b1".into(), vec![full_target_procs(0, level), st(3)]));
    subs.push(("two_fullA_fullB".into(), vec![full_target_procs(0, 1), full_target_procs(1, 1)]));
    subs.push(("two_pairblock_b1".into(), vec![two_target_procs(0, 2, &all), st(3)]));
    if thorough {
        subs.push(("two_pairblock_a1".into(), vec![two_target_procs(0, 2, &all), st(1)]));
        subs.push(("two_fullB_a0".into(), vec![full_target_procs(1, level), st(0)]));
    }
    // three processes: a ring needs every process to read another one's bit
    if thorough {
        let st3 = |t: Bit| single_target_procs(t, &srcs3, 0);
        subs.push(("three_a0_b0_c".into(), vec![st3(0), st3(2), st3(4)]));
        let srcs3b: Vec<Bit> = vec![0, 1, 3];
        let st3b = |t: Bit| single_target_procs(t, &srcs3b, 0);
        subs.push(("three_a0_a1_b1".into(), vec![st3b(0), st3b(1), st3b(3)]));
    } else {
        let r3 = |t: Bit| ring_procs(t, &srcs3);
        subs.push(("three_a0_b0_c".into(), vec![r3(0), r3(2), r3(4)]));
    }
    // acknowledged-inexact classes, reached on purpose
    subs.push(("known_positional".into(), vec![known_positional()]));
    let back: Vec<P> = [0u8, 1]
        .into_iter()
        .flat_map(|x| [2u8, 3].into_iter().map(move |y| (x, y)))
        .map(|(x, y)| {
            P::Comb(vec![
                S::Asg(Dst::Bit(x), E::Bit(y)),
                S::Asg(Dst::Bit(1 - x), E::In),
            ])
        })
        .collect();
    subs.push((
        "known_vector_module".into(),
        vec![vec![P::InstVec { i: 0, o: 1 }], back],
    ));
    Family { subs }
}

fn sub_size(slots: &[Vec<P>]) -> u64 {
    slots.iter().map(|s| s.len() as u64).product()
}

fn member(slots: &[Vec<P>], mut idx: u64) -> Design {
    let mut procs = vec![];
    for s in slots.iter().rev() {
        let n = s.len() as u64;
        procs.push(s[(idx % n) as usize].clone());
        idx /= n;
    }
    procs.reverse();
    Design { procs }
}

// ---------------------------------------------------------------------------------------------
// validation against the repository's own (non-ignored) tests
// ---------------------------------------------------------------------------------------------

#[rustfmt::skip]
fn pinned_tests() -> Vec<(&'static str, Design, bool)> {
    let a0 = 0u8; let a1 = 1u8; let b0 = 2u8; let b1 = 3u8; let c = 4u8;
    let bit = |b| Dst::Bit(b);
    let asg = |d, e| S::Asg(d, e);
    let dz = |procs: Vec<P>| Design { procs };
    vec![
        ("2-block ring: assign b = c & a; assign c = b", dz(vec![P::Assign(bit(b0), E::And(c, a0)), P::Assign(bit(c), E::AndIn(b0))]), true),
        ("FF-broken feedback: assign b = y; always_ff y = b", dz(vec![P::Assign(bit(b0), E::Bit(c)), P::Ff(bit(c), E::Bit(b0))]), false),
        ("disjoint partial write self reference a[1] = a[0]", dz(vec![P::Comb(vec![asg(bit(a0), E::Const)]), P::Comb(vec![asg(bit(a1), E::Bit(a0))])]), false),
        ("continuous assign self reference", dz(vec![P::Assign(Dst::Full(0), E::Full(0))]), true),
        ("conditional self reference in one branch", dz(vec![P::Comb(vec![S::If { cond: Cond::Free, t: vec![asg(bit(a0), E::In)], e: vec![asg(bit(a0), E::AndIn(a0))] }])]), true),
        ("procedural overwrite: a = 0; a = a & in", dz(vec![P::Comb(vec![asg(bit(a0), E::Const), asg(bit(a0), E::AndIn(a0))])]), false),
        ("both branches assign x with no self read", dz(vec![P::Comb(vec![S::If { cond: Cond::Free, t: vec![asg(bit(a0), E::In)], e: vec![asg(bit(a0), E::Bit(b0))] }])]), false),
        ("pre-assign before conditional self reference", dz(vec![P::Comb(vec![asg(bit(a0), E::Const), S::If { cond: Cond::Free, t: vec![asg(bit(a0), E::In)], e: vec![asg(bit(a0), E::AndIn(a0))] }])]), false),
        ("bit-disjoint feedback: a[0] = c; c = a[1]", dz(vec![P::Assign(bit(a0), E::Bit(c)), P::Assign(bit(a1), E::In), P::Assign(bit(c), E::Bit(a1))]), false),
        ("dst-side bit-disjoint writes through instances", dz(vec![P::Inst { kind: Child::Ft, ins: vec![a0], out: b0 }, P::Inst { kind: Child::Pf, ins: vec![b0, c], out: b1 }, P::Comb(vec![asg(bit(a0), E::Const), asg(bit(a1), E::Bit(b1))])]), false),
        ("ModuleCOk2 with its two-input child `x = a & ~b`", dz(vec![P::Inst { kind: Child::Ft, ins: vec![a0], out: b0 }, P::Inst { kind: Child::M21(3), ins: vec![c, b0], out: b1 }, P::Comb(vec![asg(bit(a0), E::Const), asg(bit(a1), E::Bit(b1))])]), false),
        ("src-side bit-disjoint reads in one block", dz(vec![P::Comb(vec![asg(bit(b0), E::Bit(a0)), asg(bit(b1), E::Bit(a1))]), P::Comb(vec![asg(bit(a0), E::In), asg(bit(a1), E::Bit(b0))])]), false),
        ("read before write observes the entry value: c = b; b = a", dz(vec![P::Comb(vec![asg(bit(c), E::Bit(b0)), asg(bit(b0), E::In)])]), false),
        ("opposite directions on disjoint bits", dz(vec![P::Comb(vec![asg(bit(a0), E::In), asg(bit(b0), E::Bit(a0)), asg(bit(b1), E::In), asg(bit(a1), E::Bit(b1))])]), false),
        ("o = 0; o[0] = o[1]; o[1] = o[0] is acyclic", dz(vec![P::Comb(vec![asg(Dst::Full(0), E::Const), asg(bit(a0), E::Bit(a1)), asg(bit(a1), E::Bit(a0))])]), false),
        ("explicit self read remains feedback: o[0] = o[1]; o[1] = o[0]", dz(vec![P::Comb(vec![asg(bit(a0), E::Bit(a1)), asg(bit(a1), E::Bit(a0))])]), true),
        ("identical ternary arms keep the control dependence", dz(vec![P::Assign(bit(c), E::Tern(c, a0, a0)), P::Assign(bit(a0), E::Const)]), true),
        ("concatenation permutation preserves structural feedback", dz(vec![P::Comb(vec![asg(Dst::Full(0), E::Cat(a0, a1))])]), true),
        ("module instance feed-through closes a loop", dz(vec![P::Inst { kind: Child::Ft, ins: vec![a0], out: b0 }, P::Assign(bit(a0), E::Bit(b0))]), true),
        ("module instance with registered output does not", dz(vec![P::Inst { kind: Child::Reg, ins: vec![a0], out: b0 }, P::Assign(bit(a0), E::Bit(b0))]), false),
        ("condition driven loop is reported", dz(vec![P::Comb(vec![S::If { cond: Cond::Bit(b0), t: vec![asg(bit(a0), E::In)], e: vec![asg(bit(a0), E::Const)] }]), P::Assign(bit(b0), E::Bit(a0))]), true),
        ("function call carries its argument", dz(vec![P::Assign(bit(a0), E::Call(b0)), P::Assign(bit(b0), E::Bit(a0))]), true),
        ("function call of another bit does not", dz(vec![P::Assign(bit(a0), E::Call(b1)), P::Assign(bit(b0), E::Bit(a0))]), false),
    ]
}

// ---------------------------------------------------------------------------------------------
// comparison
// ---------------------------------------------------------------------------------------------

const GENERATOR_BUG_CODES: &[&str] = &[
    "undefined_identifier",
    "mismatch_type",
    "invalid_assignment",
    "invalid_select",
    "unknown_member",
    "unknown_port",
    "missing_port",
    "mismatch_assignment",
    "referring_before_definition",
    "invalid_statement",
    "invalid_direction",
    "too_much_select",
    "out_of_range",
    "unevaluable_value",
    "multiple_assignment",
    "uncovered_branch",
    "mismatch_function_arity",
    "missing_clock_signal",
    "missing_reset_signal",
];

/// module tag of a diagnostic identifier `a12[0]` / `c3`.
fn ident_tag(ident: &str) -> Option<String> {
    let name: &str = ident.split(|c| c == '[' || c == '.').next().unwrap_or("");
    let first = name.chars().next()?;
    if !matches!(first, 'a' | 'b' | 'c' | 'd') {
        return None;
    }
    let tag = &name[1..];
    if !tag.chars().all(|c| c.is_ascii_digit()) {
        return None;
    }
    Some(tag.to_string())
}

fn loop_reported(diags: &[gen_abs::Diag], tag: &str) -> bool {
    diags
        .iter()
        .any(|d| d.code == "combinational_loop" && ident_tag(&d.ident).as_deref() == Some(tag))
}

fn batch_usable(diags: &[gen_abs::Diag]) -> bool {
    diags.iter().all(|d| {
        !GENERATOR_BUG_CODES.contains(&d.code.as_str())
            && (d.code != "combinational_loop" || ident_tag(&d.ident).is_some())
    })
}

fn construct_names(d: &Design) -> BTreeSet<&'static str> {
    fn e_name(e: &E, out: &mut BTreeSet<&'static str>) {
        match e {
            E::Call(_) => {
                out.insert("function");
            }
            E::Tern(..) => {
                out.insert("ternary");
            }
            E::RedOr(_) => {
                out.insert("reduction");
            }
            E::Cat(..) => {
                out.insert("concat");
            }
            E::Full(_) => {
                out.insert("whole-variable");
            }
            E::Range(..) => {
                out.insert("positional-range-copy");
            }
            _ => {}
        }
    }
    fn s_name(s: &S, out: &mut BTreeSet<&'static str>) {
        match s {
            S::Asg(_, e) => e_name(e, out),
            S::If { cond, t, e } => {
                out.insert(if matches!(cond, Cond::Bit(_)) { "if-on-variable" } else { "if" });
                for x in t.iter().chain(e.iter()) {
                    s_name(x, out);
                }
            }
        }
    }
    let mut out = BTreeSet::new();
    for p in &d.procs {
        match p {
            P::Assign(_, e) => {
                out.insert("assign");
                e_name(e, &mut out);
            }
            P::Ff(_, e) => {
                out.insert("always_ff");
                e_name(e, &mut out);
            }
            P::Comb(b) => {
                out.insert(if b.len() > 1 { "always_comb-sequence" } else { "always_comb" });
                for s in b {
                    s_name(s, &mut out);
                }
            }
            P::InstVec { .. } => {
                out.insert("inst-vector-feedthrough");
            }
            P::Inst { kind, .. } => {
                out.insert(match kind {
                    Child::Ft => "inst-feedthrough",
                    Child::Reg => "inst-registered",
                    Child::Konst => "inst-constant",
                    Child::Pf => "inst-partial-feedthrough",
                    Child::M21(_) => "inst-2in-1out-child",
                });
            }
            P::Inst2 { .. } => {
                out.insert("inst-2in-2out-child");
            }
        }
    }
    out
}

/// Signature of a disagreement: direction + the constructs on the (reference) cycle's processes
/// for a miss, or all constructs of the design for a false positive.
fn classify(d: &Design, info: &RefInfo, fp: bool) -> String {
    let dir = if fp { "false-positive" } else { "miss" };
    let sub = if fp {
        d.clone()
    } else {
        Design {
            procs: d
                .procs
                .iter()
                .filter(|p| driven_bits(p).iter().any(|b| info.on_cycle.contains(b)))
                .cloned()
                .collect(),
        }
    };
    let names = construct_names(&sub);
    // constructs of the classes the maintainers list as inexact name the class on their own
    for (construct, class) in [
        ("positional-range-copy", "positional-range-copy"),
        ("inst-vector-feedthrough", "multi-bit-module-feedthrough"),
    ] {
        if names.contains(construct) {
            return format!("C14:{dir}:{class}");
        }
    }
    format!("C14:{dir}:{}", names.into_iter().collect::<Vec<_>>().join("+"))
}

struct Outcome {
    text: String,
    res: Analysis,
}

fn eval_single(d: &Design, with_sim: bool) -> Outcome {
    let text = render(d);
    let res = if with_sim {
        gen_abs::analyze_with(
            &text,
            Some(SimLeg {
                top: "Top",
                ignore_codes: &[],
            }),
        )
    } else {
        gen_abs::analyze(&text)
    };
    Outcome { text, res }
}

const BATCH: usize = 16;
const CHUNK: u64 = 1024;

enum Item {
    Agree { info: RefInfo, obs: bool },
    Single { info: RefInfo, out: Outcome, batch_obs: Option<bool> },
    /// outside the family (multiply driven / latch): not analysed
    Invalid,
}

fn eval_batch(ds: &[Design]) -> Vec<Item> {
    let infos: Vec<RefInfo> = ds.iter().map(reference).collect();
    let valid: Vec<usize> = (0..ds.len()).filter(|i| !infos[*i].invalid).collect();
    let vds: Vec<Design> = valid.iter().map(|i| ds[*i].clone()).collect();
    let res = if vds.is_empty() {
        None
    } else {
        Some(gen_abs::analyze(&render_batch(&vds)))
    };
    let diags = match &res {
        Some(Analysis::Done { diags, .. }) if batch_usable(diags) => Some(diags),
        _ => None,
    };
    let mut pos_of = BTreeMap::new();
    for (k, i) in valid.iter().enumerate() {
        pos_of.insert(*i, k);
    }
    infos
        .into_iter()
        .enumerate()
        .map(|(i, info)| {
            let Some(k) = pos_of.get(&i) else {
                return Item::Invalid;
            };
            match diags {
                Some(diags) => {
                    let obs = loop_reported(diags, &k.to_string());
                    if obs == info.cyclic {
                        Item::Agree { info, obs }
                    } else {
                        // a reported miss also gets the simulator's opinion
                        let out = eval_single(&ds[i], info.cyclic);
                        Item::Single { info, out, batch_obs: Some(obs) }
                    }
                }
                None => Item::Single {
                    info,
                    out: eval_single(&ds[i], false),
                    batch_obs: None,
                },
            }
        })
        .collect()
}

pub fn run(ctx: &Ctx) -> Report {
    let mut rep = Report::new(Level::Exploration);
    install_quiet_panic_hook();
    let budget = ctx.budget(40.0, 1100.0);
    let fam = family(ctx.thorough());

    if std::env::var("VMC_C14_COUNT").is_ok() {
        for (name, slots) in &fam.subs {
            eprintln!("{name}: {} ({:?})", sub_size(slots), slots.iter().map(|s| s.len()).collect::<Vec<_>>());
        }
        eprintln!("total: {}", fam.subs.iter().map(|x| sub_size(&x.1)).sum::<u64>());
    }

    // ---- stage 0: transcribed repository tests -------------------------------------------------
    let pins = pinned_tests();
    let pin_out = par_map(&pins, |(_, d, _)| (reference(d), eval_single(d, false)));
    let mut pins_ok = 0u64;
    for ((name, _, expect), (info, o)) in pins.iter().zip(pin_out) {
        let ok_ref = !info.invalid && info.cyclic == *expect;
        let (ok_an, txt) = match &o.res {
            Analysis::Done { diags, .. } => {
                let bad = diags.iter().find(|x| GENERATOR_BUG_CODES.contains(&x.code.as_str()));
                let obs = loop_reported(diags, "");
                (bad.is_none() && obs == *expect, format!("loop={obs} rejected={:?}", bad.map(|b| &b.msg)))
            }
            x => (false, format!("{x:?}")),
        };
        if ok_ref && ok_an {
            pins_ok += 1;
        } else {
            rep.machinery(format!(
                "pinned repo test `{name}` (loop expected: {expect}) not reproduced: reference_ok={ok_ref} (cyclic={} invalid={} edges={:?}) analyzer_ok={ok_an} ({txt}) on\n{}",
                info.cyclic, info.invalid, info.edges, o.text
            ));
        }
    }
    rep.set("repo_tests_transcribed", pins.len() as u64);
    rep.set("repo_tests_reproduced_by_reference_and_analyzer", pins_ok);

    // ---- stage 1: the family -------------------------------------------------------------------
    let mut per_sub: Vec<std::collections::VecDeque<(usize, u64, u64)>> = vec![];
    for (si, (_, slots)) in fam.subs.iter().enumerate() {
        let n = sub_size(slots);
        let mut q = std::collections::VecDeque::new();
        let mut a = 0;
        while a < n {
            let b = (a + CHUNK).min(n);
            q.push_back((si, a, b));
            a = b;
        }
        per_sub.push(q);
    }
    let mut chunks: Vec<(usize, u64, u64)> = vec![];
    loop {
        let mut any = false;
        for q in per_sub.iter_mut() {
            if let Some(c) = q.pop_front() {
                chunks.push(c);
                any = true;
            }
        }
        if !any {
            break;
        }
    }
    let order = gen_abs::shard_order(chunks.len(), ctx.seed);

    let mut evaluations = 0u64;
    let mut nontrivial = 0u64;
    let mut invalid = 0u64;
    let mut skipped = Histo::default();
    let mut verdicts = Histo::default();
    let mut per_family = Histo::default();
    let mut panics = 0u64;
    let mut singles = 0u64;
    let mut batch_differs = 0u64;
    let mut sim_backup = Histo::default();
    let mut capped = false;
    let mut chunks_done = 0usize;
    let mut viol_per_sig: BTreeMap<String, u64> = BTreeMap::new();
    let mut samples = 0;

    let mut pos = 0usize;
    while pos < order.len() {
        if ctx.elapsed() > budget {
            capped = true;
            break;
        }
        let mut groups: Vec<(usize, u64, u64)> = vec![];
        let mut n_designs = 0u64;
        let round = if ctx.thorough() { 4 * CHUNK } else { CHUNK };
        while pos < order.len() && n_designs < round {
            let (si, a, b) = chunks[order[pos]];
            let mut i = a;
            while i < b {
                let j = (i + BATCH as u64).min(b);
                groups.push((si, i, j));
                i = j;
            }
            n_designs += b - a;
            pos += 1;
            chunks_done += 1;
        }
        let outs = par_map(&groups, |(si, a, b)| {
            let ds: Vec<Design> = (*a..*b).map(|i| member(&fam.subs[*si].1, i)).collect();
            let items = eval_batch(&ds);
            (ds, items)
        });
        for ((si, _, _), (ds, items)) in groups.iter().zip(outs) {
            let name = &fam.subs[*si].0;
            for (d, item) in ds.iter().zip(items) {
                let (info, obs, single) = match item {
                    Item::Invalid => {
                        invalid += 1;
                        continue;
                    }
                    Item::Agree { info, obs } => (info, obs, None),
                    Item::Single { info, out, batch_obs } => {
                        singles += 1;
                        let (diags, sim) = match &out.res {
                            Analysis::ParseError(e) => {
                                skipped.add("parse_error");
                                if skipped.get("parse_error") <= 2 {
                                    rep.notes.push(format!("parse error: {e} in\n{}", out.text));
                                }
                                continue;
                            }
                            Analysis::Panic(p) => {
                                panics += 1;
                                if panics <= 3 {
                                    rep.machinery(format!(
                                        "analyzer panicked ({p}) at {:?} on\n{}",
                                        take_panic_loc(),
                                        out.text
                                    ));
                                }
                                continue;
                            }
                            Analysis::Done { diags, sim } => (diags.clone(), sim.clone()),
                        };
                        if let Some(bad) = diags
                            .iter()
                            .find(|x| GENERATOR_BUG_CODES.contains(&x.code.as_str()))
                        {
                            skipped.add(&format!("rejected:{}", bad.code));
                            if skipped.0.values().sum::<u64>() <= 3 {
                                rep.notes.push(format!("generator bug? {} in\n{}", bad.msg, out.text));
                            }
                            continue;
                        }
                        let obs = loop_reported(&diags, "");
                        if let Some(b) = batch_obs {
                            if b != obs {
                                batch_differs += 1;
                                if batch_differs <= 3 {
                                    rep.machinery(format!(
                                        "the stand-alone analysis of a module differs from its analysis inside a batch text: alone loop={obs} / in batch loop={b} for\n{}",
                                        out.text
                                    ));
                                }
                            }
                        }
                        (info, obs, Some((out.text.clone(), diags, sim)))
                    }
                };
                evaluations += 1;
                per_family.add(name);
                if info.candidates >= 1 {
                    nontrivial += 1;
                }
                verdicts.add(&format!("reference_cyclic={} analyzer_loop={}", info.cyclic, obs));
                if info.cyclic != obs {
                    let Some((text, diags, sim)) = &single else {
                        rep.machinery("internal: disagreement without stand-alone analysis");
                        continue;
                    };
                    if let Some(s) = sim {
                        sim_backup.add(if s.is_ok() {
                            "simulator_build_ir_accepts_missed_loop"
                        } else {
                            "simulator_build_ir_rejects_missed_loop"
                        });
                    }
                    let sig = classify(d, &info, obs);
                    let n = viol_per_sig.entry(sig.clone()).or_insert(0);
                    *n += 1;
                    if *n <= 3 {
                        rep.violation(Violation {
                            signature: sig,
                            what: format!(
                                "reference bit graph {} a cycle, analyzer {} a combinational loop",
                                if info.cyclic { "has" } else { "has not" },
                                if obs { "reports" } else { "does not report" }
                            ),
                            case: json!({"design": text, "family": name, "abstract": format!("{:?}", d)}),
                            expected: json!({"cyclic": info.cyclic, "edges": info.edges.iter().map(|(s, t)| format!("{}->{}", bit_text(*s, ""), bit_text(*t, ""))).collect::<Vec<_>>(), "bits_on_cycle": info.on_cycle.iter().map(|b| bit_text(*b, "")).collect::<Vec<_>>()}),
                            observed: json!({
                                "loop_reported": obs,
                                "diagnostics": diags.iter().map(|x| format!("{}: {}", x.code, x.msg)).collect::<Vec<_>>(),
                                "simulator_build_ir": sim.as_ref().map(|s| match s { Ok(()) => "accepted".to_string(), Err(e) => format!("rejected: {e}") }),
                            }),
                        });
                    }
                }
                if samples < 8 && info.cyclic && evaluations % 53 == 1 {
                    samples += 1;
                    rep.sample(json!({"design": render(d), "reference_cyclic": info.cyclic, "analyzer_loop": obs}));
                }
            }
        }
    }

    let skipped_total: u64 = skipped.0.values().sum();
    rep.set("evaluations", evaluations);
    rep.set("distinct_nontrivial", nontrivial);
    rep.set(
        "rule",
        "designs are pairwise distinct by construction (distinct process tuples); non-trivial = the reference graph has at least one combinational edge whose source is a driven bit (a candidate feedback edge)",
    );
    rep.set("verdict_histogram", verdicts.json());
    rep.set("designs_per_subfamily", per_family.json());
    rep.set(
        "subfamily_sizes",
        serde_json::to_value(
            fam.subs
                .iter()
                .map(|(n, s)| (n.clone(), sub_size(s)))
                .collect::<BTreeMap<_, _>>(),
        )
        .unwrap(),
    );
    rep.set("outside_family_not_analysed", invalid);
    rep.set("skipped", skipped_total);
    rep.set("skipped_reasons", skipped.json());
    rep.set("analyzer_panics", panics);
    rep.set("modules_per_batch_text", BATCH as u64);
    rep.set("designs_reanalysed_alone", singles);
    rep.set("batch_vs_alone_differences", batch_differs);
    rep.set("simulator_backup_on_missed_loops", sim_backup.json());
    rep.set("chunks_total", chunks.len() as u64);
    rep.set("chunks_completed", chunks_done as u64);
    rep.set("capped_by_budget", capped);
    rep.set("exhaustive", !capped);
    rep.set(
        "disagreement_cases_per_signature",
        serde_json::to_value(&viol_per_sig).unwrap(),
    );
    rep.assume("dependencies are structural (syntactic): an operand, a condition or a function argument is a dependency even if the value cannot matter (pinned by `identical ternary arms do not cancel structural control dependence`)");
    rep.assume("a read in an always_comb sees the latest write of that bit on the path, else the module-level bit (pinned by `o = 0; o[0] = o[1]; o[1] = o[0]` acyclic / `read before write observes LiveOnEntry`)");
    rep.assume("only latch-free always_comb blocks and singly driven bits are generated; constructs the maintainers list as inexact (multi-bit positional transfers, multi-bit module ports, dynamic indices, break/return, SystemVerilog black boxes, inout, recursion) are outside the family");

    let cyc = verdicts.get("reference_cyclic=true analyzer_loop=true")
        + verdicts.get("reference_cyclic=true analyzer_loop=false");
    let acy = verdicts.get("reference_cyclic=false analyzer_loop=true")
        + verdicts.get("reference_cyclic=false analyzer_loop=false");
    if cyc == 0 || acy == 0 {
        rep.machinery("vacuity guard: reference verdict is constant");
    }
    if verdicts.get("reference_cyclic=true analyzer_loop=true")
        + verdicts.get("reference_cyclic=false analyzer_loop=true")
        == 0
    {
        rep.machinery("vacuity guard: analyzer never reported a combinational loop");
    }
    if evaluations > 0 && skipped_total * 50 > evaluations {
        rep.machinery(format!(
            "generator bug rate too high: {skipped_total} of {evaluations} designs rejected for unrelated reasons"
        ));
    }
    if nontrivial < 2 {
        rep.machinery("vacuity guard: fewer than 2 non-trivial designs");
    }
    rep
}

pub fn replay(doc: &Value) -> i32 {
    let Some(text) = doc["case"]["design"].as_str() else {
        eprintln!("replay: no case.design");
        return 2;
    };
    match gen_abs::analyze(text) {
        Analysis::Done { diags, .. } => {
            let obs = loop_reported(&diags, "");
            println!("design:\n{text}");
            for d in &diags {
                println!("diagnostic: {}: {}", d.code, d.msg);
            }
            let exp = doc["expected"]["cyclic"].as_bool().unwrap_or(false);
            println!("expected cyclic: {exp}; analyzer reports loop: {obs}");
            if obs == exp {
                println!("REPLAY: analyzer now agrees with the reference");
                0
            } else {
                println!("REPLAY: disagreement reproduced");
                1
            }
        }
        x => {
            eprintln!("replay: analysis did not complete: {x:?}");
            2
        }
    }
}

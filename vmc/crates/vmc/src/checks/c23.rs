//! C23 — migration yields valid current-syntax code with the same meaning.
//!
//! Old-grammar programs are *constructed* from current-grammar programs P (corpus + a small
//! catalogue), so the expected result is known without trusting the migrator or the old parser:
//!   F1  for-annotation: at a for-statement site `for i in`, insert `<g1>:<g2>T<g3>` behind the
//!       index identifier (T over several scalar types, g1/g2/g3 over a local letter set with
//!       comments and multi-byte text). All single sites x types x letter triples; all site
//!       pairs of a file with plain letters. Expected: the token stream of P, and the comments of
//!       P plus the comments that were inserted (in place) — computed by parsing the text
//!       `i<g1><g2><g3> in` with the current parser.
//!   F2  whole-file layout: all sites annotated `: u32`, x every single-gap deviation of P's
//!       layout over the position-hostile letters (the migrator rebuilds all spacing from
//!       line/column). Expected: streams of the same deviation of P.
//!   F3  old string escapes: a string literal replaced by literals the previous grammar accepts
//!       and the current one does not (`\r`, `\b`, `\/`). Expected: P's streams with that literal.
//!   F4  already-current programs: for every P, `Migrator::migratable` is false (so the CLI leaves
//!       the file alone) — and the CLI pass checks byte identity.
//! Only programs the *previous* parser accepts count (corpus files using newer syntax drop out and
//! are counted). Pipeline per case: OldParser::parse, Migrator::migrate (the library half of
//! crates/veryl/src/cmd_migrate.rs), then the current parser on the result.
//! Oracle: (1) the result parses; (2) its token texts equal the expected ones exactly; (3) its
//! comment texts equal the expected ones exactly, in order.
//! CLI pass: the real `veryl migrate` on a scratch project with old and current programs: old ones
//! must afterwards parse and carry the expected tokens (modulo optional trailing separators, the
//! CLI also formats) and comments; current ones must be byte-identical.

use crate::checks::gen_fmt::*;
use crate::checks::gen_text::*;
use crate::core::*;
use serde_json::{Value, json};
use std::collections::{BTreeMap, BTreeSet};
use veryl_migrator::Migrator;
use veryl_migrator::Parser as OldParser;
use veryl_parser::Parser;
use veryl_parser::veryl_grammar_trait as g;
use veryl_parser::veryl_walker::VerylWalker;

const TYPES: [&str; 4] = ["u32", "i32", "logic<8>", "signed logic<4>"];
const LOCAL: [&str; 7] = ["", " ", " /* c */ ", " /* é漢 */ ", " // c\n", "\n", " /* a */ /* b */ "];
const OLD_STRINGS: [&str; 4] = ["\"a\\rb\"", "\"\\b\"", "\"x\\/y\"", "\"é\\r\""];

/// Current-grammar seeds with for statements next to strings, multi-byte text and comments.
const CATALOGUE23: [(&str, &str); 5] = [
    ("cat23/plain", "module A {\n    var a: logic<10>;\n    always_comb {\n        for i in 0..10 {\n            a[i] = 1;\n        }\n    }\n}\n"),
    ("cat23/strings", "module A {\n    initial {\n        for i in 0..4 {\n            $display(\"é漢 %d\", i); // é\n            $display(\"x\", i);\n        }\n    }\n}\n"),
    ("cat23/nested_rev_step", "module A {\n    var a: logic<10> [10];\n    always_comb {\n        for i in rev 0..10 {\n            for j in 0..10 step += 2 {\n                a[i][j] = 1; /* é */ a[j][i] = 0;\n            }\n        }\n    }\n}\n"),
    ("cat23/function", "package P {\n    function f (x: input logic<8>) -> logic<8> {\n        var r: logic<8>;\n        r = 0;\n        for k in 0..8 {\n            r += x[k];\n        }\n        return r;\n    }\n}\n"),
    ("cat23/leading_comment", "/* é漢 */ /* b */ module A { // t\n    var a: logic<4>;\n    always_comb { /* é */ for i in 0..4 { a[i] = 0; } }\n}\n"),
];

#[derive(Clone, Debug)]
struct Case {
    file: usize,
    kind: &'static str, // "for-annotation" | "layout" | "old-string"
    desc: String,
    /// old-grammar program
    old: String,
    /// current-grammar program carrying the expected token and comment streams
    expect: String,
    /// old-string cases: the twin holds PLACEHOLDER where the old program holds this literal
    subst: Option<String>,
}

const PLACEHOLDER: &str = "\"__vmc_placeholder__\"";

#[derive(Clone)]
struct Bad {
    signature: String,
    what: String,
    expected: Value,
    observed: Value,
}

#[derive(Default)]
struct Out {
    /// reason the case is not part of the space (not an old-grammar program, ...)
    skipped: Option<&'static str>,
    migrated_differs_from_input: bool,
    out_hash: u64,
    tokens: usize,
    comments: usize,
    bad: Vec<Bad>,
}

/// Byte offsets (end of the index identifier) of all for-statement sites of a current program.
fn for_sites_here(text: &str) -> Result<Vec<usize>, String> {
    struct Sites(Vec<usize>);
    impl VerylWalker for Sites {
        fn for_statement(&mut self, arg: &g::ForStatement) {
            let t = &arg.identifier.identifier_token.token;
            self.0.push((t.pos + t.length) as usize);
            self.statement_block(&arg.statement_block);
        }
    }
    let parser = Parser::parse(text, &fresh_path()).map_err(|e| format!("{e}"))?;
    let mut s = Sites(vec![]);
    s.veryl(&parser.veryl);
    s.0.sort();
    Ok(s.0)
}

/// Comments of an old-grammar program in source order (own walker over the previous parser's
/// tree), each flagged with whether it hangs on a token of a for-loop index type annotation
/// (the `:` or the type). Only used to *classify* a comment difference.
fn old_comments_here(old: &str) -> Option<Vec<(String, bool)>> {
    use veryl_migrator::veryl_grammar_trait as og;
    use veryl_migrator::veryl_walker::VerylWalker as OldWalker;
    struct W {
        out: Vec<(String, bool)>,
        in_ann: bool,
    }
    impl OldWalker for W {
        fn veryl_token(&mut self, arg: &veryl_migrator::veryl_token::VerylToken) {
            for c in &arg.comments {
                self.out.push((c.to_string(), self.in_ann));
            }
        }
        fn for_statement(&mut self, arg: &og::ForStatement) {
            self.r#for(&arg.r#for);
            self.identifier(&arg.identifier);
            self.in_ann = true;
            self.colon(&arg.colon);
            self.scalar_type(&arg.scalar_type);
            self.in_ann = false;
            self.r#in(&arg.r#in);
            if let Some(ref x) = arg.for_statement_opt {
                self.rev(&x.rev);
            }
            self.range(&arg.range);
            if let Some(ref x) = arg.for_statement_opt0 {
                self.step(&x.step);
                self.assignment_operator(&x.assignment_operator);
                self.expression(&x.expression);
            }
            self.statement_block(&arg.statement_block);
        }
    }
    let parser = OldParser::parse(old, &fresh_path()).ok()?;
    let mut w = W { out: vec![], in_ann: false };
    w.veryl(&parser.veryl);
    Some(w.out)
}

/// Walks the expected tokens through the migrated text; reports the first place where two tokens
/// that must stay apart (both word-like at the seam) stand with nothing between them, and whether
/// multi-byte text precedes on that line.
fn joined_tokens(m: &str, expected: &[String]) -> Option<(String, bool)> {
    let b = m.as_bytes();
    let mut p = 0usize;
    let mut prev: Option<&String> = None;
    let word = |c: char| c.is_alphanumeric() || c == '_' || c == '$' || c == '\'';
    for t in expected {
        let start = p;
        // skip whitespace and comments
        loop {
            while p < b.len() && (b[p] as char).is_ascii_whitespace() {
                p += 1;
            }
            if m[p..].starts_with("//") {
                p = m[p..].find('\n').map(|x| p + x + 1).unwrap_or(b.len());
            } else if m[p..].starts_with("/*") {
                p = m[p + 2..].find("*/").map(|x| p + 2 + x + 2).unwrap_or(b.len());
            } else {
                break;
            }
        }
        if !m[p..].starts_with(t.as_str()) {
            return None;
        }
        if p == start {
            if let Some(pt) = prev {
                let (l, r) = (pt.chars().next_back().unwrap_or(' '), t.chars().next().unwrap_or(' '));
                if word(l) && word(r) {
                    let line_start = m[..p].rfind('\n').map(|x| x + 1).unwrap_or(0);
                    let multibyte = !m[line_start..p].is_ascii();
                    return Some((format!("{pt}{t}"), multibyte));
                }
            }
        }
        p += t.len();
        prev = Some(t);
    }
    None
}

fn migrate_here(old: &str) -> Result<String, String> {
    let metadata = metadata_with(&FmtSetting::DEFAULT);
    let parser = OldParser::parse(old, &fresh_path()).map_err(|e| format!("{e}"))?;
    let mut m = Migrator::new(&metadata);
    m.migrate(&parser.veryl, old);
    Ok(m.as_str().to_string())
}

fn eval(c: &Case) -> Out {
    let mut o = Out::default();
    // expectation: streams of the current-grammar twin
    let Ok((mut et, ec)) = streams_here(&c.expect) else {
        o.skipped = Some("twin rejected by the current parser");
        return o;
    };
    if let Some(lit) = &c.subst {
        for t in et.iter_mut() {
            if t == PLACEHOLDER {
                *t = lit.clone();
            }
        }
    }
    // an old-grammar program in the sense of the property: the previous parser accepts it ...
    let m = match migrate_here(&c.old) {
        Ok(m) => m,
        Err(_) => {
            o.skipped = Some("not accepted by the previous grammar");
            return o;
        }
    };
    // ... and it is not already current (then `veryl migrate` does not touch it; F4)
    if Parser::parse(&c.old, &fresh_path()).is_ok() {
        o.skipped = Some("already current");
        return o;
    }
    o.migrated_differs_from_input = m != c.old;
    o.out_hash = u64::from_le_bytes(blake3::hash(m.as_bytes()).as_bytes()[..8].try_into().unwrap());
    o.tokens = et.len();
    o.comments = ec.len();
    let (mt, mc) = match streams_here(&m) {
        Ok(s) => s,
        Err(e) => {
            let signature = if c.kind == "old-string" {
                "C23:output-rejected:old-string-escape".to_string()
            } else {
                match joined_tokens(&m, &et) {
                    Some((_, true)) => "C23:tokens-joined-after-multibyte".to_string(),
                    Some((_, false)) => "C23:tokens-joined".to_string(),
                    None => "C23:output-rejected".to_string(),
                }
            };
            o.bad.push(Bad {
                signature,
                what: "the migrated program is rejected by the current parser".into(),
                expected: json!("parses"),
                observed: json!({"error": clip(&e, 300), "migrated": clip(&m, 2000)}),
            });
            return o;
        }
    };
    if let Some(i) = first_diff(&et, &mt) {
        let signature = match joined_tokens(&m, &et) {
            Some((_, true)) => "C23:tokens-joined-after-multibyte".to_string(),
            Some((_, false)) => "C23:tokens-joined".to_string(),
            None => format!("C23:tokens:{}", seq_class(&et, &mt, i, &|t| token_kind(t))),
        };
        o.bad.push(Bad {
            signature,
            what: "token sequence of the migrated program is not the original minus the for-loop index type annotations".into(),
            expected: json!({"index": i, "around": window(&et, i)}),
            observed: json!({"around": window(&mt, i), "migrated": clip(&m, 2000)}),
        });
    }
    if let Some(i) = first_diff(&ec, &mc) {
        // are exactly the comments missing that hung on the removed annotation tokens (`:`, type)?
        let only_annotation_comments_missing = match old_comments_here(&c.old) {
            Some(oc) => {
                let all: Vec<&String> = oc.iter().map(|x| &x.0).collect();
                let kept: Vec<&String> = oc.iter().filter(|x| !x.1).map(|x| &x.0).collect();
                all == ec.iter().collect::<Vec<_>>() && kept == mc.iter().collect::<Vec<_>>()
            }
            None => false,
        };
        let signature = if only_annotation_comments_missing {
            "C23:comments:dropped-inside-for-annotation".to_string()
        } else {
            format!("C23:comments:{}", seq_class(&ec, &mc, i, &|t| comment_kind(t).to_string()))
        };
        o.bad.push(Bad {
            signature,
            what: "comments of the migrated program differ from those of the original".into(),
            expected: json!({"index": i, "around": window(&ec, i)}),
            observed: json!({"around": window(&mc, i), "migrated": clip(&m, 2000)}),
        });
    }
    o
}

/// Index of the layout item that ends at byte offset `end`.
fn item_ending_at(lay: &Layout, end: usize) -> Option<usize> {
    lay.items.iter().position(|it| it.end == end && it.kind == ItemKind::Token)
}

struct FileInfo {
    lay: Layout,
    /// item indices of the for-statement index identifiers
    sites: Vec<usize>,
    /// item indices of string literals
    strings: Vec<usize>,
}

fn annotate(lay: &Layout, item: usize, g1: &str, g2: &str, t: &str, g3: &str) -> (usize, String) {
    (item, format!("{}{g1}:{g2}{t}{g3}", lay.item_text(item)))
}
fn twin(lay: &Layout, item: usize, g1: &str, g2: &str, g3: &str) -> (usize, String) {
    (item, format!("{}{g1}{g2}{g3}", lay.item_text(item)))
}

pub fn run(ctx: &Ctx) -> Report {
    install_quiet_panic_hook();
    let mut rep = Report::new(Level::Exploration);
    let budget = ctx.budget(28.0, 900.0);
    let cli_reserve = if ctx.thorough() { 40.0 } else { 8.0 };
    let mut corpus: Vec<CorpusFile> = CATALOGUE23
        .iter()
        .map(|(n, t)| CorpusFile {
            name: n.to_string(),
            path: n.into(),
            text: t.to_string(),
        })
        .collect();
    let mut rest = load_corpus(true, false);
    sort_smallest_first(&mut rest);
    if ctx.seed != 0 && !rest.is_empty() {
        let k = (ctx.seed as usize) % rest.len();
        rest.rotate_left(k); // shard order only
    }
    corpus.extend(rest);
    rep.set("corpus_files", corpus.len() as u64);
    rep.set(
        "rule",
        "a case is non-trivial if the previous parser accepts the program, the current parser rejects it, and the migrator changes the text; distinct = distinct migrated outputs",
    );

    // ---- per-file facts (fresh thread each): layout, for sites, string items, F4
    let texts: Vec<String> = corpus.iter().map(|f| f.text.clone()).collect();
    let facts = batch_isolated(BIG_STACK, 8, &texts, |t: &String| {
        let sites = for_sites_here(t)?;
        let toks = collect_tokens_here(t, false)?;
        let migratable = {
            let p = Parser::parse(t, &fresh_path()).map_err(|e| format!("{e}"))?;
            Migrator::migratable(&p.veryl)
        };
        // the old-grammar twin of the whole file: every for site annotated
        let mut twin_text = t.clone();
        for e in sites.iter().rev() {
            twin_text.insert_str(*e, ": u32");
        }
        let old_ok = OldParser::parse(&twin_text, &fresh_path()).is_ok();
        Ok::<(Vec<usize>, bool, bool, Vec<Tok>), String>((sites, migratable, old_ok, toks))
    });
    let mut infos: Vec<Option<FileInfo>> = vec![];
    let mut f4_checked = 0u64;
    let mut current_only = 0u64;
    for (fi, f) in corpus.iter().enumerate() {
        let fact = match &facts[fi] {
            Ok(Ok(x)) => x.clone(),
            other => {
                rep.notes.push(format!("corpus file {} skipped: {:?}", f.name, other.as_ref().map(|x| x.as_ref().map(|_| ()).map_err(|e| clip(e, 100)))));
                if f.name.starts_with("cat23/") {
                    rep.machinery(format!("catalogue program {} is not accepted by the current parser", f.name));
                }
                infos.push(None);
                continue;
            }
        };
        let (site_ends, migratable, old_ok, toks) = fact;
        f4_checked += 1;
        if migratable {
            rep.violation(Violation {
                signature: "C23:current-program-marked-migratable".into(),
                what: "a program the current parser accepts is marked migratable (the CLI would rewrite it)".into(),
                case: json!({"old": f.text, "corpus_file": f.name}),
                expected: json!(false),
                observed: json!(true),
            });
        }
        if !old_ok {
            current_only += 1; // uses syntax the previous grammar does not have: no old twin
            infos.push(None);
            continue;
        }
        let Ok(lay) = Layout::from_tokens(&f.text, &toks) else {
            infos.push(None);
            continue;
        };
        let sites: Vec<usize> = site_ends.iter().filter_map(|e| item_ending_at(&lay, *e)).collect();
        if sites.len() != site_ends.len() {
            rep.machinery(format!("for sites of {} not found in its layout", f.name));
        }
        let strings: Vec<usize> = (0..lay.items.len()).filter(|&i| lay.items[i].kind == ItemKind::Token && lay.item_text(i).starts_with('"')).collect();
        infos.push(Some(FileInfo { lay, sites, strings }));
    }
    rep.set("current_programs_checked_not_migratable", f4_checked);
    rep.set("corpus_files_without_old_grammar_twin", current_only);
    rep.set("for_sites", infos.iter().flatten().map(|i| i.sites.len() as u64).sum::<u64>());

    // ---- case families, generated lazily per file
    let mut layout_letters: Vec<&str> = HOSTILE_LETTERS.to_vec();
    layout_letters.extend(["", " ", "\n", "\t", " /* c */ ", " // c\n"]);
    let local: Vec<&str> = if ctx.thorough() { LOCAL.to_vec() } else { LOCAL[..5].to_vec() };
    let types: Vec<&str> = if ctx.thorough() { TYPES.to_vec() } else { vec![TYPES[0], TYPES[2]] };

    let mut outs: BTreeSet<u64> = BTreeSet::new();
    let mut by_sig: BTreeMap<String, (usize, Case, Bad)> = BTreeMap::new();
    let mut skipped: BTreeMap<&'static str, u64> = BTreeMap::new();
    let mut panics = 0u64;
    let mut exhaustive = true;
    let mut files_done = 0u64;

    let mut run_cases = |rep: &mut Report, cases: &[Case], outs: &mut BTreeSet<u64>, by_sig: &mut BTreeMap<String, (usize, Case, Bad)>, skipped: &mut BTreeMap<&'static str, u64>| {
        let rs = batch_isolated(STACK, 16, cases, eval);
        for (c, r) in cases.iter().zip(rs) {
            rep.add("evaluations", 1);
            let o = match r {
                Err(p) => {
                    panics += 1;
                    if rep.notes.len() < 20 {
                        rep.notes.push(format!("panic on {}: {}", c.desc, clip(&p, 200)));
                    }
                    continue;
                }
                Ok(o) => o,
            };
            if let Some(why) = o.skipped {
                let n = skipped.entry(why).or_default();
                *n += 1;
                if *n <= 3 && why != "already current" {
                    rep.notes.push(format!("skipped ({why}): {}", clip(&c.desc, 160)));
                }
                continue;
            }
            rep.add(&format!("old_programs_migrated_{}", c.kind.replace('-', "_")), 1);
            rep.add("tokens_compared", o.tokens as u64);
            rep.add("comments_compared", o.comments as u64);
            if o.migrated_differs_from_input {
                rep.add("nontrivial_cases", 1);
                outs.insert(o.out_hash);
            }
            for b in o.bad {
                rep.add("violating_cases", 1);
                // a case becomes the witness of its signature only after it reproduced on a
                // thread of its own (first case of a signature, and smaller ones later)
                let candidate = match by_sig.get(&b.signature) {
                    None => true,
                    Some(e) => c.old.len() < e.1.old.len() && e.0 < 1_000_000,
                };
                if candidate {
                    let confirmed = match batch_isolated(STACK, 1, std::slice::from_ref(c), eval).pop() {
                        Some(Ok(o2)) => o2.bad.iter().any(|x| x.signature == b.signature),
                        _ => false,
                    };
                    if !confirmed {
                        rep.add("not_reproduced_in_isolation", 1);
                        continue;
                    }
                    let n = by_sig.get(&b.signature).map(|e| e.0).unwrap_or(0);
                    by_sig.insert(b.signature.clone(), (n + 1, c.clone(), b));
                } else if let Some(e) = by_sig.get_mut(&b.signature) {
                    e.0 += 1;
                }
            }
        }
    };

    'files: for (fi, f) in corpus.iter().enumerate() {
        let Some(info) = &infos[fi] else { continue };
        if ctx.elapsed() > budget - cli_reserve {
            exhaustive = false;
            break;
        }
        let lay = &info.lay;
        let mut cases: Vec<Case> = vec![];
        // F1 single sites
        for (k, &it) in info.sites.iter().enumerate() {
            for t in &types {
                for g1 in &local {
                    for g2 in &local {
                        for g3 in &local {
                            cases.push(Case {
                                file: fi,
                                kind: "for-annotation",
                                desc: format!("{}: site {k} := i{}:{}{t}{}", f.name, letter_name(g1), letter_name(g2), letter_name(g3)),
                                // every other site carries a plain annotation (the previous
                                // grammar demands one at each site)
                                old: lay.compose(&[], &info.sites.iter().map(|&x| if x == it { annotate(lay, x, g1, g2, t, g3) } else { annotate(lay, x, "", " ", "u32", "") }).collect::<Vec<_>>()),
                                expect: lay.compose(&[], &[twin(lay, it, g1, g2, g3)]),
                                subst: None,
                            });
                        }
                    }
                }
            }
        }
        // F1 site pairs, plain letters
        for a in 0..info.sites.len() {
            for b in a + 1..info.sites.len() {
                let (ia, ib) = (info.sites[a], info.sites[b]);
                cases.push(Case {
                    file: fi,
                    kind: "for-annotation",
                    desc: format!("{}: sites {a},{b} := i : logic<8> / i: i32", f.name),
                    old: lay.compose(&[], &info.sites.iter().map(|&x| if x == ia { annotate(lay, x, " ", "", "logic<8>", " ") } else if x == ib { annotate(lay, x, "", " ", "i32", "") } else { annotate(lay, x, "", " ", "u32", "") }).collect::<Vec<_>>()),
                    expect: f.text.clone(),
                    subst: None,
                });
            }
        }
        // F3 old string escapes
        for &it in &info.strings {
            for s in OLD_STRINGS {
                // the rest of the file must be old grammar too: annotate every for site
                let mut edits: Vec<(usize, String)> = info.sites.iter().map(|&x| annotate(lay, x, "", " ", "u32", "")).collect();
                edits.push((it, s.to_string()));
                edits.sort();
                cases.push(Case {
                    file: fi,
                    kind: "old-string",
                    desc: format!("{}: string item {it} := {s}", f.name),
                    old: lay.compose(&[], &edits),
                    expect: lay.compose(&[], &[(it, PLACEHOLDER.to_string())]),
                    subst: Some(s.to_string()),
                });
            }
        }
        // F2 whole-file layout deviations with every site annotated
        if !info.sites.is_empty() {
            let ann: Vec<(usize, String)> = info.sites.iter().map(|&it| annotate(lay, it, "", " ", "u32", "")).collect();
            cases.push(Case {
                file: fi,
                kind: "layout",
                desc: format!("{}: all sites annotated", f.name),
                old: lay.compose(&[], &ann),
                expect: f.text.clone(),
                subst: None,
            });
            for l in &layout_letters {
                for g in 0..lay.n_gaps() {
                    if !lay.admissible(g, l) {
                        continue;
                    }
                    cases.push(Case {
                        file: fi,
                        kind: "layout",
                        desc: format!("{}: all sites annotated; gap {g} := {}", f.name, letter_name(l)),
                        old: lay.compose(&[(g, l)], &ann),
                        expect: lay.compose(&[(g, l)], &[]),
                        subst: None,
                    });
                }
            }
        }
        for chunk in cases.chunks(192) {
            if ctx.elapsed() > budget - cli_reserve {
                exhaustive = false;
                rep.notes.push(format!("budget reached inside file {}", f.name));
                break 'files;
            }
            run_cases(&mut rep, chunk, &mut outs, &mut by_sig, &mut skipped);
        }
        files_done += 1;
    }

    cli_pass(ctx, &mut rep, &corpus, &infos);

    for (k, v) in &skipped {
        rep.set(&format!("skipped_{}", k.replace(' ', "_")), *v);
    }
    rep.set("files_fully_covered", files_done);
    rep.set("exhaustive", exhaustive);
    rep.set(
        "bound",
        "per file with an old-grammar twin: every for site x types x letter triples (quick: 2 types x 5^3; thorough: 4 types x 7^3), all site pairs, every string literal x 4 old-escape strings, all sites annotated x every single-gap deviation x 18 letters; files smallest first until the budget",
    );
    rep.set("distinct_nontrivial", outs.len() as u64);
    rep.set("panics", panics);
    if panics > 0 {
        rep.machinery(format!("{panics} panics in the migrate pipeline; see notes"));
    }
    if rep.get_u64("not_reproduced_in_isolation") > 0 {
        rep.machinery("some differences did not reproduce on a fresh thread");
    }
    if rep.get_u64("old_programs_migrated_for_annotation") < 50 || rep.get_u64("old_programs_migrated_layout") < 50 || outs.len() < 2 || rep.get_u64("comments_compared") == 0 {
        rep.machinery("vacuous run: too few old-grammar programs migrated");
    }
    let twin_rej = skipped.get("twin rejected by the current parser").copied().unwrap_or(0) + skipped.get("not accepted by the previous grammar").copied().unwrap_or(0);
    if twin_rej * 4 > rep.get_u64("evaluations") {
        rep.machinery(format!("generator problem: {twin_rej} of {} cases are not old-grammar programs", rep.get_u64("evaluations")));
    }
    for (sig, (count, c, b)) in by_sig {
        rep.sample(json!({"signature": sig, "cases": count, "smallest_old_program": clip(&c.old, 240)}));
        rep.violation(Violation {
            signature: sig,
            what: b.what.clone(),
            case: json!({"old": c.old, "expect": c.expect, "kind": c.kind, "subst": c.subst, "derivation": c.desc, "cases_in_run": count}),
            expected: b.expected,
            observed: b.observed,
        });
    }
    if rep.coverage.get("samples").is_none() {
        rep.sample(json!({"result": "every old-grammar program migrated to an accepted program with the expected tokens and comments"}));
    }
    rep
}

/// `veryl migrate` on a scratch project: old programs (one per file with sites: all sites
/// annotated; plus catalogue variants with comments) and current programs.
fn cli_pass(ctx: &Ctx, rep: &mut Report, corpus: &[CorpusFile], infos: &[Option<FileInfo>]) {
    use crate::proj::Sandbox;
    let sb = Sandbox::new(&ctx.dir("cli"));
    std::fs::write(
        sb.proj().join("Veryl.toml"),
        "[project]\nname = \"prj\"\nversion = \"0.1.0\"\n[build]\nsources = [\"src\"]\ntarget = {type = \"directory\", path = \"target\"}\n",
    )
    .unwrap();
    std::fs::create_dir_all(sb.proj().join("src")).unwrap();
    // (file name, text written, Some(expected twin) for old programs / None for current ones)
    let mut files: Vec<(String, String, Option<String>)> = vec![];
    for (fi, f) in corpus.iter().enumerate() {
        if f.text.len() > 8000 && !ctx.thorough() {
            continue;
        }
        match &infos[fi] {
            Some(info) if !info.sites.is_empty() => {
                let lay = &info.lay;
                // the same old program the enumeration holds as "all sites annotated"
                let ann: Vec<(usize, String)> = info.sites.iter().map(|&it| annotate(lay, it, "", " ", "u32", "")).collect();
                files.push((format!("o{fi:03}.veryl"), lay.compose(&[], &ann), Some(f.text.clone())));
                files.push((format!("c{fi:03}.veryl"), f.text.clone(), None));
            }
            _ => files.push((format!("c{fi:03}.veryl"), f.text.clone(), None)),
        }
    }
    for (n, t, _) in &files {
        std::fs::write(sb.proj().join("src").join(n), t).unwrap();
    }
    // `veryl migrate` stops at the first file it cannot handle: take that file out, judge it with
    // the library path, and run again (files migrated before are current by then)
    let mut failed: Vec<String> = vec![];
    loop {
        let r = sb.veryl(&["migrate"]);
        if r.code == 0 {
            break;
        }
        let last = r.stderr.lines().filter(|l| l.contains("Processing file (")).next_back().and_then(|l| l.rsplit('/').next()).map(|x| x.trim_end_matches(')').to_string());
        let Some(name) = last.filter(|n| files.iter().any(|f| &f.0 == n) && !failed.contains(n)) else {
            let tail: String = r.stderr.chars().rev().take(900).collect::<Vec<_>>().into_iter().rev().collect();
            rep.machinery(format!("veryl migrate exit {} stderr tail {}", r.code, tail));
            return;
        };
        let _ = std::fs::remove_file(sb.proj().join("src").join(&name));
        failed.push(name);
        if ctx.elapsed() > ctx.budget(28.0, 900.0) + 15.0 {
            rep.notes.push(format!("CLI pass stopped by the budget after {} failing files", failed.len()));
            rep.set("cli_pass_incomplete", true);
            return;
        }
        if failed.len() > 40 {
            rep.machinery("veryl migrate keeps failing (more than 40 files)");
            return;
        }
    }
    for name in &failed {
        let (_, t, twin) = files.iter().find(|f| &f.0 == name).unwrap().clone();
        let predicted = match &twin {
            Some(tw) => {
                let c = Case {
                    file: 0,
                    kind: "layout",
                    desc: String::new(),
                    old: t.clone(),
                    expect: tw.clone(),
                    subst: None,
                };
                matches!(batch_isolated(STACK, 1, &[c], eval).pop(), Some(Ok(o)) if !o.bad.is_empty())
            }
            None => false,
        };
        if predicted {
            // reported with its class by the enumeration, which holds this very program
            rep.add("cli_failures_as_the_library_predicts", 1);
        } else {
            rep.violation(Violation {
                signature: if twin.is_some() { "C23:cli-fails-where-library-succeeds".into() } else { "C23:cli-fails-on-current-program".into() },
                what: "`veryl migrate` fails on a program".into(),
                case: json!({"old": t, "expect": twin, "file": name}),
                expected: json!("exit 0"),
                observed: json!("exit 1"),
            });
        }
    }
    files.retain(|f| !failed.contains(&f.0));
    let mut old_n = 0u64;
    let mut cur_n = 0u64;
    for (n, t, twin) in &files {
        let after = std::fs::read_to_string(sb.proj().join("src").join(n)).unwrap_or_default();
        match twin {
            None => {
                cur_n += 1;
                if after != *t {
                    rep.violation(Violation {
                        signature: "C23:cli-current-program-changed".into(),
                        what: "`veryl migrate` changed a program the current parser accepts".into(),
                        case: json!({"old": t, "file": n}),
                        expected: json!("unchanged"),
                        observed: json!({"after": clip(&after, 2000)}),
                    });
                }
            }
            Some(tw) => {
                old_n += 1;
                let pair = (after.clone(), tw.clone());
                let res = batch_isolated(BIG_STACK, 1, &[pair], |p: &(String, String)| (streams_here(&p.0), streams_here(&p.1))).pop();
                match res {
                    Some(Ok((Ok((at, ac)), Ok((et, ec))))) => {
                        let (a, e) = (drop_optional_separators(&at), drop_optional_separators(&et));
                        let (akc, ekc): (Vec<String>, Vec<String>) = (ac.iter().map(|c| canonical_comment(c)).collect(), ec.iter().map(|c| canonical_comment(c)).collect());
                        if first_diff(&a, &e).is_some() || first_diff(&akc, &ekc).is_some() {
                            rep.violation(Violation {
                                signature: "C23:cli-result-differs".into(),
                                what: "`veryl migrate` result does not carry the expected tokens/comments".into(),
                                case: json!({"old": t, "expect": tw, "file": n}),
                                expected: json!("tokens and comments of the twin"),
                                observed: json!({"after": clip(&after, 2000)}),
                            });
                        }
                    }
                    Some(Ok((Err(e), _))) => rep.violation(Violation {
                        signature: "C23:cli-result-rejected".into(),
                        what: "`veryl migrate` left a file the current parser rejects".into(),
                        case: json!({"old": t, "file": n}),
                        expected: json!("parses"),
                        observed: json!({"error": clip(&e, 300), "after": clip(&after, 2000)}),
                    }),
                    _ => rep.machinery(format!("CLI pass: cannot evaluate {n}")),
                }
            }
        }
    }
    rep.set("cli_old_programs_migrated", old_n);
    rep.set("cli_current_programs_untouched_checked", cur_n);
    if old_n == 0 || cur_n == 0 {
        rep.machinery("CLI pass vacuous");
    }
}

pub fn replay(doc: &Value) -> i32 {
    install_quiet_panic_hook();
    let (Some(old), Some(expect)) = (doc["case"]["old"].as_str(), doc["case"]["expect"].as_str()) else {
        eprintln!("replay file has no case.old / case.expect");
        return 2;
    };
    let kind: &'static str = match doc["case"]["kind"].as_str().unwrap_or("") {
        "old-string" => "old-string",
        "layout" => "layout",
        _ => "for-annotation",
    };
    let c = Case {
        file: 0,
        kind,
        desc: String::new(),
        old: old.to_string(),
        expect: expect.to_string(),
        subst: doc["case"]["subst"].as_str().map(|x| x.to_string()),
    };
    if let Some(n) = std::env::var("VMC_BENCH").ok().and_then(|x| x.parse::<usize>().ok()) {
        let cs: Vec<Case> = (0..n).map(|_| c.clone()).collect();
        let t = std::time::Instant::now();
        let _ = batch_isolated(STACK, n, &cs, eval);
        println!("eval x{n} on one thread: {:.3} ms each", t.elapsed().as_secs_f64() * 1000.0 / n as f64);
        let t = std::time::Instant::now();
        let _ = batch_isolated(STACK, n, &cs, |c: &Case| streams_here(&c.expect).is_ok());
        println!("twin parse x{n}: {:.3} ms each", t.elapsed().as_secs_f64() * 1000.0 / n as f64);
        let t = std::time::Instant::now();
        let _ = batch_isolated(STACK, n, &cs, |c: &Case| migrate_here(&c.old).is_ok());
        println!("old parse + migrate x{n}: {:.3} ms each", t.elapsed().as_secs_f64() * 1000.0 / n as f64);
        let t = std::time::Instant::now();
        let _ = batch_isolated(STACK, n, &cs, |c: &Case| Parser::parse(&c.old, &fresh_path()).is_ok());
        println!("new parse of old program (rejected) x{n}: {:.3} ms each", t.elapsed().as_secs_f64() * 1000.0 / n as f64);
        let t = std::time::Instant::now();
        let _ = batch_isolated(STACK, n, &cs, |c: &Case| migrate_here(&c.old).map(|m| streams_here(&m).is_ok()));
        println!("old parse + migrate + parse of result x{n}: {:.3} ms each", t.elapsed().as_secs_f64() * 1000.0 / n as f64);
        let t = std::time::Instant::now();
        let _ = batch_isolated(STACK, n, &cs, |c: &Case| old_comments_here(&c.old).is_some());
        println!("old_comments_here x{n}: {:.3} ms each", t.elapsed().as_secs_f64() * 1000.0 / n as f64);
        return 0;
    }
    if std::env::var("VMC_DUMP").is_ok() {
        println!("for sites of case.expect: {:?}", batch_isolated(STACK, 1, &[expect.to_string()], |t: &String| for_sites_here(t)).pop());
    }
    match batch_isolated(STACK, 1, &[c], eval).pop() {
        Some(Ok(o)) => {
            if let Some(w) = o.skipped {
                println!("not part of the space: {w}");
                return 2;
            }
            for b in &o.bad {
                println!("{}: {} expected={} observed={}", b.signature, b.what, b.expected, b.observed);
            }
            if o.bad.is_empty() {
                println!("migrated program parses and carries the expected tokens and comments");
                0
            } else {
                1
            }
        }
        Some(Err(p)) => {
            println!("panic: {p}");
            2
        }
        None => 2,
    }
}

//! C33 — switching to the compiled C backend mid-run is invisible.
//!
//! With `aot_c_async` the simulator runs on the Cranelift JIT until the background C compile
//! publishes its module, then dispatches the C code.  The publication moment is owned through a
//! `#[cfg(veryl_verif)]` hook (`veryl_simulator::backend::aot_c::verif`): while a gate is armed on
//! the current thread every async cell is compiled synchronously but only becomes visible at a
//! chosen dispatch index.  For each design and each stimulus path the check first runs with
//! "never" to count the async cells C and the dispatches D of the run, then enumerates ALL
//! schedules ({0..D} ∪ {never})^C (each on a fresh simulator) and requires the observation trace
//! to equal the synchronous-cc and the JIT traces.

use super::c02::{design_case, template_of};
use super::e2::Machine;
use super::gen_df::{self, Design, Scope};
use super::simx::{self, VerylSim};
use crate::core::*;
use serde_json::json;
use std::collections::{BTreeMap, BTreeSet};
use veryl_simulator::backend::aot_c::verif;

#[derive(Default)]
struct DesignOut {
    id: String,
    rejected: Option<String>,
    skipped: Option<String>,
    not_run: bool,
    cells: usize,
    dispatches: Vec<u64>,
    schedules: u64,
    schedules_requested: u64,
    runs_with_midrun_swap: u64,
    capped: bool,
    distinct_traces: BTreeSet<String>,
    violation: Option<Violation>,
    machinery: Option<String>,
    sample: Option<serde_json::Value>,
}

fn paths_for(d: &Design, thorough: bool) -> Vec<Vec<u32>> {
    let n = d.letters();
    let len = if thorough { 5 } else { 4 };
    let count = if thorough { 5 } else { 2 };
    (0..count).map(|k| (0..len).map(|i| ((i * (2 * k + 3) + 5 * k + 1) as u32 * 7 + k as u32) % n).collect()).collect()
}

/// All assignments: cell i becomes ready before its own attempt k in 0..limits[i], or never
/// ("never" first).
fn schedules(limits: &[u64]) -> Vec<Vec<Option<u64>>> {
    let mut out: Vec<Vec<Option<u64>>> = vec![vec![]];
    for &lim in limits {
        let opts: Vec<Option<u64>> = std::iter::once(None).chain((0..lim).map(Some)).collect();
        let mut next = Vec::with_capacity(out.len() * opts.len());
        for s in &out {
            for o in &opts {
                let mut t = s.clone();
                t.push(*o);
                next.push(t);
            }
        }
        out = next;
    }
    out
}

fn check_design(d: &Design, thorough: bool, max_schedules: usize) -> DesignOut {
    install_quiet_panic_hook();
    let mut out = DesignOut { id: d.id.clone(), ..Default::default() };
    let ir = match simx::analyze(&d.src) {
        Ok(ir) => ir,
        Err(e) => {
            out.rejected = Some(e);
            return out;
        }
    };
    let jit_cfg = simx::config_from_name("jit").unwrap();
    let cc_cfg = simx::config_from_name("cc").unwrap();
    let async_cfg = simx::config_from_name("cc-async").unwrap();
    let build = |c: &veryl_simulator::Config| -> Result<VerylSim, String> {
        match std::panic::catch_unwind(std::panic::AssertUnwindSafe(|| VerylSim::build(&ir, d, c))) {
            Ok(r) => r,
            Err(p) => Err(format!("panic: {}", panic_message(p))),
        }
    };
    let (mut jit, mut cc) = match (build(&jit_cfg), build(&cc_cfg)) {
        (Ok(a), Ok(b)) => (a, b),
        (a, b) => {
            out.skipped = Some(format!("reference build failed: jit={:?} cc={:?}", a.err(), b.err()));
            return out;
        }
    };
    if !cc.shape.whole_comb && cc.shape.whole_events == 0 {
        out.skipped = Some("C emitter covers neither comb nor events of this design".into());
        return out;
    }
    for path in paths_for(d, thorough) {
        let (tj, tc) = match (jit.run_trace(&path), cc.run_trace(&path)) {
            (Ok(a), Ok(b)) => (a, b),
            (a, b) => {
                out.machinery = Some(format!("{}: reference run failed: {:?} {:?}", d.id, a.err(), b.err()));
                return out;
            }
        };
        if tj != tc {
            // JIT and synchronous cc disagree: a C02 matter, no reference for C33
            out.skipped = Some("jit and synchronous cc disagree on the reference path (C02)".into());
            return out;
        }
        out.distinct_traces.insert(hash_hex(tj.join("\n").as_bytes()));
        // probe: never publish -> number of cells and of dispatch attempts per cell
        let run_async = |sched: Vec<Option<u64>>| -> Result<(Vec<String>, Vec<u64>, usize), String> {
            verif::arm_async_gate(sched);
            let r = build(&async_cfg).and_then(|mut m| m.run_trace(&path));
            let (attempts, fails) = verif::disarm_async_gate();
            r.map(|t| (t, attempts, fails))
        };
        let (t0, attempts, fails) = match run_async(vec![]) {
            Ok(x) => x,
            Err(e) => {
                out.machinery = Some(format!("{}: async probe run failed: {e}", d.id));
                return out;
            }
        };
        if fails > 0 {
            out.machinery = Some(format!("{}: {fails} C compile failure(s) under the gate", d.id));
            return out;
        }
        let cells = attempts.len();
        if cells == 0 {
            out.skipped = Some("no async cell was created".into());
            return out;
        }
        let disp: u64 = attempts.iter().sum();
        out.cells = cells;
        out.dispatches.push(disp);
        let report = |sched: &Vec<Option<u64>>, t: &Vec<String>, out: &mut DesignOut| {
            let at = t.iter().zip(tj.iter()).position(|(x, y)| x != y).unwrap_or(t.len().min(tj.len()));
            let sched_txt: Vec<String> = sched.iter().map(|s| s.map(|v| v.to_string()).unwrap_or_else(|| "never".into())).collect();
            out.violation = Some(Violation {
                signature: format!("C33:{}:swap-visible", template_of(&d.id)),
                what: format!(
                    "async C backend: with the {} async cell(s) becoming ready before their own dispatch attempts [{}] (attempts per cell when never ready: {:?}) the trace of design {} differs from synchronous cc / JIT after {} step(s)",
                    cells,
                    sched_txt.join(","),
                    attempts,
                    d.id,
                    at
                ),
                case: json!({"design": design_case(d, &path, &["cc-async".to_string(), "cc".to_string(), "jit".to_string()]),
                    "publication_schedule": sched_txt, "cells": cells, "attempts_when_never_ready": attempts}),
                expected: json!({"engines": "jit == cc (synchronous)", "trace": tj}),
                observed: json!({"engine": "cc-async under the gate", "trace": t}),
            });
        };
        if t0 != tj {
            report(&vec![None; cells], &t0, &mut out);
            return out;
        }
        // every cell: ready before its own attempt k (k < attempts when never ready) or never
        let mut limits = attempts.clone();
        let total = |l: &[u64]| l.iter().map(|x| *x as u128 + 1).product::<u128>();
        out.schedules_requested += total(&limits) as u64;
        while total(&limits) > max_schedules as u128 {
            // shrink the longest range (late publication points of the busiest cell)
            let i = (0..limits.len()).max_by_key(|i| limits[*i]).unwrap();
            if limits[i] <= 1 {
                break;
            }
            limits[i] -= 1;
            out.capped = true;
        }
        for sched in schedules(&limits) {
            let midrun = sched.iter().any(|s| matches!(s, Some(k) if *k > 0));
            match run_async(sched.clone()) {
                Ok((t, _, _)) => {
                    out.schedules += 1;
                    out.runs_with_midrun_swap += midrun as u64;
                    if t != tj {
                        report(&sched, &t, &mut out);
                        return out;
                    }
                }
                Err(e) => {
                    if e.contains("panic") {
                        out.violation = Some(Violation {
                            signature: format!("C33:{}:panic", template_of(&d.id)),
                            what: format!("async C backend panics on design {} under schedule {:?}: {e}", d.id, sched),
                            case: json!({"design": design_case(d, &path, &["cc-async".to_string()]), "publication_schedule": format!("{sched:?}")}),
                            expected: json!("no panic"),
                            observed: json!(e),
                        });
                    } else {
                        out.machinery = Some(format!("{}: async run failed: {e}", d.id));
                    }
                    return out;
                }
            }
        }
        if out.sample.is_none() {
            out.sample = Some(json!({"design": d.id, "path": path, "cells": cells, "dispatches": disp, "trace": tj}));
        }
    }
    out
}

pub fn run(ctx: &Ctx) -> Report {
    let mut rep = Report::new(Level::ModelChecking);
    super::c02::set_process_env(ctx);
    install_quiet_panic_hook();
    if !veryl_simulator::backend::aot_c::cc_available() {
        rep.machinery("no C compiler available: the cc backend cannot be exercised");
        return rep;
    }
    let thorough = ctx.thorough();
    let budget = ctx.budget(45.0, 900.0);
    let fam = gen_df::family(Scope::Core);
    // one design per template first, small ones; big opt-shapes excluded (C compile time)
    let cands: Vec<Design> = fam
        .into_iter()
        .filter(|d| !d.has_tag("cone_gate") && !d.id.contains("flat320") && d.class != "wide" || d.id.contains("wide/add/w65"))
        .collect();
    let cands = super::c02::interleave_by_class(cands.into_iter().map(|d| (d, vec![], ())).collect());
    let n = if thorough { 150 } else { 20 };
    let stride = (cands.len() / n).max(1);
    let designs: Vec<Design> = cands.into_iter().map(|j| j.0).step_by(stride).take(n).collect();
    let max_schedules = if thorough { 4000 } else { 700 };

    let t0 = std::time::Instant::now();
    let start = ctx.elapsed();
    let results = par_map(&designs, |d| {
        if start + t0.elapsed().as_secs_f64() > budget {
            return DesignOut { id: d.id.clone(), not_run: true, ..Default::default() };
        }
        let d2 = d.clone();
        run_isolated(simx::STACK, move || check_design(&d2, thorough, max_schedules)).unwrap_or_else(|e| DesignOut {
            id: d.id.clone(),
            machinery: Some(format!("{}: thread died: {e}", d.id)),
            ..Default::default()
        })
    });
    let (mut explored, mut rejected, mut not_run, mut schedules, mut requested, mut midrun, mut capped) = (0u64, 0u64, 0u64, 0u64, 0u64, 0u64, 0u64);
    let mut skipped: BTreeMap<String, u64> = BTreeMap::new();
    let mut cells_hist: BTreeMap<String, u64> = BTreeMap::new();
    let mut max_disp = 0u64;
    let mut distinct: BTreeSet<String> = BTreeSet::new();
    for r in results {
        if r.not_run {
            not_run += 1;
            continue;
        }
        if r.rejected.is_some() {
            rejected += 1;
            continue;
        }
        if let Some(m) = r.machinery {
            rep.machinery(m);
        }
        if let Some(s) = r.skipped {
            *skipped.entry(s).or_default() += 1;
            continue;
        }
        explored += 1;
        *cells_hist.entry(r.cells.to_string()).or_default() += 1;
        max_disp = max_disp.max(r.dispatches.iter().copied().max().unwrap_or(0));
        schedules += r.schedules;
        requested += r.schedules_requested;
        midrun += r.runs_with_midrun_swap;
        capped += r.capped as u64;
        distinct.extend(r.distinct_traces);
        if let Some(v) = r.violation {
            rep.violation(v);
        }
        if let Some(s) = r.sample {
            if explored % 5 == 1 {
                rep.sample(s);
            }
        }
    }
    rep.set("designs_requested", designs.len() as u64);
    rep.set("designs_explored", explored);
    rep.set("designs_rejected_by_analyzer", rejected);
    rep.set("designs_not_run_budget", not_run);
    rep.set("designs_skipped", json!(skipped));
    rep.set("async_cells_per_design", json!(cells_hist));
    rep.set("max_dispatches_per_run", max_disp);
    rep.set("schedules_requested", requested);
    rep.set("schedules_explored", schedules);
    rep.set("runs_with_midrun_swap", midrun);
    rep.set("designs_with_capped_dispatch_range", capped);
    // model-checking keys: a "state" is a (design, path, schedule) run, a transition one step of it
    rep.set("states", schedules);
    rep.set("transitions", midrun);
    rep.set("traces_validated_against_impl", schedules);
    rep.set("distinct_outputs", distinct.len() as u64);
    rep.set("exhaustive", not_run == 0 && capped == 0);
    rep.set(
        "rule",
        "per design and stimulus path: with publication 'never' count the async cells and each cell's dispatch attempts A_i; then every schedule in the product over cells of ({ready before own attempt k, k < A_i} ∪ {never}) on a fresh simulator (hook: cells compiled synchronously, published right before the chosen attempt); the full observation trace must equal the synchronous-cc trace and the JIT trace",
    );
    rep.assume("a cell's readiness is only observed at its own try_dispatch/try_dispatch_const calls (one OnceLock read per call), so publication points between two attempts of the same cell are equivalent");
    rep.assume("stimulus = a few fixed paths per design (not a BFS): the schedule dimension is enumerated exhaustively instead");
    if explored == 0 {
        rep.machinery("vacuity guard: no design with async cells was explored");
    } else if midrun == 0 {
        rep.machinery("vacuity guard: no run swapped to C in the middle of the run");
    }
    if distinct.len() < 2 && explored > 0 {
        rep.machinery("vacuity guard: fewer than 2 distinct reference traces");
    }
    rep
}

//! C12 — every token reports where it really is in the source.
//!
//! Space: layout deviations of the corpus (testcases/veryl + std sources + hand-written seeds) with
//! a position-hostile letter set (multi-byte characters in comments and strings, several comments
//! per line and per gap, comments before the first token, multi-line comments followed by more
//! text, CRLF, tabs): every single-gap deviation x every letter, every "all gaps at once"
//! deviation, every adjacent-gap pair (thorough / small files), every string literal replaced by
//! multi-byte strings. Only variants the parser accepts count.
//!
//! "The source" is the text the parser works on: `Parser::parse` lexes a newline-terminated copy
//! of its input and registers that copy in the text table (`gen_text::parser_view`).
//!
//! Oracle, for the stream of `TokenCollector::new(true)`:
//!   ordinary tokens   src[pos..pos+length] == text; length == byte length; pos non-decreasing,
//!                     no overlap; everything between two consecutive tokens is whitespace or
//!                     comments (no token missing from the stream); (line, column) == the
//!                     1-based line / 1-based *character* column of `pos` (lines end at '\n');
//!                     (end_line, end_column) designate the last character.
//!   comments          an own, boring scanner (gen_text::scan_gap, shares nothing with
//!                     `split_comment_token`) finds the comments of every inter-token gap; the
//!                     comments the stream attaches behind token k must be exactly the comments
//!                     of gap k, in order, with equal text; each must report the true byte offset,
//!                     byte length, line, character column and end position.
//! Line errors propagate to everything behind them, so per variant only the *first* item with a
//! wrong line is reported (its kind and context give the signature).

use crate::checks::gen_fmt::{VSpec, layout_specs, render_chunk};
use crate::checks::gen_text::*;
use crate::core::*;
use serde_json::{Value, json};
use std::collections::{BTreeMap, BTreeSet};

const STRING_LETTERS: [&str; 3] = ["\"é漢\"", "\"\\\"ü\\\\ \"", "\"😀 x\""];

#[derive(Debug, Clone)]
pub struct Finding {
    pub signature: String,
    pub what: String,
    pub token_index: usize,
    pub token: Value,
    pub expected: Value,
    pub observed: Value,
}

fn tok_json(t: &Tok) -> Value {
    json!({"text": clip(&t.text, 60), "pos": t.pos, "length": t.length, "line": t.line,
        "column": t.column, "end_line": t.end_line, "end_column": t.end_column, "comment": t.comment})
}

/// `-after-multibyte` when the reported column is what one gets by counting *bytes* (or anything
/// between characters and bytes) on a line whose prefix holds multi-byte text.
fn column_class(src: &str, true_pos: usize, reported: u32, true_col: u32) -> &'static str {
    let line_start = src[..true_pos].rfind('\n').map(|x| x + 1).unwrap_or(0);
    let before = &src[line_start..true_pos];
    let multibyte = before.len() != before.chars().count();
    if multibyte && reported > true_col && reported as usize <= before.len() + 1 {
        "-after-multibyte"
    } else {
        ""
    }
}

/// Class of a stretch of source no token of the stream covers: the uncovered text (if short) and
/// the first word of the line it stands on, e.g. `:;@mixin`.
fn missing_class(src: &str, from: usize, to: usize) -> String {
    let gap = &src[from..to];
    // the uncovered text with whitespace and comments taken out
    let mut text = String::new();
    let mut first: Option<usize> = None;
    let b = gap.as_bytes();
    let mut i = 0;
    while i < b.len() {
        if gap[i..].starts_with("//") {
            i = gap[i..].find('\n').map(|x| i + x + 1).unwrap_or(b.len());
        } else if gap[i..].starts_with("/*") {
            i = gap[i + 2..].find("*/").map(|x| i + 2 + x + 2).unwrap_or(b.len());
        } else {
            let ch = gap[i..].chars().next().unwrap();
            if !ch.is_whitespace() {
                first.get_or_insert(i);
                text.push(ch);
            }
            i += ch.len_utf8();
        }
    }
    let text = if text.chars().count() <= 3 { text } else { "text".to_string() };
    let at = from + first.unwrap_or(0);
    let line_start = src[..at].rfind('\n').map(|x| x + 1).unwrap_or(0);
    let word: String = src[line_start..].trim_start().chars().take_while(|c| c.is_alphanumeric() || *c == '_').collect();
    format!(":{text}@{}", if word.is_empty() { "-" } else { &word })
}

/// Checks one token stream (`toks`: TokenCollector(true) order, start token removed) against the
/// source `src` (parser view). At most one finding per signature.
pub fn check_stream(src: &str, toks: &[Tok]) -> Vec<Finding> {
    let mut out: BTreeMap<String, Finding> = BTreeMap::new();
    let mut line_error_reported = false;
    macro_rules! add {
        ($i:expr, $t:expr, $sig:expr, $what:expr, $exp:expr, $obs:expr) => {{
            let sig: String = $sig;
            out.entry(sig.clone()).or_insert_with(|| Finding {
                signature: sig,
                what: $what.to_string(),
                token_index: $i,
                token: tok_json($t),
                expected: $exp,
                observed: $obs,
            });
        }};
    }

    // ---- pass 1: ordinary tokens; computes the gaps (gap k = behind the k-th ordinary token,
    // gap 0 = before the first).
    let mut gaps: Vec<(usize, usize)> = vec![];
    let mut prev_end = 0usize;
    let mut cover_ok = true;
    for (i, t) in toks.iter().enumerate().filter(|(_, t)| !t.comment) {
        if t.length != t.text.len() {
            add!(i, t, "C12:token.length".into(), "token length is not the byte length of its text", json!(t.text.len()), json!(t.length));
        }
        let end = t.pos + t.text.len();
        if src.get(t.pos..end) != Some(t.text.as_str()) {
            add!(
                i,
                t,
                "C12:token.pos".into(),
                "src[pos..pos+length] is not the token text",
                json!(clip(&t.text, 60)),
                json!(src.get(t.pos..end.min(src.len())).map(|x| clip(x, 60)))
            );
            cover_ok = false;
            break;
        }
        if t.pos < prev_end {
            add!(i, t, "C12:token.order".into(), "tokens are not in source order / overlap", json!({"min_pos": prev_end}), json!(t.pos));
            cover_ok = false;
            break;
        }
        if scan_gap(&src[prev_end..t.pos], prev_end).is_none() {
            add!(
                i,
                t,
                format!("C12:token.missing-from-stream{}", missing_class(src, prev_end, t.pos)),
                "text between two consecutive tokens of the stream is neither whitespace nor comment: a token of the source is not reported at all",
                json!("whitespace/comments"),
                json!(clip(&src[prev_end..t.pos], 80))
            );
            cover_ok = false;
            break;
        }
        let (l, c) = line_col_of(src, t.pos);
        let mut start_ok = true;
        if t.line != l {
            start_ok = false;
            if !line_error_reported {
                line_error_reported = true;
                // Context class: the token starts directly behind a *lexer match* that ends in
                // '\n' (a comment run including its trailing whitespace, or an embed text piece):
                // the place where the scanner has to back up over a newline.
                let gap = &src[prev_end..t.pos];
                let behind_comment_run = gap.ends_with('\n') && true_comments(src, prev_end, t.pos).map(|c| !c.is_empty()).unwrap_or(false);
                let behind_token_newline = gap.is_empty() && t.pos > 0 && src.as_bytes()[t.pos - 1] == b'\n';
                let class = if behind_comment_run || behind_token_newline { "-after-match-ending-in-newline" } else { "" };
                add!(
                    i,
                    t,
                    format!("C12:token.line{class}"),
                    "token line differs from the line of its byte offset",
                    json!({"line": l, "column": c}),
                    json!({"line": t.line, "column": t.column})
                );
            }
        } else if t.column != c {
            start_ok = false;
            add!(
                i,
                t,
                format!("C12:token.column{}", column_class(src, t.pos, t.column, c)),
                "token column differs from the character column of its byte offset",
                json!(c),
                json!(t.column)
            );
        }
        if start_ok && !t.text.is_empty() {
            let (el, ec) = line_col_of(src, end);
            if t.end_line != el || t.end_column + 1 != ec {
                add!(
                    i,
                    t,
                    "C12:token.end".into(),
                    "token end_line/end_column do not designate its last character",
                    json!({"end_line": el, "end_column": ec - 1}),
                    json!({"end_line": t.end_line, "end_column": t.end_column})
                );
            }
        }
        gaps.push((prev_end, t.pos));
        prev_end = end;
    }
    if !cover_ok {
        return out.into_values().collect();
    }
    gaps.push((prev_end, src.len()));
    if scan_gap(&src[prev_end..], prev_end).is_none() {
        if let Some((i, t)) = toks.iter().enumerate().filter(|(_, t)| !t.comment).next_back() {
            add!(
                i,
                t,
                format!("C12:token.missing-from-stream{}", missing_class(src, prev_end, src.len())),
                "text behind the last token of the stream is neither whitespace nor comment: a token of the source is not reported at all",
                json!("whitespace/comments"),
                json!(clip(&src[prev_end..], 80))
            );
        }
        return out.into_values().collect();
    }

    // ---- pass 2: comments, gap by gap.
    let dummy = Tok::default();
    let mut k = 0usize; // current gap = number of ordinary tokens seen
    let mut i = 0usize;
    loop {
        // comments the stream attaches to gap k
        let mut mine: Vec<(usize, &Tok)> = vec![];
        while i < toks.len() && toks[i].comment {
            mine.push((i, &toks[i]));
            i += 1;
        }
        let (from, to) = gaps[k];
        let truth = true_comments(src, from, to).unwrap_or_default();
        if mine.len() != truth.len() {
            let (ti, tt) = mine.first().copied().unwrap_or_else(|| {
                if toks.is_empty() {
                    (0, &dummy)
                } else {
                    let j = i.min(toks.len() - 1);
                    (j, &toks[j])
                }
            });
            add!(
                ti,
                tt,
                "C12:comment.count".into(),
                "the comments attached behind a token are not the comments found in the gap behind it",
                json!({"gap": [from, to], "comments": truth.iter().map(|c| clip(&src[c.start..c.end], 40)).collect::<Vec<_>>()}),
                json!(mine.iter().map(|(_, t)| clip(&t.text, 40)).collect::<Vec<_>>())
            );
        }
        for ((ci, c), tr) in mine.iter().zip(truth.iter()) {
            let (ci, c) = (*ci, *c);
            let ttext = &src[tr.start..tr.end];
            if c.text != ttext {
                add!(ci, c, "C12:comment.text".into(), "comment text differs from the comment in the source", json!(clip(ttext, 80)), json!(clip(&c.text, 80)));
                continue;
            }
            if c.length != c.text.len() {
                add!(ci, c, "C12:comment.length".into(), "comment length is not the byte length of its text", json!(c.text.len()), json!(c.length));
            }
            if c.pos != tr.start {
                add!(
                    ci,
                    c,
                    "C12:comment.pos".into(),
                    "comment pos is not the byte offset of the comment in the source",
                    json!({"pos": tr.start}),
                    json!({"pos": c.pos, "text_at_pos": src.get(c.pos..(c.pos + c.text.len()).min(src.len())).map(|x| clip(x, 40))})
                );
            }
            let (l, col) = line_col_of(src, tr.start);
            let mut start_ok = true;
            if c.line != l {
                start_ok = false;
                if !line_error_reported {
                    line_error_reported = true;
                    add!(
                        ci,
                        c,
                        "C12:comment.line".into(),
                        "comment line differs from the line it is on",
                        json!({"line": l, "column": col}),
                        json!({"line": c.line, "column": c.column})
                    );
                }
            } else if c.column != col {
                start_ok = false;
                add!(
                    ci,
                    c,
                    format!("C12:comment.column{}", column_class(src, tr.start, c.column, col)),
                    "comment column differs from the character column it is at",
                    json!(col),
                    json!(c.column)
                );
            }
            if start_ok {
                let (el, ec) = line_col_of(src, tr.end);
                if c.end_line != el || c.end_column + 1 != ec {
                    add!(
                        ci,
                        c,
                        "C12:comment.end".into(),
                        "comment end_line/end_column do not designate its last character",
                        json!({"end_line": el, "end_column": ec - 1}),
                        json!({"end_line": c.end_line, "end_column": c.end_column})
                    );
                }
            }
        }
        if i >= toks.len() {
            break;
        }
        // toks[i] is an ordinary token: it opens the next gap; keep the line bookkeeping order
        // (a wrong token line in front of a comment was already reported in pass 1).
        i += 1;
        k += 1;
    }
    out.into_values().collect()
}

#[derive(Default)]
pub struct VariantResult {
    pub parsed: bool,
    pub rejected: Option<String>,
    pub tokens: usize,
    pub comments: usize,
    pub multibyte_tokens: usize,
    pub findings: Vec<Finding>,
    pub shape: u64,
}

fn run_variant(text: &String) -> VariantResult {
    let mut r = VariantResult::default();
    match collect_tokens_here(text, true) {
        Ok(toks) => {
            r.parsed = true;
            r.tokens = toks.iter().filter(|t| !t.comment).count();
            r.comments = toks.iter().filter(|t| t.comment).count();
            r.multibyte_tokens = toks.iter().filter(|t| t.text.len() != t.text.chars().count()).count();
            r.findings = check_stream(&parser_view(text), &toks);
            let mut h = blake3::Hasher::new();
            for t in &toks {
                h.update(&(t.line as u64).to_le_bytes());
                h.update(&(t.column as u64).to_le_bytes());
                h.update(&(t.pos as u64).to_le_bytes());
            }
            r.shape = u64::from_le_bytes(h.finalize().as_bytes()[..8].try_into().unwrap());
        }
        Err(e) => r.rejected = Some(e),
    }
    r
}

#[derive(Clone)]
struct Variant {
    file: usize,
    desc: String,
    text: String,
}

/// Letter-index pairs for two-deviation variants (indices into the run's letter list): the second
/// run starts right behind a token that itself follows a hostile run.
const C12_PAIRS: [(usize, usize); 5] = [(0, 1), (3, 0), (8, 4), (2, 6), (4, 10)];

/// Variant specs of one corpus file: layout deviations plus every string literal replaced by
/// multi-byte strings (with and without comments behind).
fn specs_of(lay: &Layout, letters: &[&str], all_pairs: bool) -> Vec<VSpec> {
    let mut vs = layout_specs(lay, letters, &C12_PAIRS, true, all_pairs);
    for i in 0..lay.items.len() {
        if lay.items[i].kind == ItemKind::Token && lay.item_text(i).starts_with('"') {
            for s in STRING_LETTERS {
                vs.push(VSpec::Item(i, s.to_string()));
                vs.push(VSpec::Item(i, format!("{s} /* é */ /* ü */ ")));
            }
        }
    }
    vs
}

pub const SEEDS: [(&str, &str); 13] = [
    ("seed:design-5.1", "/* a */ /* é */ /* c */ module A {} // x"),
    ("seed:two-comments-ascii", "module A {} /* a */ /* b */\n"),
    ("seed:comment-after-token", "module A { /* a */ }\n"),
    ("seed:leading-comment", "// lead\nmodule A {}\n"),
    ("seed:leading-comments-multibyte", "/* é */ // ü\n /* 漢 */ module A {}\n"),
    ("seed:multibyte-string", "module A { initial { $display(\"é漢\", 1); } }\n"),
    ("seed:multibyte-string-then-comments", "module A { initial { $display(\"é漢\" /* a */ /* b */, 1); } }\n"),
    ("seed:multiline-comment", "module A { /* a\n é */ /* b */ }\n"),
    ("seed:crlf", "module A {\r\n  // c\r\n  /* d */ /* e */\r\n}\r\n"),
    ("seed:slash-after-comment-line", "module A {\n  assign a = 1 // c\n/ 3;\n}\n"),
    ("seed:doc-comments", "/// d1\n/// é\nmodule A (\n    /// p\n    a: input logic, // t\n) {}\n"),
    ("seed:no-trailing-newline-comment", "module A {} // x"),
    ("seed:mixin", "interface A {\n    var a: logic;\n}\ninterface B {\n    mixin A; // m\n    var b: logic;\n}\n"),
];

pub fn run(ctx: &Ctx) -> Report {
    install_quiet_panic_hook();
    let mut rep = Report::new(Level::Exploration);
    let budget = ctx.budget(30.0, 1100.0);
    let mut corpus = load_corpus(true, false);
    sort_smallest_first(&mut corpus);
    if ctx.seed != 0 && !corpus.is_empty() {
        // shard order only: rotate among the files; coverage under a budget cap may differ, the
        // verdict on any covered variant does not
        let k = (ctx.seed as usize) % corpus.len();
        corpus.rotate_left(k);
    }
    let mut all_letters: Vec<&str> = HOSTILE_LETTERS.to_vec();
    all_letters.extend(["\t", "\r\n", " /* c */ ", " // c\n", "", "\n/// d\n"]);
    rep.set("corpus_files", corpus.len() as u64);
    rep.set("letters", all_letters.len() as u64);
    rep.set(
        "rule",
        "a variant is non-trivial if the parser accepts it and its stream holds at least one comment token and one multi-byte token; distinct = distinct (line,column,pos) vectors of such variants",
    );

    let mut files_done = 0usize;
    let mut files_skipped = 0usize;
    let mut exhaustive = true;
    let mut shapes: BTreeSet<u64> = BTreeSet::new();
    let mut by_sig: BTreeMap<String, (usize, Variant, Finding)> = BTreeMap::new();
    let mut panics = 0u64;

    let mut absorb = |rep: &mut Report, vs: &[Variant], rs: Vec<Result<VariantResult, String>>, shapes: &mut BTreeSet<u64>, by_sig: &mut BTreeMap<String, (usize, Variant, Finding)>| {
        for (v, r) in vs.iter().zip(rs) {
            rep.add("evaluations", 1);
            let r = match r {
                Ok(r) => r,
                Err(p) => {
                    panics += 1;
                    if rep.notes.len() < 20 {
                        rep.notes.push(format!("parser panicked on {} of file #{}: {}", v.desc, v.file, p));
                    }
                    continue;
                }
            };
            if r.rejected.is_some() {
                rep.add("variants_rejected_by_parser", 1);
                continue;
            }
            rep.add("variants_parsed", 1);
            rep.add("tokens_checked", r.tokens as u64);
            rep.add("comments_checked", r.comments as u64);
            rep.add("multibyte_tokens_checked", r.multibyte_tokens as u64);
            if r.comments > 0 && r.multibyte_tokens > 0 {
                shapes.insert(r.shape);
            }
            for f in r.findings {
                let e = by_sig.entry(f.signature.clone()).or_insert((0, v.clone(), f.clone()));
                e.0 += 1;
                if v.text.len() < e.1.text.len() {
                    e.1 = v.clone(); // smallest input is the witness
                    e.2 = f;
                }
            }
        }
    };

    // hand-written minimal inputs are always part of the space
    {
        let vs: Vec<Variant> = SEEDS
            .iter()
            .map(|(d, t)| Variant {
                file: usize::MAX,
                desc: d.to_string(),
                text: t.to_string(),
            })
            .collect();
        let texts: Vec<String> = vs.iter().map(|v| v.text.clone()).collect();
        let rs = batch_isolated(STACK, 1, &texts, run_variant);
        let rejected = rs.iter().filter(|r| !matches!(r, Ok(x) if x.parsed)).count();
        if rejected > 0 {
            rep.machinery(format!("{rejected} hand-written seed input(s) rejected by the parser"));
        }
        absorb(&mut rep, &vs, rs, &mut shapes, &mut by_sig);
    }

    for (fi, f) in corpus.iter().enumerate() {
        if ctx.elapsed() > budget {
            exhaustive = false;
            break;
        }
        let lay = match Layout::new(&f.text) {
            Ok(l) => l,
            Err(e) => {
                // no variants without a layout, but the file itself is still judged
                files_skipped += 1;
                rep.notes.push(format!("corpus file {}: only the unchanged text is checked, no variants: {}", f.name, clip(&e, 120)));
                let vs = vec![Variant {
                    file: fi,
                    desc: "unchanged".into(),
                    text: f.text.clone(),
                }];
                let rs = batch_isolated(STACK, 1, &[f.text.clone()], run_variant);
                absorb(&mut rep, &vs, rs, &mut shapes, &mut by_sig);
                continue;
            }
        };
        let specs = specs_of(&lay, &all_letters, ctx.thorough() && lay.n_tokens() <= 60);
        let mut seen = BTreeSet::new();
        // chunked so that the budget can stop inside a big file
        let mut done = 0usize;
        let mut complete = true;
        while done < specs.len() {
            if ctx.elapsed() > budget {
                complete = false;
                break;
            }
            let end = (done + 2048).min(specs.len());
            let vs: Vec<Variant> = render_chunk(&f.text, &lay, &all_letters, &specs[done..end], &mut seen)
                .into_iter()
                .map(|v| Variant {
                    file: fi,
                    desc: v.desc,
                    text: v.text,
                })
                .collect();
            let texts: Vec<String> = vs.iter().map(|v| v.text.clone()).collect();
            let rs = batch_isolated(STACK, 32, &texts, run_variant);
            absorb(&mut rep, &vs, rs, &mut shapes, &mut by_sig);
            done = end;
        }
        if !complete {
            exhaustive = false;
            rep.notes.push(format!("budget reached inside file {} ({} of {} variant specs)", f.name, done, specs.len()));
            break;
        }
        files_done += 1;
    }

    rep.set("files_fully_covered", files_done as u64);
    rep.set("files_without_variants_stream_does_not_cover_source", files_skipped as u64);
    rep.set("exhaustive", exhaustive && files_done + files_skipped == corpus.len());
    rep.set(
        "bound",
        "per file: every single-gap deviation x every letter, every uniform deviation, adjacent-gap pairs x 5 letter pairs (thorough: all gap pairs in files <= 60 tokens), every string literal x 3 multi-byte strings (x with/without comments behind); files smallest first until the budget",
    );
    rep.set("distinct_nontrivial", shapes.len() as u64);
    rep.set("parser_panics", panics);
    if panics > 0 {
        rep.machinery(format!("{panics} parser panics while tokenising (C10's business); see notes"));
    }
    if rep.get_u64("variants_parsed") < 100 || shapes.len() < 2 || rep.get_u64("comments_checked") == 0 || rep.get_u64("multibyte_tokens_checked") == 0 {
        rep.machinery("vacuous run: too few parsed variants / comments / multi-byte tokens");
    }
    let parsed = rep.get_u64("variants_parsed");
    let evals = rep.get_u64("evaluations");
    if evals > 0 && (parsed as f64) < 0.5 * evals as f64 {
        rep.machinery(format!("generator problem: only {parsed} of {evals} variants parse"));
    }

    for (sig, (count, v, f)) in by_sig {
        rep.sample(json!({"signature": sig, "cases": count, "smallest_input": clip(&v.text, 200)}));
        rep.violation(Violation {
            signature: sig,
            what: f.what.clone(),
            case: json!({"input": v.text, "derivation": v.desc, "corpus_file": if v.file == usize::MAX { "-".to_string() } else { corpus[v.file].name.clone() },
                "token_index": f.token_index, "token": f.token, "cases_in_run": count}),
            expected: f.expected,
            observed: f.observed,
        });
    }
    if rep.coverage.get("samples").is_none() {
        rep.sample(json!({"input": SEEDS[0].1, "result": "all positions consistent"}));
    }
    rep
}

pub fn replay(doc: &Value) -> i32 {
    install_quiet_panic_hook();
    let Some(input) = doc["case"]["input"].as_str() else {
        eprintln!("replay file has no case.input");
        return 2;
    };
    let rs = batch_isolated(STACK, 1, &[input.to_string()], run_variant);
    let r = match rs.into_iter().next() {
        Some(Ok(r)) => r,
        Some(Err(p)) => {
            println!("parser panicked: {p}");
            return 2;
        }
        None => return 2,
    };
    if !r.parsed {
        println!("input no longer parses: {:?}", r.rejected);
        return 2;
    }
    if std::env::var("VMC_DUMP").is_ok() {
        if let Ok(toks) = tokens_isolated(input, true, STACK) {
            for t in toks {
                println!("{}", tok_json(&t));
            }
        }
    }
    let want = doc["signature"].as_str().unwrap_or("");
    let mut code = 0;
    for f in &r.findings {
        println!("{}: {} expected={} observed={} token={}", f.signature, f.what, f.expected, f.observed, f.token);
        if f.signature == want {
            code = 1;
        }
    }
    if code == 0 {
        println!("signature {want} not reproduced ({} other finding(s))", r.findings.len());
    }
    code
}

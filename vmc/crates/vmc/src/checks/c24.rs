//! C24 — build results do not depend on file order or the run.
//!
//! Engine E1 on the real `veryl` binary. A project is a dependency-closed subset (<= 4 files) of a
//! pool of items (packages, an interface, a generic module, a generic package, importers, users
//! of generics, two `$sv::` users, cross-file struct/enum types, a module with a warning). Every
//! project is built under ALL n! processing orders, imposed without a hook in two ways:
//!  * `sources`: every item lives in its own source root `r_<item>/`, and `sources = [...]` is
//!    permuted — all paths stay the same, so the whole output tree must be byte-identical;
//!  * `rename`: one root, files named `p<pos>_<item>.veryl` (the CLI walks in file-name order);
//!    outputs are compared per item with the `p<pos>_` prefix removed.
//! Configuration dimension: `[build] error_count_limit` in {0 (default, key absent), 1}: the knob
//! that bounds how many diagnostics the CLI keeps, i.e. the one configuration under which "the set
//! of diagnostics" could become "the first N in processing order". Every (project, mechanism) is
//! run under every limit; the enumeration is project-major so a budget cut never drops a limit.
//! Observed: every `.sv`, every `.sv.map`, the diagnostics of `veryl check` (multiset of rendered
//! blocks) and exit codes. The filelist is compared too but only counted (C25 owns it).
//! Repeated-run clause: the same project is built N times from scratch in fresh processes
//! (`repeated_runs`, not exhaustive — std `RandomState` cannot be enumerated).

use super::projgen::all_permutations;
use crate::core::*;
use crate::proj::{self, Sandbox};
use rayon::prelude::*;
use serde_json::{Value, json};
use std::collections::{BTreeMap, BTreeSet};

pub struct Item {
    pub name: &'static str,
    pub deps: &'static [&'static str],
    pub text: &'static str,
}

pub const POOL: &[Item] = &[
    // The two dependency-free warning items come first: the smallest project whose diagnostics
    // come from two different files (`wn+wn3`) is then the first project of the enumeration, so
    // even a heavily cut quick run compares a multi-file diagnostic set under every configuration.
    Item {
        name: "wn",
        deps: &[],
        text: "module WN (\n    i_a: input  logic<4>,\n    o_a: output logic<4>,\n) {\n    var unused_w: logic<4>;\n    assign o_a = i_a;\n}\n",
    },
    Item {
        name: "wn3",
        deps: &[],
        text: "module WN3 (\n    i_a: input  logic<2>,\n    o_a: output logic<2>,\n) {\n    var unused_y: logic<2>;\n    assign o_a = i_a;\n}\n",
    },
    Item {
        name: "pa",
        deps: &[],
        text: "/// package PA\npackage PA {\n    const W: u32 = 4;\n    struct S {\n        a: logic<W>,\n        b: logic   ,\n    }\n    enum E: logic<2> {\n        X,\n        Y,\n        Z,\n    }\n    function inc (\n        x: input logic<W>,\n    ) -> logic<W> {\n        return x + 1;\n    }\n}\n",
    },
    Item {
        name: "pb",
        deps: &["pa"],
        text: "package PB {\n    import PA::*;\n    const W2: u32 = W * 2;\n    struct T {\n        s: S        ,\n        e: E        ,\n        w: logic<W2>,\n    }\n}\n",
    },
    Item {
        name: "ia",
        deps: &["pa"],
        text: "interface IA {\n    var v: logic<PA::W>;\n    var r: logic       ;\n    modport src {\n        v: output,\n        r: input ,\n    }\n    modport dst {\n        v: input ,\n        r: output,\n    }\n}\n",
    },
    Item {
        name: "ga",
        deps: &[],
        text: "pub module GA::<N: u32> (\n    i_d: input  logic<N>,\n    o_d: output logic<N>,\n) {\n    assign o_d = ~i_d;\n}\n",
    },
    Item { name: "gp", deps: &[], text: "package GP::<N: u32> {\n    const V: u32 = N + 1;\n}\n" },
    Item {
        name: "ua",
        deps: &["pa"],
        text: "module UA (\n    i_s: input  PA::S,\n    o_s: output PA::S,\n    o_e: output PA::E,\n) {\n    import PA::*;\n    always_comb {\n        o_s.a = inc(i_s.a);\n        o_s.b = i_s.b;\n        o_e   = if i_s.b ? E::Y : E::Z;\n    }\n}\n",
    },
    Item {
        name: "ug4",
        deps: &["ga"],
        text: "module UG4 (\n    i_a: input  logic<4>,\n    o_a: output logic<4>,\n    i_b: input  logic<8>,\n    o_b: output logic<8>,\n) {\n    inst g4: GA::<4> (\n        i_d: i_a,\n        o_d: o_a,\n    );\n    inst g8: GA::<8> (\n        i_d: i_b,\n        o_d: o_b,\n    );\n}\n",
    },
    Item {
        name: "ug8",
        deps: &["ga"],
        text: "module UG8 (\n    i_a: input  logic<8>,\n    o_a: output logic<8>,\n    i_b: input  logic<2>,\n    o_b: output logic<2>,\n) {\n    inst g8: GA::<8> (\n        i_d: i_a,\n        o_d: o_a,\n    );\n    inst g2: GA::<2> (\n        i_d: i_b,\n        o_d: o_b,\n    );\n}\n",
    },
    Item { name: "up", deps: &["gp"], text: "module UP (\n    o_a: output logic<8>,\n) {\n    assign o_a = GP::<4>::V + GP::<2>::V;\n}\n" },
    Item { name: "up2", deps: &["gp"], text: "module UP2 (\n    o_a: output logic<8>,\n) {\n    assign o_a = GP::<2>::V + GP::<7>::V;\n}\n" },
    Item {
        name: "ui",
        deps: &["ia", "pa"],
        text: "module UI (\n    i_v: input  logic<4>,\n    o_v: output logic<4>,\n) {\n    inst bus: IA;\n    always_comb {\n        bus.v = i_v;\n        bus.r = 1;\n    }\n    assign o_v = bus.v;\n}\n",
    },
    Item { name: "ut", deps: &["pb", "pa"], text: "module UT (\n    i_t: input  PB::T,\n    o_w: output logic<PB::W2>,\n) {\n    assign o_w = i_t.w;\n}\n" },
    Item {
        name: "sv1",
        deps: &[],
        text: "module SV1 (\n    i_a: input  logic<4>,\n    o_a: output logic<4>,\n) {\n    inst u: $sv::ext_ip (\n        a: i_a,\n        y: o_a,\n    );\n    let _k: logic<4> = $sv::ext_pkg::K;\n}\n",
    },
    Item {
        name: "sv2",
        deps: &[],
        text: "module SV2 (\n    i_a: input  logic<4>,\n    o_a: output logic<4>,\n) {\n    let _k: logic<4> = $sv::ext_pkg::K;\n    inst u: $sv::ext_ip (\n        a: i_a,\n        y: o_a,\n    );\n}\n",
    },
    Item {
        name: "wn2",
        deps: &["pa"],
        text: "module WN2 (\n    i_a: input  logic<PA::W>,\n    o_a: output logic<PA::W>,\n) {\n    var unused_x: PA::S;\n    assign o_a = i_a;\n}\n",
    },
];

fn item(name: &str) -> &'static Item {
    POOL.iter().find(|i| i.name == name).expect("pool item")
}

/// Dependency-closed subsets of the pool with `n` items, as sorted index lists.
fn projects(n: usize) -> Vec<Vec<usize>> {
    fn rec(start: usize, n: usize, cur: &mut Vec<usize>, out: &mut Vec<Vec<usize>>) {
        if cur.len() == n {
            let names: BTreeSet<&str> = cur.iter().map(|i| POOL[*i].name).collect();
            if cur.iter().all(|i| POOL[*i].deps.iter().all(|d| names.contains(d))) {
                out.push(cur.clone());
            }
            return;
        }
        for i in start..POOL.len() {
            cur.push(i);
            rec(i + 1, n, cur, out);
            cur.pop();
        }
    }
    let mut out = vec![];
    rec(0, n, &mut vec![], &mut out);
    out
}

/// Values of `[build] error_count_limit`; 0 is veryl's default (unlimited) and is written by
/// leaving the key out, so that member of the family is the plain default configuration.
pub const LIMITS: [u32; 2] = [0, 1];

fn toml(sources: &[String], limit: u32) -> String {
    let srcs = sources.iter().map(|s| format!("\"{s}\"")).collect::<Vec<_>>().join(", ");
    let lim = if limit == 0 { String::new() } else { format!("error_count_limit = {limit}\n") };
    format!(
        "[project]\nname = \"prj\"\nversion = \"0.1.0\"\n\n[build]\nclock_type = \"posedge\"\nreset_type = \"async_low\"\nexclude_std = true\nsources = [{srcs}]\ntarget = {{type = \"directory\", path = \"target\"}}\nsourcemap_target = {{type = \"directory\", path = \"map\"}}\nfilelist_type = \"relative\"\n{lim}"
    )
}

#[derive(Clone, Copy, Debug, PartialEq, Eq, PartialOrd, Ord)]
pub enum Mech {
    Sources,
    Rename,
}

impl Mech {
    fn name(&self) -> &'static str {
        match self {
            Mech::Sources => "sources",
            Mech::Rename => "rename",
        }
    }
}

/// Files of a project under a processing order (`order[pos]` = index into `items`).
fn layout(items: &[&'static Item], order: &[usize], mech: Mech, limit: u32) -> Vec<(String, String)> {
    let mut files = vec![];
    match mech {
        Mech::Sources => {
            let srcs: Vec<String> = order.iter().map(|i| format!("r_{}", items[*i].name)).collect();
            files.push(("Veryl.toml".to_string(), toml(&srcs, limit)));
            for it in items {
                files.push((format!("r_{}/{}.veryl", it.name, it.name), it.text.to_string()));
            }
        }
        Mech::Rename => {
            files.push(("Veryl.toml".to_string(), toml(&["src".to_string()], limit)));
            for (pos, i) in order.iter().enumerate() {
                files.push((format!("src/p{pos}_{}.veryl", items[*i].name), items[*i].text.to_string()));
            }
        }
    }
    files
}

fn strip_pos(s: &str) -> String {
    // remove every `p<digit>_` that precedes an item name
    let mut out = String::with_capacity(s.len());
    let b = s.as_bytes();
    let mut i = 0;
    while i < b.len() {
        if b[i] == b'p' && i + 2 < b.len() && b[i + 1].is_ascii_digit() && b[i + 2] == b'_' && (i == 0 || !(b[i - 1].is_ascii_alphanumeric() || b[i - 1] == b'_')) {
            i += 3;
            continue;
        }
        out.push(b[i] as char);
        i += 1;
    }
    out
}

#[derive(Clone, Debug, PartialEq, Eq)]
struct Obs {
    build_exit: i32,
    check_exit: i32,
    /// normalised relative path -> content
    sv: BTreeMap<String, String>,
    maps: BTreeMap<String, String>,
    diags: Vec<String>,
    filelist: String,
    processed: Vec<String>,
}

fn observe(sb: &Sandbox, files: &[(String, String)], mech: Mech) -> Obs {
    let p = sb.proj();
    let _ = std::fs::remove_dir_all(&p);
    std::fs::create_dir_all(&p).unwrap();
    for (rel, text) in files {
        let f = p.join(rel);
        std::fs::create_dir_all(f.parent().unwrap()).unwrap();
        std::fs::write(&f, text).unwrap();
    }
    let b = super::projgen::veryl(sb, &["build"]);
    let processed: Vec<String> = b.stderr.lines().filter_map(|l| l.split("Processing file (").nth(1)).map(|x| x.trim_end_matches(')').rsplit('/').next().unwrap_or("").to_string()).collect();
    let norm = |s: &str| if mech == Mech::Rename { strip_pos(s) } else { s.to_string() };
    let mut sv = BTreeMap::new();
    let mut maps = BTreeMap::new();
    for e in walkdir::WalkDir::new(&p).sort_by_file_name().into_iter().flatten() {
        if !e.file_type().is_file() {
            continue;
        }
        let rel = e.path().strip_prefix(&p).unwrap().to_string_lossy().to_string();
        if rel.starts_with(".build") {
            continue;
        }
        if rel.ends_with(".sv.map") {
            maps.insert(norm(&rel), norm(&String::from_utf8_lossy(&std::fs::read(e.path()).unwrap_or_default())));
        } else if rel.ends_with(".sv") {
            sv.insert(norm(&rel), norm(&std::fs::read_to_string(e.path()).unwrap_or_default()));
        }
    }
    let filelist = norm(&std::fs::read_to_string(p.join("prj.f")).unwrap_or_default());
    let c = super::projgen::veryl(sb, &["check"]);
    let mut diags: Vec<String> = proj::diag_blocks(&c.stderr).iter().map(|d| norm(d)).collect();
    diags.extend(proj::diag_blocks(&b.stderr).iter().map(|d| format!("[build] {}", norm(d))));
    diags.sort();
    Obs { build_exit: b.code, check_exit: c.code, sv, maps, diags, filelist, processed }
}

struct ProjResult {
    label: String,
    n: usize,
    orders_run: usize,
    skipped: Option<String>,
    violations: Vec<Violation>,
    filelist_differs: bool,
    has_diag: bool,
    /// number of files that carry a warning by construction (pool items `wn*`)
    warning_files: usize,
    outputs: usize,
    order_effective: usize,
    /// the time budget ended before all n! orders were run
    incomplete: bool,
}

fn run_project(sb: &Sandbox, idx: &[usize], mech: Mech, limit: u32, over_budget: &dyn Fn() -> bool) -> ProjResult {
    let items: Vec<&'static Item> = idx.iter().map(|i| &POOL[*i]).collect();
    let n = items.len();
    let label = items.iter().map(|i| i.name).collect::<Vec<_>>().join("+");
    let mut res = ProjResult { label: label.clone(), n, orders_run: 0, skipped: None, violations: vec![], filelist_differs: false, has_diag: false, warning_files: items.iter().filter(|i| i.name.starts_with("wn")).count(), outputs: 0, order_effective: 0, incomplete: false };
    let perms = all_permutations(n);
    let base_files = layout(&items, &perms[0], mech, limit);
    let base = observe(sb, &base_files, mech);
    if base.build_exit != 0 || base.diags.iter().any(|d| d.contains("Error:") && !d.contains("veryl check failed")) {
        res.skipped = Some(format!("baseline order not clean: build exit {} diags {:?}", base.build_exit, base.diags.first()));
        return res;
    }
    res.has_diag = base.diags.iter().any(|d| d.contains("Warning"));
    res.outputs = base.sv.len() + base.maps.len();
    res.orders_run = 1;
    let expected_names = |order: &[usize]| -> Vec<String> { order.iter().map(|i| items[*i].name.to_string()).collect() };
    let mut seen_sig = BTreeSet::new();
    for perm in perms.iter().skip(1) {
        if over_budget() {
            res.incomplete = true;
            break;
        }
        let files = layout(&items, perm, mech, limit);
        let o = observe(sb, &files, mech);
        res.orders_run += 1;
        // did the order really take effect?
        let got: Vec<String> = o.processed.iter().map(|f| strip_pos(f.trim_end_matches(".veryl"))).collect();
        if got == expected_names(perm) {
            res.order_effective += 1;
        }
        let case = |what: &str| {
            json!({
                "mechanism": mech.name(),
                "error_count_limit": limit,
                "project": label,
                "baseline_order": expected_names(&perms[0]),
                "order": expected_names(perm),
                "files": files.iter().map(|(a, b)| json!({"path": a, "text": b})).collect::<Vec<_>>(),
                "differs_in": what,
            })
        };
        let mut push = |sig: String, what: String, exp: Value, obs: Value, case: Value| {
            if seen_sig.insert(sig.clone()) {
                res.violations.push(Violation { signature: sig, what, case, expected: exp, observed: obs });
            }
        };
        if o.build_exit != base.build_exit || o.check_exit != base.check_exit {
            push(
                format!("C24:exit:{}", label),
                format!("exit status of build/check depends on the processing order ({})", mech.name()),
                json!({"build": base.build_exit, "check": base.check_exit}),
                json!({"build": o.build_exit, "check": o.check_exit, "diagnostics": o.diags}),
                case("exit"),
            );
            continue;
        }
        let keys: BTreeSet<&String> = base.sv.keys().chain(o.sv.keys()).collect();
        for k in keys {
            if base.sv.get(k) != o.sv.get(k) {
                let it = k.rsplit('/').next().unwrap_or(k).trim_end_matches(".sv").to_string();
                push(
                    format!("C24:sv:{it}"),
                    format!("emitted text of `{k}` depends on the order in which the files are processed ({})", mech.name()),
                    json!(base.sv.get(k)),
                    json!(o.sv.get(k)),
                    case(k),
                );
            }
        }
        let keys: BTreeSet<&String> = base.maps.keys().chain(o.maps.keys()).collect();
        for k in keys {
            if base.maps.get(k) != o.maps.get(k) {
                let it = k.rsplit('/').next().unwrap_or(k).trim_end_matches(".sv.map").to_string();
                // a map necessarily differs when its .sv differs: report only otherwise
                let svk = base.sv.keys().find(|s| s.ends_with(&format!("/{it}.sv")) || **s == format!("{it}.sv"));
                let sv_same = svk.map(|s| base.sv.get(s) == o.sv.get(s)).unwrap_or(true);
                if sv_same {
                    push(
                        format!("C24:map:{it}"),
                        format!("source map `{k}` depends on the processing order although the emitted text does not ({})", mech.name()),
                        json!(base.maps.get(k)),
                        json!(o.maps.get(k)),
                        case(k),
                    );
                }
            }
        }
        if base.diags != o.diags {
            push(
                if limit == 0 { format!("C24:diagnostics:{label}") } else { format!("C24:diagnostics:error_count_limit={limit}:{label}") },
                format!("the multiset of diagnostics depends on the processing order ({}, error_count_limit = {limit})", mech.name()),
                json!(base.diags),
                json!(o.diags),
                case("diagnostics"),
            );
        }
        if base.filelist != o.filelist {
            res.filelist_differs = true;
        }
    }
    res
}

fn repeated_runs(sb: &Sandbox, idx: &[usize], times: usize) -> (usize, Option<Violation>) {
    let items: Vec<&'static Item> = idx.iter().map(|i| &POOL[*i]).collect();
    let order: Vec<usize> = (0..items.len()).collect();
    let files = layout(&items, &order, Mech::Sources, 0);
    let base = observe(sb, &files, Mech::Sources);
    for t in 1..times {
        // fresh process, fresh tree, fresh cache directories
        let _ = std::fs::remove_dir_all(sb.root.join("cache"));
        let _ = std::fs::create_dir_all(sb.root.join("cache"));
        let o = observe(sb, &files, Mech::Sources);
        if o != base {
            let label = items.iter().map(|i| i.name).collect::<Vec<_>>().join("+");
            return (
                t + 1,
                Some(Violation {
                    signature: format!("C24:repeated-run:{label}"),
                    what: "two from-scratch builds of the same tree in fresh processes differ".into(),
                    case: json!({"project": label, "run": t + 1, "files": files.iter().map(|(a, b)| json!({"path": a, "text": b})).collect::<Vec<_>>()}),
                    expected: json!({"sv": base.sv, "diagnostics": base.diags, "filelist": base.filelist}),
                    observed: json!({"sv": o.sv, "diagnostics": o.diags, "filelist": o.filelist}),
                }),
            );
        }
    }
    (times, None)
}

pub fn run(ctx: &Ctx) -> Report {
    let mut rep = Report::new(Level::Exploration);
    if let Err(e) = proj::ensure_canon() {
        rep.machinery(e);
        return rep;
    }
    let budget = ctx.budget(30.0, 660.0);
    let nthreads = rayon::current_num_threads().max(1);
    let sandboxes: Vec<Sandbox> = (0..nthreads + 1).map(|i| Sandbox::new(&ctx.scratch.join(format!("w{i}")))).collect();

    let max_n = if ctx.thorough() { 4 } else { 3 };
    // task list: (n, mech, project, limit), smaller n first, `sources` mechanism first, the
    // configuration dimension innermost (a project is run under every limit before the next one)
    let mut tasks: Vec<(usize, Mech, Vec<usize>, u32)> = vec![];
    let mut requested: BTreeMap<String, u64> = BTreeMap::new();
    for n in 2..=max_n {
        for mech in [Mech::Sources, Mech::Rename] {
            // the rename mechanism is run on every project only in the thorough tier for n = 4
            for p in projects(n) {
                for limit in LIMITS {
                    *requested.entry(format!("n{n}.{}.limit{limit}", mech.name())).or_default() += 1;
                    tasks.push((n, mech, p.clone(), limit));
                }
            }
        }
    }
    let capped = std::sync::atomic::AtomicBool::new(false);
    let results: Vec<Option<ProjResult>> = super::projgen::par_in_order(&tasks, |w, (_, mech, p, limit)| {
        if ctx.elapsed() > budget * 0.8 {
            capped.store(true, std::sync::atomic::Ordering::Relaxed);
            return None;
        }
        Some(run_project(&sandboxes[w], p, *mech, *limit, &|| ctx.elapsed() > budget * 0.8))
    });

    let mut evaluations = 0u64;
    let mut projects_done: BTreeMap<String, u64> = BTreeMap::new();
    let mut nontrivial = 0u64;
    let mut skipped = 0u64;
    let mut filelist_differs = 0u64;
    let mut with_diags = 0u64;
    let mut over_limit = 0u64;
    let mut effective = 0u64;
    let mut projects_partial = 0u64;
    let mut sig_count: BTreeMap<String, u64> = BTreeMap::new();
    for ((n, mech, _, limit), r) in tasks.iter().zip(results.into_iter()) {
        let Some(r) = r else { continue };
        if let Some(s) = r.skipped {
            skipped += 1;
            if rep.notes.len() < 10 {
                rep.notes.push(format!("skipped {} ({}, limit {limit}): {}", r.label, mech.name(), s.chars().take(300).collect::<String>()));
            }
            continue;
        }
        evaluations += r.orders_run as u64;
        effective += r.order_effective as u64;
        if r.incomplete {
            capped.store(true, std::sync::atomic::Ordering::Relaxed);
            projects_partial += 1;
        } else {
            *projects_done.entry(format!("n{n}.{}.limit{limit}", mech.name())).or_default() += 1;
        }
        if r.n >= 2 && r.outputs >= 2 && r.orders_run >= 2 {
            nontrivial += 1;
        }
        if r.filelist_differs {
            filelist_differs += 1;
        }
        if r.has_diag {
            with_diags += 1;
        }
        if *limit > 0 && r.warning_files >= 2 && r.warning_files > *limit as usize && r.orders_run >= 2 {
            over_limit += 1;
        }
        if evaluations % 97 < r.orders_run as u64 {
            rep.sample(json!({"project": r.label, "mechanism": mech.name(), "error_count_limit": limit, "orders": r.orders_run, "outputs_compared": r.outputs}));
        }
        for v in r.violations {
            let c = sig_count.entry(v.signature.clone()).or_default();
            *c += 1;
            if *c <= 2 {
                rep.violation(v);
            }
        }
    }
    // repeated runs (not exhaustive)
    let times = if ctx.thorough() { 10 } else { 3 };
    let rr_projects: Vec<Vec<usize>> = {
        let find = |names: &[&str]| -> Vec<usize> { names.iter().map(|n| POOL.iter().position(|i| i.name == *n).unwrap()).collect() };
        let mut v = vec![find(&["pa", "pb", "ut", "ua"]), find(&["ga", "ug4", "ug8"]), find(&["gp", "up", "up2"]), find(&["sv1", "sv2", "wn"])];
        if !ctx.thorough() {
            v.truncate(3);
        }
        v
    };
    let rr: Vec<(usize, Option<Violation>)> = rr_projects
        .par_iter()
        .map(|p| {
            if ctx.elapsed() > budget {
                return (0, None);
            }
            let idx = rayon::current_thread_index().unwrap_or(nthreads);
            repeated_runs(&sandboxes[idx], p, times)
        })
        .collect();
    let mut rr_runs = 0u64;
    for (n, v) in rr {
        rr_runs += n as u64;
        if let Some(v) = v {
            rep.violation(v);
        }
    }
    let capped = capped.load(std::sync::atomic::Ordering::Relaxed);
    rep.set("evaluations", evaluations);
    rep.set("distinct_nontrivial", nontrivial);
    rep.set("projects_requested", json!(requested));
    rep.set("projects_completed_all_orders", json!(projects_done));
    rep.set("projects_cut_by_budget_before_all_orders", projects_partial);
    rep.set("pool_items", POOL.len() as u64);
    rep.set("max_files", max_n as u64);
    rep.set("orders_confirmed_in_processing_log", effective);
    rep.set("projects_with_warnings", with_diags);
    rep.set("error_count_limits", json!(LIMITS));
    rep.set("limited_projects_with_warnings_in_more_files_than_the_limit", over_limit);
    rep.set("projects_whose_filelist_order_varies_informational", filelist_differs);
    rep.set("skipped_generator_rejects", skipped);
    rep.set("violation_projects_by_signature", json!(sig_count));
    rep.set("repeated_runs", json!({"projects": rr_projects.len(), "runs_each": times, "runs_total": rr_runs, "exhaustive": false}));
    rep.set("capped_by_budget", capped);
    rep.set("exhaustive", !capped);
    rep.set("budget_s", budget);
    rep.set(
        "rule",
        "evaluations = (project, processing order) builds; a project is non-trivial when it has >= 2 files, >= 2 compared outputs and >= 2 orders whose effect was confirmed in veryl's own `Processing file` log",
    );
    rep.assume("diagnostics are those printed by `veryl check` (build prints no warnings), compared as the sorted multiset of rendered blocks");
    rep.assume("the filelist is compared but only counted: its order among unrelated files is not an emitted file / source map / diagnostic");
    rep.assume("repeated-run clause: N fresh-process builds of 3-4 projects; hash seeds cannot be enumerated");
    // every project contributes one baseline order; all others must show up in veryl's own log
    let permuted = evaluations.saturating_sub(projects_done.values().sum::<u64>() + projects_partial);
    if permuted > 0 && effective * 10 < permuted * 9 {
        rep.machinery(format!("vacuity guard: only {effective} of {permuted} permuted orders were confirmed by the processing log"));
    }
    if over_limit == 0 {
        rep.machinery("vacuity guard: no project with warnings in >= 2 files was run under a non-zero error_count_limit");
    }
    if nontrivial < 2 {
        rep.machinery("vacuity guard: fewer than 2 non-trivial projects");
    }
    if skipped > 0 && skipped * 20 > tasks.len() as u64 {
        rep.machinery(format!("vacuity guard: {skipped} projects rejected by veryl in baseline order"));
    }
    let _ = item;
    rep
}

pub fn replay(doc: &Value) -> i32 {
    let case = &doc["case"];
    let Some(files) = case["files"].as_array() else {
        eprintln!("no files");
        return 2;
    };
    let mech = if case["mechanism"] == "rename" { Mech::Rename } else { Mech::Sources };
    let limit = case["error_count_limit"].as_u64().unwrap_or(0) as u32;
    let names = |k: &str| -> Vec<String> { case[k].as_array().cloned().unwrap_or_default().iter().map(|x| x.as_str().unwrap_or("").to_string()).collect() };
    let order = names("order");
    let base = names("baseline_order");
    let items: Vec<&'static Item> = base.iter().filter_map(|n| POOL.iter().find(|i| i.name == n)).collect();
    let ctx = Ctx::new("C24-replay", Tier::Quick);
    let sb = Sandbox::new(&ctx.scratch.join("w"));
    let fl: Vec<(String, String)> = files.iter().map(|f| (f["path"].as_str().unwrap_or("").to_string(), f["text"].as_str().unwrap_or("").to_string())).collect();
    let o = observe(&sb, &fl, mech);
    if items.len() != base.len() || items.is_empty() {
        println!("observed under the recorded order: {:?}", o.sv);
        return 2;
    }
    let ident: Vec<usize> = (0..items.len()).collect();
    let b = observe(&sb, &layout(&items, &ident, mech, limit), mech);
    let same = b.sv == o.sv && b.maps == o.maps && b.diags == o.diags && b.build_exit == o.build_exit;
    println!("order {:?} vs baseline {:?}: {}", order, base, if same { "identical" } else { "DIFFERENT" });
    if !same {
        for (k, v) in &b.sv {
            if o.sv.get(k) != Some(v) {
                println!("--- {k} (baseline)\n{v}\n--- {k} (permuted)\n{}", o.sv.get(k).cloned().unwrap_or_default());
            }
        }
        1
    } else {
        0
    }
}

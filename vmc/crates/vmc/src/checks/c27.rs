//! C27 — check modes agree with write modes.
//!
//! Engine E1/E6 on the real `veryl` binary: for every state of a project tree, twin A runs the
//! check mode (`fmt --check` / `build --check`), twin B runs the write mode (`fmt` / `build`) from
//! the SAME snapshot, and the tree is diffed before/after B.
//!
//! Oracle: `fmt --check` exits 0  <=>  `fmt` changes no source file.
//!         `build --check` exits 0 <=> `build` changes (creates, rewrites) no emitted file, where
//!         emitted = every `.sv`, every `.sv.map` and the bundle. The filelist is observed too
//!         but only counted (the statement does not name it).
//!
//! States: setup (target in {directory, source, bundle} x sourcemap_target in {target, directory,
//! none} x incremental in {false, true} x exclude_std) x damage set. The base snapshot of a setup is
//! the whole sandbox after a real `veryl build`, `.build/` included, so with `incremental = true`
//! both twins start from the warm fragment cache and build info that build left behind.
//! A damage is one of: edit a source (root or path
//! dependency) so its output is stale, add a source, delete / hand-edit / truncate an output
//! (root, dependency, `$std`, bundle, the output of an empty source), delete / hand-edit a source
//! map, delete / edit the filelist. All single damages, and all pairs (thorough).
//! fmt states: every assignment of {formatted, 4 deviations} to three sources + examples file.

use crate::core::*;
use crate::proj::{self, Sandbox, Snap};
use serde_json::{Value, json};
use std::collections::{BTreeMap, BTreeSet};
use std::time::SystemTime;

#[derive(Clone, Copy, Debug, PartialEq, Eq, Hash, PartialOrd, Ord)]
pub struct Setup {
    pub target: u8, // 0 directory, 1 source, 2 bundle
    pub smap: u8,   // 0 target, 1 directory, 2 none
    pub std: bool,  // exclude_std = false
    pub incr: bool, // [build] incremental = true (veryl's default is false: the key is then left out)
}

impl Setup {
    fn text(&self) -> String {
        format!(
            "target={} sourcemap_target={} exclude_std={}{}",
            ["directory", "source", "bundle"][self.target as usize],
            ["target", "directory", "none"][self.smap as usize],
            !self.std,
            if self.incr { " incremental=true" } else { "" }
        )
    }
    fn toml(&self) -> String {
        let t = [r#"{type = "directory", path = "target"}"#, r#"{type = "source"}"#, r#"{type = "bundle", path = "out/all.sv"}"#][self.target as usize];
        let m = [r#"{type = "target"}"#, r#"{type = "directory", path = "map"}"#, r#"{type = "none"}"#][self.smap as usize];
        format!(
            "[project]\nname = \"prj\"\nversion = \"0.1.0\"\n\n[build]\nclock_type = \"posedge\"\nreset_type = \"async_low\"\nexclude_std = {}\nsources = [\"src\"]\ntarget = {t}\nsourcemap_target = {m}\nfilelist_type = \"relative\"\n{}\n[dependencies]\ndep = {{path = \"../d\"}}\n",
            !self.std,
            if self.incr { "incremental = true\n" } else { "" }
        )
    }
}

const DEP_TOML: &str = "[project]\nname = \"dep\"\nversion = \"0.1.0\"\n\n[build]\nclock_type = \"posedge\"\nreset_type = \"async_low\"\nexclude_std = true\nsources = [\"src\"]\ntarget = {type = \"directory\", path = \"target\"}\n";

/// (path relative to the sandbox root, text). Every non-empty source carries a `// @<name>` marker.
fn sources(variant: &BTreeMap<&str, &str>) -> Vec<(String, String)> {
    let v = |k: &str| variant.get(k).copied().unwrap_or("v0");
    let mut f = vec![];
    f.push((
        "p/src/pkg.veryl".to_string(),
        format!("// @pkg\npackage Pkg {{\n    const W: u32 = {};\n}}\n", if v("pkg") == "v1" { 5 } else { 4 }),
    ));
    f.push((
        "p/src/a.veryl".to_string(),
        format!(
            "// @a\nmodule A (\n    i_d: input  logic<Pkg::W>,\n    o_q: output logic<Pkg::W>,\n) {{\n    assign o_q = {}i_d;\n}}\n",
            if v("a") == "v1" { "~" } else { "" }
        ),
    ));
    f.push((
        "p/src/b.veryl".to_string(),
        format!(
            "// @b\nmodule B (\n    i_d: input  logic<Pkg::W>,\n    o_q: output logic<Pkg::W>,\n    i_x: input  logic<4>     ,\n    o_x: output logic<4>     ,\n) {{\n    var w: logic<Pkg::W>;\n    inst u: A (\n        i_d: i_d,\n        o_q: w  ,\n    );\n    assign o_q = w{};\n    inst v: dep::DM (\n        i_a: i_x,\n        o_a: o_x,\n    );\n}}\n",
            if v("b") == "v1" { " + 1" } else { "" }
        ),
    ));
    f.push(("p/src/e.veryl".to_string(), String::new()));
    if v("new") == "v1" {
        f.push(("p/src/n.veryl".to_string(), "// @n\nmodule N (\n    i_d: input  logic,\n    o_q: output logic,\n) {\n    assign o_q = i_d;\n}\n".to_string()));
    }
    f.push((
        "d/src/dm.veryl".to_string(),
        format!(
            "// @dm\npub module DM (\n    i_a: input  logic<4>,\n    o_a: output logic<4>,\n) {{\n    assign o_a = {}i_a;\n}}\n",
            if v("dm") == "v1" { "~" } else { "" }
        ),
    ));
    f.push(("d/Veryl.toml".to_string(), DEP_TOML.to_string()));
    f
}

#[derive(Clone, Debug, PartialEq, Eq, Hash, PartialOrd, Ord)]
pub enum Damage {
    /// change the text of a source so that its emitted output changes
    SrcEdit(&'static str),
    /// add a new source file
    SrcAdd,
    OutRm(&'static str),
    OutEdit(&'static str),
    OutTrunc(&'static str),
    MapRm(&'static str),
    MapEdit(&'static str),
    FilelistRm,
    FilelistEdit,
}

impl Damage {
    pub fn text(&self) -> String {
        match self {
            Damage::SrcEdit(f) => format!("edit-source:{f}"),
            Damage::SrcAdd => "add-source:n".into(),
            Damage::OutRm(f) => format!("delete-output:{f}"),
            Damage::OutEdit(f) => format!("hand-edit-output:{f}"),
            Damage::OutTrunc(f) => format!("truncate-output:{f}"),
            Damage::MapRm(f) => format!("delete-map:{f}"),
            Damage::MapEdit(f) => format!("hand-edit-map:{f}"),
            Damage::FilelistRm => "delete-filelist".into(),
            Damage::FilelistEdit => "edit-filelist".into(),
        }
    }
    fn target_name(&self) -> &'static str {
        match self {
            Damage::SrcEdit(f) | Damage::OutRm(f) | Damage::OutEdit(f) | Damage::OutTrunc(f) | Damage::MapRm(f) | Damage::MapEdit(f) => f,
            Damage::SrcAdd => "n",
            Damage::FilelistRm | Damage::FilelistEdit => "filelist",
        }
    }
}

fn damages(setup: Setup) -> Vec<Damage> {
    if setup.std {
        // `$std` builds are an order of magnitude slower: only the damages that concern `$std`
        let mut v = vec![Damage::SrcEdit("a")];
        if setup.target == 2 {
            v.push(Damage::OutEdit("bundle"));
        } else {
            v.extend([Damage::OutRm("std"), Damage::OutEdit("std"), Damage::OutRm("a")]);
            if setup.smap != 2 {
                v.push(Damage::MapRm("std"));
            }
        }
        return v;
    }
    // ordered so that a prefix of the list already holds every kind of damage
    if setup.target == 2 {
        return vec![
            Damage::SrcEdit("a"),
            Damage::OutEdit("bundle"),
            Damage::OutRm("bundle"),
            Damage::FilelistRm,
            Damage::SrcEdit("pkg"),
            Damage::SrcEdit("b"),
            Damage::SrcEdit("dm"),
            Damage::SrcAdd,
            Damage::OutTrunc("bundle"),
            Damage::FilelistEdit,
        ];
    }
    let maps = setup.smap != 2;
    let mut v = vec![Damage::OutRm("a"), Damage::SrcEdit("a")];
    if maps {
        v.push(Damage::MapRm("a"));
    }
    v.push(Damage::OutEdit("dm"));
    if maps {
        v.push(Damage::MapRm("dm"));
    }
    v.extend([Damage::FilelistRm, Damage::SrcEdit("pkg"), Damage::OutEdit("a")]);
    if maps {
        v.push(Damage::MapEdit("a"));
    }
    v.push(Damage::OutRm("dm"));
    if maps {
        v.push(Damage::MapEdit("dm"));
    }
    v.extend([
        Damage::SrcEdit("b"),
        Damage::SrcEdit("dm"),
        Damage::SrcAdd,
        Damage::OutRm("pkg"),
        Damage::OutEdit("pkg"),
        Damage::OutTrunc("b"),
        Damage::OutRm("e"),
        Damage::OutEdit("e"),
        Damage::FilelistEdit,
    ]);
    v
}

/// Finds the snapshot key of the output (`.sv`) / map of logical file `name`.
fn find_out(s: &Snap, name: &str, map: bool) -> Option<String> {
    let ext = if map { ".sv.map" } else { ".sv" };
    let want_suffix = match name {
        "bundle" => "p/out/all.sv".to_string(),
        "std" => String::new(),
        n => format!("/{n}{ext}"),
    };
    for k in s.files.keys() {
        if !k.starts_with("p/") || k.starts_with("p/.build") {
            continue;
        }
        if name == "std" {
            if k.starts_with("p/dependencies/std/") && k.ends_with(ext) && (map || !k.ends_with(".sv.map")) && k.contains("gray_encoder") {
                return Some(k.clone());
            }
        } else if name == "bundle" {
            if *k == want_suffix {
                return Some(k.clone());
            }
        } else if k.ends_with(&want_suffix) && (map || !k.ends_with(".sv.map")) {
            return Some(k.clone());
        }
    }
    None
}

fn apply(s: &mut Snap, d: &Damage) -> bool {
    let now = SystemTime::now();
    match d {
        Damage::SrcEdit(f) => {
            let mut var = BTreeMap::new();
            var.insert(*f, "v1");
            for (rel, text) in sources(&var) {
                if rel.ends_with(&format!("/{f}.veryl")) {
                    s.files.insert(rel, (text.into_bytes(), now));
                    return true;
                }
            }
            false
        }
        Damage::SrcAdd => {
            let mut var = BTreeMap::new();
            var.insert("new", "v1");
            for (rel, text) in sources(&var) {
                if rel.ends_with("/n.veryl") {
                    s.files.insert(rel, (text.into_bytes(), now));
                    return true;
                }
            }
            false
        }
        Damage::OutRm(f) => match find_out(s, f, false) {
            Some(k) => s.files.remove(&k).is_some(),
            None => false,
        },
        Damage::OutEdit(f) => match find_out(s, f, false) {
            Some(k) => {
                let e = s.files.get_mut(&k).unwrap();
                e.0.extend_from_slice(b"// hand edit\n");
                e.1 = now;
                true
            }
            None => false,
        },
        Damage::OutTrunc(f) => match find_out(s, f, false) {
            Some(k) => {
                let e = s.files.get_mut(&k).unwrap();
                if e.0.is_empty() {
                    return false;
                }
                e.0.clear();
                e.1 = now;
                true
            }
            None => false,
        },
        Damage::MapRm(f) => match find_out(s, f, true) {
            Some(k) => s.files.remove(&k).is_some(),
            None => false,
        },
        Damage::MapEdit(f) => match find_out(s, f, true) {
            Some(k) => {
                let e = s.files.get_mut(&k).unwrap();
                e.0.extend_from_slice(b"\n");
                e.1 = now;
                true
            }
            None => false,
        },
        Damage::FilelistRm => s.files.remove("p/prj.f").is_some(),
        Damage::FilelistEdit => match s.files.get_mut("p/prj.f") {
            Some(e) => {
                e.0.extend_from_slice(b"# edited\n");
                e.1 = now;
                true
            }
            None => false,
        },
    }
}

fn class_of(rel: &str) -> &'static str {
    // rel is relative to the sandbox root
    let map = rel.ends_with(".sv.map");
    if rel == "p/out/all.sv" {
        "bundle"
    } else if rel.starts_with("p/dependencies/std/") {
        if map { "std-map" } else { "std-sv" }
    } else if rel.starts_with("p/dependencies/") {
        if map { "dep-map" } else { "dep-sv" }
    } else if rel.ends_with("/e.sv") {
        "empty-sv"
    } else if rel.ends_with("/e.sv.map") {
        "empty-map"
    } else if map {
        "map"
    } else {
        "sv"
    }
}

fn is_emitted(rel: &str) -> bool {
    rel.starts_with("p/") && !rel.starts_with("p/.build") && (rel.ends_with(".sv") || rel.ends_with(".sv.map"))
}

fn is_source(rel: &str) -> bool {
    rel.ends_with(".veryl")
}

/// Paths (matching `pred`) whose content or existence differs between two snapshots.
fn changed(a: &Snap, b: &Snap, pred: fn(&str) -> bool) -> Vec<String> {
    let keys: BTreeSet<&String> = a.files.keys().chain(b.files.keys()).filter(|k| pred(k)).collect();
    keys.into_iter().filter(|k| a.files.get(*k).map(|x| &x.0) != b.files.get(*k).map(|x| &x.0)).cloned().collect()
}

struct TwinResult {
    check_exit: i32,
    write_exit: i32,
    check_wrote: Vec<String>,
    write_changed: Vec<String>,
    filelist_changed: bool,
    stderr_check: String,
    stderr_write: String,
}

fn twins(sb: &Sandbox, state: &Snap, check_cmd: &[&str], write_cmd: &[&str], pred: fn(&str) -> bool) -> TwinResult {
    proj::restore(&sb.root, state);
    let a = super::projgen::veryl(sb, check_cmd);
    let after_a = proj::snapshot(&sb.root);
    let check_wrote = changed(state, &after_a, |k| is_emitted(k) || is_source(k));
    proj::restore(&sb.root, state);
    let b = super::projgen::veryl(sb, write_cmd);
    let after_b = proj::snapshot(&sb.root);
    let write_changed = changed(state, &after_b, pred);
    let fl = |s: &Snap| s.files.get("p/prj.f").map(|x| x.0.clone());
    TwinResult {
        check_exit: a.code,
        write_exit: b.code,
        check_wrote,
        write_changed,
        filelist_changed: fl(state) != fl(&after_b),
        stderr_check: a.stderr,
        stderr_write: b.stderr,
    }
}

struct StateResult {
    skipped: Option<String>,
    violations: Vec<Violation>,
    check_wrote: Vec<String>,
    outcome: (bool, bool), // (check passed, write changed something)
    filelist_only: bool,
}

fn judge(cmd: &str, setup_text: &str, state_desc: &[String], files: Value, t: &TwinResult) -> StateResult {
    let mut r = StateResult { skipped: None, violations: vec![], check_wrote: vec![], outcome: (t.check_exit == 0, !t.write_changed.is_empty()), filelist_only: false };
    if t.write_exit != 0 {
        r.skipped = Some(format!("write mode failed (exit {}): {}", t.write_exit, t.stderr_write.lines().filter(|l| !l.contains("[INFO")).take(3).collect::<Vec<_>>().join(" | ")));
        return r;
    }
    let case = json!({"command": cmd, "setup": setup_text, "state": state_desc, "files": files});
    // a check mode that itself writes files is recorded (the statement does not forbid it) and
    // shown with any disagreement
    r.check_wrote = t.check_wrote.clone();
    let passed = t.check_exit == 0;
    let changes = !t.write_changed.is_empty();
    if passed && changes {
        let classes: BTreeSet<&str> = t.write_changed.iter().map(|f| if cmd == "fmt" { "source" } else { class_of(f) }).collect();
        for class in classes {
            let files: Vec<&String> = t.write_changed.iter().filter(|f| cmd == "fmt" || class_of(f) == class).collect();
            r.violations.push(Violation {
                signature: format!("C27:{cmd}:check-passes-but-write-changes:{class}"),
                what: format!("`veryl {cmd} --check` exits 0 but `veryl {cmd}` from the same state changes {class} files"),
                case: case.clone(),
                expected: json!("check exit 0 <=> write mode changes nothing"),
                observed: json!({"check_exit": t.check_exit, "files_changed_by_write_mode": files, "files_written_by_the_check_mode_itself": t.check_wrote}),
            });
        }
    } else if !passed && !changes {
        let kinds: BTreeSet<String> = state_desc.iter().map(|d| d.split(':').next().unwrap_or("").to_string()).collect();
        r.violations.push(Violation {
            signature: format!("C27:{cmd}:check-fails-but-write-changes-nothing:{}", kinds.into_iter().collect::<Vec<_>>().join("+")),
            what: format!("`veryl {cmd} --check` exits {} but `veryl {cmd}` from the same state changes no file", t.check_exit),
            case,
            expected: json!("check exit 0 <=> write mode changes nothing"),
            observed: json!({"check_exit": t.check_exit, "check_stderr": t.stderr_check.lines().filter(|l| !l.contains("[INFO")).take(12).collect::<Vec<_>>(), "files_changed_by_write_mode": t.write_changed}),
        });
    }
    r.filelist_only = passed && !changes && t.filelist_changed;
    r
}

// ------------------------------------------------------------------------------- fmt family

const DEVIATIONS: [&str; 5] = ["ok", "spaces", "no-final-newline", "tab", "blank-lines"];

fn deviate(formatted: &str, d: &str) -> String {
    match d {
        "ok" => formatted.to_string(),
        "spaces" => formatted.replacen(": ", ":    ", 1).replacen(" {", "  {", 1),
        "no-final-newline" => formatted.trim_end_matches('\n').to_string(),
        "tab" => formatted.replacen("\n    ", "\n\t", 1),
        "blank-lines" => format!("{formatted}\n\n\n"),
        _ => unreachable!(),
    }
}

const EX_TEXT: &str = "// @ex\nmodule Ex (\n    i_d: input  logic<Pkg::W>,\n    o_q: output logic<Pkg::W>,\n) {\n    inst u: A (\n        i_d: i_d,\n        o_q: o_q,\n    );\n}\n";

// ------------------------------------------------------------------------------- driver

fn files_json(s: &Snap) -> Value {
    let mut m = serde_json::Map::new();
    for (k, (data, _)) in &s.files {
        if (k.starts_with("p/") || k.starts_with("d/")) && !k.starts_with("p/.build") && !k.starts_with("p/dependencies/std/") {
            m.insert(k.clone(), json!(String::from_utf8_lossy(data)));
        }
    }
    Value::Object(m)
}

pub fn run(ctx: &Ctx) -> Report {
    let mut rep = Report::new(Level::Exploration);
    if let Err(e) = proj::ensure_canon() {
        rep.machinery(e);
        return rep;
    }
    let budget = ctx.budget(30.0, 660.0);
    let nthreads = rayon::current_num_threads().max(1);
    let sandboxes: Vec<Sandbox> = (0..nthreads + 1).map(|i| Sandbox::new(&ctx.scratch.join(format!("w{i}")))).collect();
    let sb0 = &sandboxes[nthreads];

    // ---- setups and their freshly built base snapshots
    let mut setups = vec![];
    for target in 0..3u8 {
        for smap in 0..3u8 {
            if target == 2 && smap != 2 {
                continue; // a bundle has no source maps
            }
            for incr in [false, true] {
                setups.push(Setup { target, smap, std: false, incr });
            }
        }
    }
    setups.push(Setup { target: 0, smap: 0, std: true, incr: false });
    if ctx.thorough() {
        setups.push(Setup { target: 0, smap: 0, std: true, incr: true });
        setups.push(Setup { target: 1, smap: 1, std: true, incr: false });
        setups.push(Setup { target: 2, smap: 2, std: true, incr: false });
    }
    let built: Vec<Result<(Setup, Snap), String>> = super::projgen::par_in_order(&setups, |w, su| {
        let sb = &sandboxes[w];
        let _ = std::fs::remove_dir_all(sb.root.join("p"));
        let _ = std::fs::remove_dir_all(sb.root.join("d"));
        std::fs::create_dir_all(sb.root.join("p")).unwrap();
        let wr = |rel: &str, text: &str| {
            let p = sb.root.join(rel);
            std::fs::create_dir_all(p.parent().unwrap()).unwrap();
            std::fs::write(&p, text).unwrap();
        };
        wr("p/Veryl.toml", &su.toml());
        for (rel, text) in sources(&BTreeMap::new()) {
            wr(&rel, &text);
        }
        let out = super::projgen::veryl(sb, &["build"]);
        if out.code != 0 {
            return Some(Err(format!("base project ({}) does not build: {}", su.text(), out.stderr)));
        }
        Some(Ok((*su, proj::snapshot(&sb.root))))
    })
    .into_iter()
    .flatten()
    .collect();
    let mut bases: Vec<(Setup, Snap)> = vec![];
    for b in built {
        match b {
            Ok(x) => bases.push(x),
            Err(e) => {
                rep.machinery(e);
                return rep;
            }
        }
    }

    // an `incremental = true` base must carry the fragment cache its build filled
    for (su, snap) in &bases {
        if su.incr && !snap.files.keys().any(|k| k.starts_with("p/.build/cache/")) {
            rep.machinery(format!("vacuity guard: the base build of ({}) left no fragment cache under p/.build/cache", su.text()));
            return rep;
        }
    }

    // ---- build states
    struct Task {
        setup: Setup,
        base: usize,
        dmg: Vec<Damage>,
    }
    let mut tasks: Vec<Task> = vec![];
    for (bi, (su, _)) in bases.iter().enumerate() {
        let ds = damages(*su);
        tasks.push(Task { setup: *su, base: bi, dmg: vec![] });
        for d in &ds {
            tasks.push(Task { setup: *su, base: bi, dmg: vec![d.clone()] });
        }
    }
    // run the same damage on every setup before the next damage: a budget cut then still leaves
    // every kind of state represented
    let dmg_rank = |t: &Task| -> usize { t.dmg.first().map(|d| damages(t.setup).iter().position(|x| x == d).unwrap_or(0) + 1).unwrap_or(0) };
    // the first damage runs before the undamaged states, so that even a run cut after a handful of
    // states has seen a failing and a passing check
    tasks.sort_by_key(|t| {
        let r = dmg_rank(t);
        (if r == 1 { 0 } else if r == 0 { 1 } else { r }, t.base)
    });
    let singles = tasks.len();
    if ctx.thorough() {
        for (bi, (su, _)) in bases.iter().enumerate() {
            let ds = damages(*su);
            for i in 0..ds.len() {
                for j in i + 1..ds.len() {
                    if ds[i].target_name() == ds[j].target_name() && !matches!((&ds[i], &ds[j]), (Damage::SrcEdit(_), _) | (Damage::OutRm(_), Damage::MapRm(_)) | (Damage::OutEdit(_), Damage::MapRm(_)) | (Damage::OutRm(_), Damage::MapEdit(_))) {
                        continue;
                    }
                    tasks.push(Task { setup: *su, base: bi, dmg: vec![ds[i].clone(), ds[j].clone()] });
                }
            }
        }
    }
    let capped = std::sync::atomic::AtomicBool::new(false);
    // the fmt family (cheap) keeps the last quarter of the budget
    let build_deadline = budget * 0.75;
    let build_results: Vec<Option<(Vec<String>, StateResult)>> = super::projgen::par_in_order(&tasks, |w, t| {
            if ctx.elapsed() > build_deadline {
                capped.store(true, std::sync::atomic::Ordering::Relaxed);
                return None;
            }
            let sb = &sandboxes[w];
            let mut s = bases[t.base].1.clone();
            let mut desc = vec![];
            for d in &t.dmg {
                if !apply(&mut s, d) {
                    return Some((vec![d.text()], StateResult { skipped: Some(format!("damage not applicable: {}", d.text())), violations: vec![], check_wrote: vec![], outcome: (false, false), filelist_only: false }));
                }
                desc.push(d.text());
            }
            let tw = twins(sb, &s, &["build", "--check"], &["build"], is_emitted);
            let r = judge("build", &t.setup.text(), &desc, files_json(&s), &tw);
            Some((desc, r))
        });

    // ---- fmt states
    // formatted text = what `veryl fmt` produces for the base sources
    let fmt_base = {
        let mut s = bases[0].1.clone();
        s.files.insert("p/examples/ex.veryl".into(), (EX_TEXT.as_bytes().to_vec(), SystemTime::now()));
        proj::restore(&sb0.root, &s);
        let o = super::projgen::veryl(sb0, &["fmt"]);
        if o.code != 0 {
            rep.machinery(format!("`veryl fmt` fails on the base project: {}", o.stderr));
            return rep;
        }
        proj::snapshot(&sb0.root)
    };
    let fmt_files = ["p/src/pkg.veryl", "p/src/a.veryl", "p/src/b.veryl", "p/examples/ex.veryl", "d/src/dm.veryl"];
    let mut fmt_states: Vec<Vec<usize>> = vec![];
    {
        // all assignments over the first three files (5^3) with ex/dm formatted, plus each deviation on ex and dm
        let nd = DEVIATIONS.len();
        let n3 = if ctx.thorough() { nd * nd * nd } else { 0 };
        for x in 0..n3 {
            fmt_states.push(vec![x % nd, (x / nd) % nd, x / (nd * nd), 0, 0]);
        }
        if !ctx.thorough() {
            // quick: every single deviation and every pair on two files
            fmt_states.push(vec![0, 0, 0, 0, 0]);
            for f in 0..3 {
                for d in 1..nd {
                    let mut v = vec![0; 5];
                    v[f] = d;
                    fmt_states.push(v);
                }
            }
            for d1 in 1..nd {
                for d2 in 1..nd {
                    fmt_states.push(vec![d1, d2, 0, 0, 0]);
                }
            }
        }
        for f in 3..5 {
            for d in 1..nd {
                let mut v = vec![0; 5];
                v[f] = d;
                fmt_states.push(v.clone());
                v[0] = 1;
                fmt_states.push(v);
            }
        }
    }
    let fmt_results: Vec<Option<(Vec<String>, StateResult)>> = super::projgen::par_in_order(&fmt_states, |w, st| {
            if ctx.elapsed() > budget {
                capped.store(true, std::sync::atomic::Ordering::Relaxed);
                return None;
            }
            let sb = &sandboxes[w];
            let mut s = fmt_base.clone();
            let mut desc = vec![];
            for (f, d) in fmt_files.iter().zip(st.iter()) {
                if *d != 0 {
                    let cur = String::from_utf8_lossy(&s.files[*f].0).to_string();
                    let new = deviate(&cur, DEVIATIONS[*d]);
                    if new == cur {
                        return Some((vec![], StateResult { skipped: Some(format!("deviation {} is a no-op on {f}", DEVIATIONS[*d])), violations: vec![], check_wrote: vec![], outcome: (false, false), filelist_only: false }));
                    }
                    s.files.insert(f.to_string(), (new.into_bytes(), SystemTime::now()));
                    desc.push(format!("{}:{f}", DEVIATIONS[*d]));
                }
            }
            let tw = twins(sb, &s, &["fmt", "--check"], &["fmt"], is_source);
            let r = judge("fmt", "fmt", &desc, files_json(&s), &tw);
            Some((desc, r))
        });

    // ---- collect
    let incr_done = tasks.iter().zip(build_results.iter()).filter(|(t, r)| t.setup.incr && matches!(r, Some((_, sr)) if sr.skipped.is_none())).count();
    let mut evaluations = 0u64;
    let mut skipped = 0u64;
    let mut outcomes: BTreeMap<String, u64> = BTreeMap::new();
    let mut sig_count: BTreeMap<String, u64> = BTreeMap::new();
    let mut filelist_only = 0u64;
    let mut done_build = 0u64;
    let mut done_fmt = 0u64;
    let mut check_mode_wrote = 0u64;
    let mut check_wrote_classes: BTreeSet<String> = BTreeSet::new();
    for (cmd, results) in [("build", build_results), ("fmt", fmt_results)] {
        for r in results.into_iter().flatten() {
            let (desc, sr) = r;
            if let Some(s) = sr.skipped {
                skipped += 1;
                if rep.notes.len() < 10 {
                    rep.notes.push(format!("skipped {cmd} state {:?}: {}", desc, s.chars().take(240).collect::<String>()));
                }
                continue;
            }
            evaluations += 1;
            if cmd == "build" {
                done_build += 1;
            } else {
                done_fmt += 1;
            }
            *outcomes.entry(format!("{cmd}:check_{}:write_{}", if sr.outcome.0 { "passes" } else { "fails" }, if sr.outcome.1 { "changes" } else { "changes_nothing" })).or_default() += 1;
            if sr.filelist_only {
                filelist_only += 1;
            }
            if evaluations % 41 == 1 {
                rep.sample(json!({"command": cmd, "state": desc, "check_passes": sr.outcome.0, "write_changes": sr.outcome.1}));
            }
            if !sr.check_wrote.is_empty() {
                check_mode_wrote += 1;
                for f in &sr.check_wrote {
                    check_wrote_classes.insert(class_of(f).to_string());
                }
            }
            for v in sr.violations {
                let c = sig_count.entry(v.signature.clone()).or_default();
                *c += 1;
                if *c <= 2 {
                    rep.violation(v);
                }
            }
        }
    }
    let capped = capped.load(std::sync::atomic::Ordering::Relaxed);
    let nontrivial = outcomes.iter().filter(|(k, _)| k.contains("fails") && k.contains("write_changes") && !k.contains("nothing")).map(|(_, v)| *v).sum::<u64>();
    rep.set("evaluations", evaluations);
    rep.set("distinct_nontrivial", nontrivial);
    rep.set("build_states_requested", tasks.len() as u64);
    rep.set("build_states_single_damage", singles as u64);
    rep.set("build_states_completed", done_build);
    rep.set("build_states_completed_with_incremental_and_warm_cache", incr_done as u64);
    rep.set("fmt_states_requested", fmt_states.len() as u64);
    rep.set("fmt_states_completed", done_fmt);
    rep.set("setups", json!(setups.iter().map(|s| s.text()).collect::<Vec<_>>()));
    rep.set("outcome_classes", json!(outcomes));
    rep.set("states_where_only_the_filelist_changes_informational", filelist_only);
    rep.set("skipped_states", skipped);
    rep.set("states_in_which_the_check_mode_itself_wrote_files_informational", check_mode_wrote);
    rep.set("classes_of_files_written_by_check_mode", json!(check_wrote_classes));
    rep.set("violation_states_by_signature", json!(sig_count));
    rep.set("capped_by_budget", capped);
    rep.set("exhaustive", !capped);
    rep.set("budget_s", budget);
    rep.set(
        "rule",
        "one evaluation = one state run through both twins (check mode, write mode) from the same snapshot; non-trivial = states where the check mode fails and the write mode really rewrites a file; all four (check passes|fails) x (write changes|nothing) classes are counted",
    );
    rep.assume("projects are error-free: a state in which the write mode itself fails is skipped and counted");
    rep.assume("emitted file = .sv, .sv.map, bundle (as in C04); the filelist is observed but only counted");
    let classes = outcomes.len();
    if classes < if capped { 2 } else { 3 } {
        rep.machinery(format!("vacuity guard: only {classes} outcome classes observed"));
    }
    if evaluations > 0 && skipped * 10 > evaluations {
        rep.machinery(format!("vacuity guard: {skipped} states skipped"));
    }
    rep
}

pub fn replay(doc: &Value) -> i32 {
    let case = &doc["case"];
    let Some(files) = case["files"].as_object() else {
        eprintln!("no files");
        return 2;
    };
    let cmd = case["command"].as_str().unwrap_or("build").to_string();
    let ctx = Ctx::new("C27-replay", Tier::Quick);
    let sb = Sandbox::new(&ctx.scratch.join("w"));
    let mut s = Snap::default();
    for (k, v) in files {
        s.files.insert(k.clone(), (v.as_str().unwrap_or("").as_bytes().to_vec(), SystemTime::now()));
    }
    // `$std` outputs are not stored in the case: rebuild them first unless the state deletes them
    let (c, w): (Vec<&str>, Vec<&str>) = if cmd == "fmt" { (vec!["fmt", "--check"], vec!["fmt"]) } else { (vec!["build", "--check"], vec!["build"]) };
    let t = twins(&sb, &s, &c, &w, if cmd == "fmt" { is_source } else { is_emitted });
    println!("check exit {}  write exit {}  files changed by write mode: {:?}", t.check_exit, t.write_exit, t.write_changed);
    if (t.check_exit == 0) == t.write_changed.is_empty() { 0 } else { 1 }
}

//! C13 — source maps point at matching text on both sides.
//!
//! Engine E1: a finite design corpus (every buildable file of `testcases/veryl` plus a generated
//! family: base designs x comment slot x comment kind, incl. multi-byte and multi-line comments)
//! x all 16 layout configurations (vertical_align x max_width {40,120} x strip_comments x
//! newline_style {unix,windows}) is pushed through the real parser / analyzer /
//! `veryl_emitter::Emitter` with the calling sequence of `cmd_build.rs` (`emit`, `source_map()`,
//! `set_source_content`, `to_bytes`). The emitted map is decoded twice (the `sourcemap` crate and an
//! independent VLQ reader of the raw "mappings" string) and every entry is checked against both
//! texts:
//!   * the output text at (dst_line, dst_col) starts with the entry's name (0-based, char columns);
//!   * (src_line, src_col) is the start of a token or comment of the Veryl source, where starts
//!     are computed from the raw text by a scanner of our own (modes of veryl.par: generic
//!     arguments, attributes, embed bodies), never from veryl's token positions;
//!   * raw entries are ordered by output position;
//!   * every output line that shows an identifier of the source has at least one entry.

use crate::core::*;
use serde_json::{Value, json};
use std::collections::{BTreeMap, HashMap, HashSet};
use std::path::PathBuf;
use std::str::FromStr;

// ------------------------------------------------------------------------------------------
// own scanner for token / comment starts

#[derive(Clone, Copy, PartialEq, Eq, Debug)]
enum Mode {
    Initial,
    Generic,
    Attr,
    EmbedHeader,
    EmbedBody,
    EmbedBodyInner,
}

#[derive(Clone, Copy, PartialEq, Eq, Debug, Hash)]
pub enum StartKind {
    Comment,
    Word,
    Number,
    Str,
    Op,
    EmbedText,
}

#[derive(Default)]
pub struct Scan {
    /// 0-based (line, column) of every token / comment start, three column conventions
    pub chars: HashMap<(u32, u32), StartKind>,
    pub bytes: HashSet<(u32, u32)>,
    pub utf16: HashSet<(u32, u32)>,
    /// where `split_comment_token` of the parser would put the 2nd.. comment of a comment run if it
    /// advanced the column by bytes (used only to classify failures)
    pub comment_run_bytes: HashSet<(u32, u32)>,
    /// identifier / keyword tokens of the source with their number of occurrences
    pub idents: HashMap<String, usize>,
    pub n_comments: usize,
    pub n_tokens: usize,
    pub unknown_chars: usize,
}

const OPS_INITIAL: &[&str] = &[
    "<<<=", ">>>=", "<<=", ">>=", "<<<", ">>>", "==?", "!=?", "..=", "::<", "'{", "#[", "\\}", "-:", "->", "<-", "+:", "+=",
    "-=", "*=", "/=", "%=", "&=", "|=", "^=", "<>", "**", "<<", ">>", "==", "!=", "<=", ">=", "<:", ">:", "||", "&&", "~^",
    "~&", "~|", "::", "..", "/", "%", "+", "-", "&", "^", "|", "!", "~", ":", ",", ".", "=", "#", "<", "?", "'", "{", "[",
    "(", ">", "}", "]", ")", ";", "*",
];
const OPS_GENERIC: &[&str] = &["::<", "::", ":", ",", ".", "=", ">"];
const OPS_ATTR: &[&str] = &[",", "{", "[", "(", "}", "]", ")"];
const OPS_EMBED_HEADER: &[&str] = &["{{{", "(", ")"];

fn is_word_start(c: char) -> bool {
    c.is_ascii_alphabetic() || c == '_'
}
fn is_word(c: char) -> bool {
    c.is_ascii_alphanumeric() || c == '_' || c == '$'
}

pub fn scan(src: &str) -> Scan {
    let cs: Vec<char> = src.chars().collect();
    let n = cs.len();
    // position tables
    let mut line = vec![0u32; n + 1];
    let mut col_c = vec![0u32; n + 1];
    let mut col_b = vec![0u32; n + 1];
    let mut col_u = vec![0u32; n + 1];
    {
        let (mut l, mut c, mut b, mut u) = (0u32, 0u32, 0u32, 0u32);
        for i in 0..n {
            line[i] = l;
            col_c[i] = c;
            col_b[i] = b;
            col_u[i] = u;
            if cs[i] == '\n' {
                l += 1;
                c = 0;
                b = 0;
                u = 0;
            } else {
                c += 1;
                b += cs[i].len_utf8() as u32;
                u += cs[i].len_utf16() as u32;
            }
        }
        line[n] = l;
        col_c[n] = c;
        col_b[n] = b;
        col_u[n] = u;
    }
    let mut out = Scan::default();
    let mut stack: Vec<Mode> = vec![Mode::Initial];
    let mut i = 0usize;
    let starts_with = |i: usize, s: &str| -> bool {
        let mut k = i;
        for ch in s.chars() {
            if k >= n || cs[k] != ch {
                return false;
            }
            k += 1;
        }
        true
    };
    // comment-run bookkeeping: (index of previous comment start, its 1-based column as the parser sees it)
    let run: std::cell::Cell<Option<(usize, u32)>> = std::cell::Cell::new(None);
    let mark = |out: &mut Scan, i: usize, k: StartKind| {
        if k == StartKind::Comment {
            let col1 = match run.get() {
                None => col_c[i] + 1,
                Some((p, pcol)) => {
                    let prev: String = cs[p..i].iter().collect();
                    match prev.rfind('\n') {
                        None => pcol + prev.len() as u32,
                        Some(nl) => (prev.len() - nl) as u32,
                    }
                }
            };
            out.comment_run_bytes.insert((line[i], col1.saturating_sub(1)));
            run.set(Some((i, col1)));
        } else {
            run.set(None);
        }
        out.chars.insert((line[i], col_c[i]), k);
        out.bytes.insert((line[i], col_b[i]));
        out.utf16.insert((line[i], col_u[i]));
        if k == StartKind::Comment {
            out.n_comments += 1;
        } else {
            out.n_tokens += 1;
        }
    };
    while i < n {
        let mode = *stack.last().unwrap();
        match mode {
            Mode::EmbedBody | Mode::EmbedBodyInner => {
                if starts_with(i, "\\{") {
                    mark(&mut out, i, StartKind::Op);
                    i += 2;
                    stack.push(Mode::Initial);
                } else if mode == Mode::EmbedBody && starts_with(i, "}}}") {
                    mark(&mut out, i, StartKind::Op);
                    i += 3;
                    *stack.last_mut().unwrap() = Mode::Initial;
                } else if cs[i] == '{' {
                    mark(&mut out, i, StartKind::Op);
                    i += 1;
                    stack.push(Mode::EmbedBodyInner);
                } else if cs[i] == '}' {
                    mark(&mut out, i, StartKind::Op);
                    i += 1;
                    if mode == Mode::EmbedBodyInner {
                        stack.pop();
                    }
                } else {
                    // AnyTerm: (?:[^{}\\]|\\[^{])+
                    mark(&mut out, i, StartKind::EmbedText);
                    while i < n {
                        if cs[i] == '{' || cs[i] == '}' {
                            break;
                        }
                        if cs[i] == '\\' {
                            if i + 1 < n && cs[i + 1] != '{' {
                                i += 2;
                                continue;
                            }
                            break;
                        }
                        i += 1;
                    }
                }
                continue;
            }
            _ => {}
        }
        let c = cs[i];
        if c.is_whitespace() {
            i += 1;
            continue;
        }
        // comments
        if starts_with(i, "//") {
            mark(&mut out, i, StartKind::Comment);
            while i < n && cs[i] != '\n' {
                i += 1;
            }
            continue;
        }
        if starts_with(i, "/*") {
            mark(&mut out, i, StartKind::Comment);
            i += 2;
            while i < n && !starts_with(i, "*/") {
                i += 1;
            }
            i = (i + 2).min(n);
            continue;
        }
        // string
        if c == '"' && matches!(mode, Mode::Initial | Mode::Attr) {
            mark(&mut out, i, StartKind::Str);
            i += 1;
            while i < n && cs[i] != '"' {
                if cs[i] == '\\' {
                    i += 1;
                }
                i += 1;
            }
            i = (i + 1).min(n);
            continue;
        }
        // numbers
        if matches!(mode, Mode::Initial | Mode::Generic) && (c.is_ascii_digit() || c == '\'') {
            let digits = |mut k: usize| -> usize {
                // [0-9]+(?:_[0-9]+)*
                let s = k;
                while k < n && cs[k].is_ascii_digit() {
                    k += 1;
                }
                if k == s {
                    return s;
                }
                loop {
                    if k + 1 < n && cs[k] == '_' && cs[k + 1].is_ascii_digit() {
                        k += 1;
                        while k < n && cs[k].is_ascii_digit() {
                            k += 1;
                        }
                    } else {
                        break;
                    }
                }
                k
            };
            let quote_part = |k: usize| -> Option<usize> {
                // 's?[bodh][hex]+(_hex+)*  |  '[01xzXZ]
                if k >= n || cs[k] != '\'' {
                    return None;
                }
                let mut j = k + 1;
                let mut best: Option<usize> = None;
                if j < n && matches!(cs[j], '0' | '1' | 'x' | 'z' | 'X' | 'Z') {
                    best = Some(j + 1);
                }
                if j < n && cs[j] == 's' {
                    j += 1;
                }
                if j < n && matches!(cs[j], 'b' | 'o' | 'd' | 'h') {
                    let hex = |c: char| c.is_ascii_hexdigit() || matches!(c, 'x' | 'z' | 'X' | 'Z');
                    let mut m = j + 1;
                    let s = m;
                    while m < n && hex(cs[m]) {
                        m += 1;
                    }
                    if m > s {
                        loop {
                            if m + 1 < n && cs[m] == '_' && hex(cs[m + 1]) {
                                m += 1;
                                while m < n && hex(cs[m]) {
                                    m += 1;
                                }
                            } else {
                                break;
                            }
                        }
                        if best.is_none_or(|b| m > b) {
                            best = Some(m);
                        }
                    }
                }
                best
            };
            let mut end: Option<usize> = None;
            if c.is_ascii_digit() {
                let d = digits(i);
                end = Some(d);
                // fixed point / exponent
                if d < n && cs[d] == '.' {
                    let f = digits(d + 1);
                    if f > d + 1 {
                        end = Some(f);
                        if f < n && (cs[f] == 'e' || cs[f] == 'E') {
                            let mut k = f + 1;
                            if k < n && (cs[k] == '+' || cs[k] == '-') {
                                k += 1;
                            }
                            let e = digits(k);
                            if e > k {
                                end = Some(e);
                            }
                        }
                    }
                }
                if let Some(q) = quote_part(d) {
                    if q > end.unwrap() {
                        end = Some(q);
                    }
                }
            } else if let Some(q) = quote_part(i) {
                end = Some(q);
            }
            if let Some(e) = end {
                mark(&mut out, i, StartKind::Number);
                i = e;
                continue;
            }
        }
        // words
        if c == '$' && i + 1 < n && is_word_start(cs[i + 1]) && matches!(mode, Mode::Initial | Mode::Generic) {
            mark(&mut out, i, StartKind::Word);
            i += 1;
            while i < n && is_word(cs[i]) {
                i += 1;
            }
            continue;
        }
        if is_word_start(c) {
            let s = i;
            if c == 'r' && i + 2 < n && cs[i + 1] == '#' && is_word_start(cs[i + 2]) {
                i += 2;
            }
            let ws = i;
            while i < n && is_word(cs[i]) {
                i += 1;
            }
            let w: String = cs[ws..i].iter().collect();
            mark(&mut out, s, StartKind::Word);
            if w == "embed" && matches!(mode, Mode::Initial | Mode::Generic) {
                *stack.last_mut().unwrap() = Mode::EmbedHeader;
            } else {
                *out.idents.entry(w).or_insert(0) += 1;
            }
            continue;
        }
        // operators
        let ops = match mode {
            Mode::Initial => OPS_INITIAL,
            Mode::Generic => OPS_GENERIC,
            Mode::Attr => OPS_ATTR,
            Mode::EmbedHeader => OPS_EMBED_HEADER,
            _ => unreachable!(),
        };
        let mut best: Option<&str> = None;
        for o in ops {
            if starts_with(i, o) && best.is_none_or(|b| o.len() > b.len()) {
                best = Some(o);
            }
        }
        match best {
            Some(o) => {
                mark(&mut out, i, StartKind::Op);
                i += o.chars().count();
                match (mode, o) {
                    (Mode::Initial, "#[") => stack.push(Mode::Attr),
                    (Mode::Attr, "]") => {
                        stack.pop();
                    }
                    (Mode::Initial | Mode::Generic, "::<") => stack.push(Mode::Generic),
                    (Mode::Generic, ">") => {
                        stack.pop();
                    }
                    (Mode::Initial, "\\}") => {
                        if stack.len() > 1 {
                            stack.pop();
                        }
                    }
                    (Mode::EmbedHeader, "{{{") => *stack.last_mut().unwrap() = Mode::EmbedBody,
                    _ => {}
                }
                if stack.is_empty() {
                    stack.push(Mode::Initial);
                }
            }
            None => {
                out.unknown_chars += 1;
                i += 1;
            }
        }
    }
    out
}

// ------------------------------------------------------------------------------------------
// corpus

#[derive(Clone, Debug)]
pub struct Design {
    pub name: String,
    /// (path for the emitter, text); the last one is the file under test, earlier ones are only analysed
    pub files: Vec<(PathBuf, String)>,
    pub generated: bool,
}

const COMMENT_KINDS: &[(&str, &str)] = &[
    ("line", "// c1\n"),
    ("block", "/* c2 */"),
    ("multiline-block", "/* c3\n      c3b */"),
    ("multibyte-block", "/* é漢𝒳 */"),
    ("multibyte-line", "// é漢𝒳 c5\n"),
    ("two-blocks-multibyte", "/* é𝒳 */ /* c6 */"),
    ("multibyte-multiline-block", "/* é\n  漢𝒳 */"),
    ("block-then-line", "/* c8 */ // é c8b\n"),
    ("multiline-block-then-block", "/* c9\n   c9b */ /* c9c */"),
];

/// Base designs with `@` comment slots (each variant fills exactly one slot).
const BASES: &[(&str, &str)] = &[
    (
        "comb",
        r#"module GenA @(
    a: input  logic<8>, @
    b: input  logic<8>,
    s: input  logic   ,
    y: output logic<8>, @
) {
    var t: logic<8>; @
    assign t = @ a + @ b; @
    always_comb { @
        if s @ {
            y = t @;
        } else {
            y = a & b | (a ^ b) & {s repeat 8} | t + 8'h01 + 8'h02 + 8'h03 @ + 8'h04;
        }
    }
} @
"#,
    ),
    (
        "ff",
        r#"module GenB (
    clk: input  clock   , @
    rst: input  reset   ,
    d  : input  logic<4>,
    q  : output logic<4>,
) {
    var cnt: logic<4>; @
    always_ff (clk, rst) @ {
        if_reset { @
            cnt = 0; @
        } else if d == 4'd3 @ {
            cnt = cnt + 1;
        } else {
            cnt = case d { @
                4'd0   : 4'd1, @
                4'd1   : 4'd2,
                default: cnt @,
            };
        }
    }
    assign q = cnt; @
}
"#,
    ),
    (
        "pkg",
        r#"package GenP { @
    const W: u32 = 4; @
    enum Color: logic<2> { @
        red, @
        green = 2'd2,
        blue @,
    }
    struct Pix { @
        c: Color   , @
        v: logic<W>,
    }
    function inc ( @
        x: input logic<W>, @
    ) -> logic<W> {
        return x + 1; @
    }
} @
"#,
    ),
    (
        "inst",
        r#"module GenC ( @
    i_clk: input  clock,
    i_rst: input  reset,
    i_d  : input  logic<8>,
    o_q  : output logic<8>,
) {
    var w: logic<8>; @
    inst u_sub: GenD #( @
        WIDTH: 8, @
    ) ( @
        i_clk    , @
        i_rst    ,
        i_d  : i_d @,
        o_q  : w,
    ); @
    let _s: string = "é漢𝒳"; @
    assign o_q = w; @
}

module GenD #( @
    param WIDTH: u32 = 1, @
) (
    i_clk: input  clock       ,
    i_rst: input  reset       ,
    i_d  : input  logic<WIDTH>, @
    o_q  : output logic<WIDTH>,
) {
    always_ff { @
        if_reset {
            o_q = 0;
        } else {
            o_q = i_d; @
        }
    }
}
"#,
    ),
    (
        "intf",
        r#"interface GenI { @
    var valid: logic   ; @
    var data : logic<8>;
    modport mst { @
        valid: output, @
        data : output,
    }
    modport slv {
        ..converse(mst) @
    }
} @

module GenE (
    a: modport GenI::mst, @
    b: modport GenI::slv,
) {
    assign a.valid = b.valid; @
    assign a.data  = b.data @ ;
}
"#,
    ),
    (
        "wrap",
        r#"module GenW (
    aaaaaaaa: input  logic<16>, @
    bbbbbbbb: input  logic<16>,
    cccccccc: input  logic<16>,
    yyyyyyyy: output logic<16>,
) {
    assign yyyyyyyy = aaaaaaaa + bbbbbbbb @ + cccccccc + (aaaaaaaa & bbbbbbbb) @ + (bbbbbbbb | cccccccc) + (aaaaaaaa ^ cccccccc); @
    let _x: logic<16> = if aaaaaaaa == bbbbbbbb @ ? cccccccc : if bbbbbbbb == cccccccc ? aaaaaaaa @ : bbbbbbbb;
    let _z: logic<16> = {aaaaaaaa[7:0], @ bbbbbbbb[7:0]} + {cccccccc[3:0] repeat 4}; @
}
"#,
    ),
];

fn generated_designs() -> Vec<Design> {
    let mut out = vec![];
    for (bname, base) in BASES {
        let slots: Vec<usize> = base.match_indices('@').map(|(i, _)| i).collect();
        // variant without comments
        let fill = |which: Option<(usize, &str)>| -> String {
            let mut s = String::new();
            let mut k = 0;
            let mut prev = 0;
            for at in &slots {
                s.push_str(&base[prev..*at]);
                if let Some((w, text)) = which {
                    if w == k {
                        s.push_str(text);
                    }
                }
                prev = at + 1;
                k += 1;
            }
            s.push_str(&base[prev..]);
            s
        };
        out.push(Design {
            name: format!("gen:{bname}:plain"),
            files: vec![(PathBuf::from(format!("gen_{bname}.veryl")), fill(None))],
            generated: true,
        });
        for k in 0..slots.len() {
            for (cname, ctext) in COMMENT_KINDS {
                out.push(Design {
                    name: format!("gen:{bname}:slot{k}:{cname}"),
                    files: vec![(PathBuf::from(format!("gen_{bname}.veryl")), fill(Some((k, ctext))))],
                    generated: true,
                });
            }
        }
    }
    out
}

const SKIP_TESTCASES: &[(&str, &str)] = &[
    ("25_dependency_1", "needs fetched git dependencies (offline sandbox)"),
    ("25_dependency_2", "needs fetched git dependencies (offline sandbox)"),
    ("68_std_1", "needs the std project resolved as dependency"),
    ("68_std_2", "needs the std project resolved as dependency"),
];

fn testcase_designs() -> (Vec<Design>, Vec<(String, String)>) {
    let dir = repo_root().join("testcases/veryl");
    let mut names: Vec<String> = vec![];
    if let Ok(rd) = std::fs::read_dir(&dir) {
        for e in rd.flatten() {
            let p = e.path();
            if p.extension().and_then(|x| x.to_str()) == Some("veryl") {
                names.push(p.file_stem().unwrap().to_string_lossy().to_string());
            }
        }
    }
    names.sort();
    let mut out = vec![];
    let mut skipped = vec![];
    for n in &names {
        if let Some((_, why)) = SKIP_TESTCASES.iter().find(|(x, _)| x == n) {
            skipped.push((n.clone(), why.to_string()));
            continue;
        }
        let read = |x: &str| -> (PathBuf, String) {
            let p = dir.join(format!("{x}.veryl"));
            let t = std::fs::read_to_string(&p).unwrap_or_default();
            (p, t)
        };
        let mut files = vec![];
        // the pair 84_package_self_ref_{1,2} is analysed together, as in crates/tests
        if n == "84_package_self_ref_1" {
            files.push(read("84_package_self_ref_2"));
        } else if n == "84_package_self_ref_2" {
            files.push(read("84_package_self_ref_1"));
        }
        files.push(read(n));
        out.push(Design {
            name: format!("testcase:{n}"),
            files,
            generated: false,
        });
    }
    (out, skipped)
}

// ------------------------------------------------------------------------------------------
// configurations

#[derive(Clone, Copy, Debug, PartialEq, Eq)]
pub struct Cfg {
    vertical_align: bool,
    max_width: usize,
    strip_comments: bool,
    windows: bool,
}

impl Cfg {
    fn json(&self) -> Value {
        json!({"vertical_align": self.vertical_align, "max_width": self.max_width,
               "strip_comments": self.strip_comments, "newline_style": if self.windows {"windows"} else {"unix"}})
    }
    fn toml(&self) -> String {
        format!(
            r#"[project]
name    = "veryl_testcase"
version = "0.1.6"

[build]
clock_type       = "posedge"
reset_type       = "async_low"
reset_low_suffix = "_n"
filelist_type    = "absolute"
sources          = ["testcases/veryl"]
target           = {{type = "directory", path = "testcases/sv"}}
sourcemap_target = {{type = "directory", path = "testcases/map"}}
strip_comments   = {}

[format]
indent_width   = 4
max_width      = {}
vertical_align = {}
newline_style  = "{}"
"#,
            self.strip_comments,
            self.max_width,
            self.vertical_align,
            if self.windows { "windows" } else { "unix" }
        )
    }
}

fn all_cfgs() -> Vec<Cfg> {
    let mut v = vec![];
    for vertical_align in [true, false] {
        for max_width in [120usize, 40] {
            for strip_comments in [false, true] {
                for windows in [false, true] {
                    v.push(Cfg {
                        vertical_align,
                        max_width,
                        strip_comments,
                        windows,
                    });
                }
            }
        }
    }
    v
}

// ------------------------------------------------------------------------------------------
// running the real tool chain

pub struct Emitted {
    pub sv: String,
    pub map: Vec<u8>,
}

/// Parses and analyses the design once (fresh thread: analyzer state is thread-local), then emits
/// the file under test once per configuration (calling sequence of cmd_build.rs). The first
/// configuration is emitted a second time at the end; its result is returned as an extra element
/// so the caller can verify that repeated emission on one analysis is reproducible.
fn emit_all(design: &Design, cfgs: &[Cfg], repeat_first: bool) -> Result<Vec<Result<Emitted, String>>, String> {
    let design = design.clone();
    let cfgs: Vec<Cfg> = cfgs.to_vec();
    run_isolated(256 << 20, move || -> Result<Vec<Result<Emitted, String>>, String> {
        let cfg = cfgs[0];
        use veryl_analyzer::{Analyzer, Context};
        use veryl_emitter::Emitter;
        use veryl_metadata::Metadata;
        use veryl_parser::Parser;
        let metadata = Metadata::from_str(&cfg.toml()).map_err(|e| format!("metadata: {e}"))?;
        let mut parsed = vec![];
        for (path, text) in &design.files {
            let p = Parser::parse(text, path).map_err(|e| format!("parse error: {e}"))?;
            parsed.push(p);
        }
        let is_err = |e: &veryl_analyzer::AnalyzerError| -> bool {
            use miette::Diagnostic;
            !matches!(e.severity(), Some(miette::Severity::Warning) | Some(miette::Severity::Advice))
        };
        let prj = metadata.project.name.clone();
        let mut errors: Vec<String> = vec![];
        let analyzer = Analyzer::new(&metadata);
        for p in &parsed {
            for e in analyzer.analyze_pass1(&prj, &p.veryl) {
                if is_err(&e) {
                    errors.push(format!("{e}"));
                }
            }
        }
        for e in Analyzer::analyze_post_pass1() {
            if is_err(&e) {
                errors.push(format!("{e}"));
            }
        }
        let mut context = Context::default();
        for p in &parsed {
            for e in analyzer.analyze_pass2(&p.veryl, &mut context, None) {
                if is_err(&e) {
                    errors.push(format!("{e}"));
                }
            }
        }
        if !errors.is_empty() {
            return Err(format!("analyzer: {}", errors.join(" | ")));
        }
        let (src, text) = design.files.last().unwrap();
        let stem = src.file_stem().unwrap().to_string_lossy().to_string();
        let dst = PathBuf::from(format!("/nonexistent/sv/{stem}.sv"));
        let map = PathBuf::from(format!("/nonexistent/map/{stem}.sv.map"));
        let mut out = vec![];
        for c in cfgs.iter().chain(if repeat_first { Some(&cfgs[0]) } else { None }) {
            let r = std::panic::catch_unwind(std::panic::AssertUnwindSafe(|| -> Result<Emitted, String> {
                let metadata = Metadata::from_str(&c.toml()).map_err(|e| format!("metadata: {e}"))?;
                let mut emitter = Emitter::new(&metadata, &prj, src, &dst, &map);
                emitter.emit(&parsed.last().unwrap().veryl, text);
                let sv = emitter.as_str().to_string();
                let sm = emitter.source_map();
                sm.set_source_content(text);
                let bytes = sm.to_bytes().map_err(|e| format!("to_bytes: {e}"))?;
                Ok(Emitted { sv, map: bytes })
            }));
            match r {
                Ok(r) => out.push(r),
                Err(p) => {
                    // analyzer / emitter state may be half-consumed now: stop this batch
                    let msg = format!("PANIC in emitter: {} at {}", panic_message(p), take_panic_loc().unwrap_or_default());
                    if cfgs.len() == 1 {
                        out.push(Err(msg));
                        break;
                    }
                    return Err(msg);
                }
            }
        }
        Ok(out)
    })
    .map_err(|p| format!("PANIC {p}"))?
}

// ------------------------------------------------------------------------------------------
// raw VLQ reader (independent of the sourcemap crate)

#[derive(Clone, Debug, PartialEq, Eq)]
pub struct RawEntry {
    dst_line: u32,
    dst_col: i64,
    src_line: i64,
    src_col: i64,
    name: Option<String>,
}

fn decode_raw(map: &[u8]) -> Result<Vec<RawEntry>, String> {
    let v: Value = serde_json::from_slice(map).map_err(|e| format!("json: {e}"))?;
    let mappings = v["mappings"].as_str().ok_or("no mappings")?;
    let names: Vec<String> = v["names"]
        .as_array()
        .map(|a| a.iter().map(|x| x.as_str().unwrap_or("").to_string()).collect())
        .unwrap_or_default();
    let b64 = |c: u8| -> Option<i64> {
        Some(match c {
            b'A'..=b'Z' => (c - b'A') as i64,
            b'a'..=b'z' => (c - b'a') as i64 + 26,
            b'0'..=b'9' => (c - b'0') as i64 + 52,
            b'+' => 62,
            b'/' => 63,
            _ => return None,
        })
    };
    let mut out = vec![];
    let (mut src_line, mut src_col, mut name_idx, mut _src_idx) = (0i64, 0i64, 0i64, 0i64);
    for (li, l) in mappings.split(';').enumerate() {
        let mut dst_col = 0i64;
        if l.is_empty() {
            continue;
        }
        for seg in l.split(',') {
            let mut fields = vec![];
            let (mut cur, mut shift) = (0i64, 0u32);
            for c in seg.bytes() {
                let d = b64(c).ok_or("bad base64 digit")?;
                cur |= (d & 31) << shift;
                if d & 32 != 0 {
                    shift += 5;
                } else {
                    let neg = cur & 1 == 1;
                    let val = cur >> 1;
                    fields.push(if neg { -val } else { val });
                    cur = 0;
                    shift = 0;
                }
            }
            if fields.is_empty() {
                continue;
            }
            dst_col += fields[0];
            let mut name = None;
            if fields.len() >= 4 {
                _src_idx += fields[1];
                src_line += fields[2];
                src_col += fields[3];
            }
            if fields.len() >= 5 {
                name_idx += fields[4];
                name = names.get(name_idx as usize).cloned();
            }
            out.push(RawEntry {
                dst_line: li as u32,
                dst_col,
                src_line,
                src_col,
                name,
            });
        }
    }
    Ok(out)
}

// ------------------------------------------------------------------------------------------
// oracle

#[derive(Default)]
struct Stats {
    entries: u64,
    entries_comment: u64,
    entries_multiline_name: u64,
    entries_after_multibyte_dst: u64,
    entries_after_multibyte_src: u64,
    lines_with_source_ident: u64,
    out_lines: u64,
    scanner_unknown_chars: u64,
    src_kind_differs: u64,
    entryless_lines_with_only_synthesised_identifiers: u64,
    start_token_entries: u64,
    entries_empty_name: u64,
    lines_covered_by_multiline_entry: u64,
}

struct Found {
    sig: String,
    what: String,
    expected: Value,
    observed: Value,
}

const SV_KEYWORDS: &[&str] = &[
    "module", "endmodule", "input", "output", "inout", "logic", "var", "assign", "always_comb", "always_ff", "begin", "end", "if",
    "else", "case", "endcase", "default", "posedge", "negedge", "package", "endpackage", "interface", "endinterface", "modport",
    "function", "endfunction", "return", "localparam", "parameter", "typedef", "enum", "struct", "packed", "union", "import",
    "export", "for", "generate", "endgenerate", "genvar", "initial", "final", "bit", "int", "longint", "shortint", "byte", "string",
    "signed", "unsigned", "automatic", "static", "void", "inside", "unique", "unique0", "priority", "wire", "tri", "type", "real",
    "shortreal", "integer", "time", "ref", "const", "bind", "let", "casez", "casex", "repeat",
];

fn check_map(src: &str, em: &Emitted, st: &mut Stats) -> Vec<Found> {
    let mut out: Vec<Found> = vec![];
    let sv = &em.sv;
    // --- decode twice
    let raw = match decode_raw(&em.map) {
        Ok(r) => r,
        Err(e) => {
            out.push(Found {
                sig: "C13:map-not-decodable".into(),
                what: format!("raw mappings cannot be decoded: {e}"),
                expected: json!("valid source map v3"),
                observed: json!(String::from_utf8_lossy(&em.map[..em.map.len().min(400)])),
            });
            return out;
        }
    };
    match sourcemap::SourceMap::from_slice(&em.map) {
        Ok(sm) => {
            let toks: Vec<RawEntry> = sm
                .tokens()
                .map(|t| RawEntry {
                    dst_line: t.get_dst_line(),
                    dst_col: t.get_dst_col() as i64,
                    src_line: t.get_src_line() as i64,
                    src_col: t.get_src_col() as i64,
                    name: t.get_name().map(|x| x.to_string()),
                })
                .collect();
            let key = |e: &RawEntry| (e.dst_line, e.dst_col, e.src_line, e.src_col, e.name.clone());
            let mut a: Vec<_> = raw.iter().map(key).collect();
            let mut b: Vec<_> = toks.iter().map(key).collect();
            a.sort();
            b.sort();
            let same = a == b;
            if !same {
                out.push(Found {
                    sig: "C13:decoders-disagree".into(),
                    what: format!("sourcemap crate decodes {} entries, raw VLQ reader {}", toks.len(), raw.len()),
                    expected: json!(raw.len()),
                    observed: json!(toks.len()),
                });
            }
        }
        Err(e) => {
            out.push(Found {
                sig: "C13:map-not-decodable".into(),
                what: format!("sourcemap crate rejects the map: {e}"),
                expected: json!("valid source map v3"),
                observed: json!(null),
            });
            return out;
        }
    }

    // --- order
    for w in raw.windows(2) {
        if (w[1].dst_line, w[1].dst_col) < (w[0].dst_line, w[0].dst_col) {
            out.push(Found {
                sig: "C13:entries-not-ordered".into(),
                what: format!("entry at {}:{} follows entry at {}:{}", w[1].dst_line, w[1].dst_col, w[0].dst_line, w[0].dst_col),
                expected: json!("non-decreasing output positions"),
                observed: json!([w[0].dst_line, w[0].dst_col, w[1].dst_line, w[1].dst_col]),
            });
            break;
        }
    }

    // --- text tables
    let sc = scan(src);
    st.scanner_unknown_chars += sc.unknown_chars as u64;
    let mut line_start: Vec<usize> = vec![0];
    for (i, b) in sv.bytes().enumerate() {
        if b == b'\n' {
            line_start.push(i + 1);
        }
    }
    let line_text = |l: usize| -> &str {
        let s = line_start[l];
        let e = if l + 1 < line_start.len() { line_start[l + 1] - 1 } else { sv.len() };
        &sv[s..e]
    };
    let src_lines: Vec<&str> = src.split('\n').collect();
    let n_lines = line_start.len();
    // output lines that begin inside a block comment (used only to classify failures)
    let mut starts_in_block = vec![false; n_lines];
    {
        let b = sv.as_bytes();
        let (mut i, mut l) = (0usize, 0usize);
        let mut state = 0u8; // 0 code, 1 line comment, 2 block comment, 3 string
        while i < b.len() {
            let c = b[i];
            if c == b'\n' {
                l += 1;
                if state == 1 {
                    state = 0;
                }
                if l < n_lines {
                    starts_in_block[l] = state == 2;
                }
                i += 1;
                continue;
            }
            match state {
                0 => {
                    if c == b'/' && i + 1 < b.len() && b[i + 1] == b'/' {
                        state = 1;
                        i += 1;
                    } else if c == b'/' && i + 1 < b.len() && b[i + 1] == b'*' {
                        state = 2;
                        i += 1;
                    } else if c == b'"' {
                        state = 3;
                    }
                }
                2 => {
                    if c == b'*' && i + 1 < b.len() && b[i + 1] == b'/' {
                        state = 0;
                        i += 1;
                    }
                }
                3 => {
                    if c == b'\\' {
                        i += 1;
                    } else if c == b'"' {
                        state = 0;
                    }
                }
                _ => {}
            }
            i += 1;
        }
    }
    let mut has_entry = vec![false; n_lines];
    let mut seen_sig: HashSet<String> = HashSet::new();

    for e in &raw {
        st.entries += 1;
        let Some(name) = e.name.as_deref() else {
            out.push(Found {
                sig: "C13:entry-without-name".into(),
                what: format!("entry {}:{} has no name", e.dst_line, e.dst_col),
                expected: json!("name"),
                observed: json!(null),
            });
            continue;
        };
        let is_comment = name.starts_with("//") || name.starts_with("/*");
        if is_comment {
            st.entries_comment += 1;
        }
        if name.contains('\n') {
            st.entries_multiline_name += 1;
        }
        let kind = if is_comment { "comment" } else { "token" };
        // ---- dst side
        let l = e.dst_line as usize;
        let mut dst_ok = false;
        if name.is_empty() {
            // a token that is emitted as nothing (Start token, dropped trailing comma, ...): the
            // empty text "starts" at any position that exists in the output
            st.entries_empty_name += 1;
            if l < n_lines {
                has_entry[l] = true;
            }
            let exists = l < n_lines && e.dst_col >= 0 && (e.dst_col as usize) <= line_text(l).trim_end_matches('\r').chars().count();
            if !exists {
                let sig = "C13:dst-position-past-end-of-line:empty-name".to_string();
                if seen_sig.insert(sig.clone()) {
                    let lt = if l < n_lines { line_text(l) } else { "" };
                    out.push(Found {
                        sig,
                        what: format!(
                            "entry (dst {}:{}, 0-based) with empty name lies beyond the end of its output line {:?} ({} chars)",
                            e.dst_line, e.dst_col, lt, lt.chars().count()
                        ),
                        expected: json!("an output position that exists"),
                        observed: json!({"line": lt, "src": [e.src_line, e.src_col]}),
                    });
                }
            }
            dst_ok = true;
        }
        if !dst_ok && l < n_lines && e.dst_col >= 0 {
            for k in 0..=name.matches('\n').count() {
                if l + k < n_lines {
                    if k > 0 && !has_entry[l + k] {
                        st.lines_covered_by_multiline_entry += 1;
                    }
                    has_entry[l + k] = true;
                }
            }
            let lt = line_text(l);
            let col = e.dst_col as usize;
            let mut it = lt.char_indices();
            let byte_off = if col == 0 {
                Some(0)
            } else {
                it.nth(col - 1).map(|(b, c)| b + c.len_utf8())
            };
            if let Some(bo) = byte_off {
                let abs = line_start[l] + bo;
                // names never contain '\r'; a windows-style output keeps the source's own newlines inside tokens
                if sv[abs..].starts_with(name) {
                    dst_ok = true;
                    if lt[..bo].len() != lt[..bo].chars().count() {
                        st.entries_after_multibyte_dst += 1;
                    }
                }
            }
        }
        if !dst_ok {
            let lt = if l < n_lines { line_text(l) } else { "" };
            let first = name.split('\n').next().unwrap_or("");
            let col = e.dst_col.max(0) as usize;
            let conv = if lt.is_char_boundary(col.min(lt.len())) && col <= lt.len() && lt[col..].starts_with(first) {
                Some("byte-column")
            } else {
                let mut u = 0usize;
                let mut off = None;
                for (b, c) in lt.char_indices() {
                    if u == col {
                        off = Some(b);
                        break;
                    }
                    u += c.len_utf16();
                }
                if off.is_some_and(|o| lt[o..].starts_with(first)) { Some("utf16-column") } else { None }
            };
            let class = if let Some(c) = conv {
                c.to_string()
            } else if lt.contains(first) {
                // the name is on the line, elsewhere; does the line begin inside a block comment
                // (i.e. the entry follows the tail of a multi-line comment)?
                if l < n_lines && starts_in_block[l] {
                    "wrong-column:same-line-after-multiline-comment".to_string()
                } else {
                    "wrong-column".to_string()
                }
            } else if sv.contains(name) {
                "wrong-line".to_string()
            } else {
                "name-absent-from-output".to_string()
            };
            // one root cause, one signature: everything after the tail of a multi-line comment
            let sig = if class.ends_with("same-line-after-multiline-comment") {
                format!("C13:dst-name-mismatch:{class}")
            } else {
                format!("C13:dst-name-mismatch:{kind}:{class}")
            };
            if seen_sig.insert(sig.clone()) {
                out.push(Found {
                    sig,
                    what: format!(
                        "entry (dst {}:{}, 0-based) names {:?} but the output line reads {:?}",
                        e.dst_line, e.dst_col, name, lt
                    ),
                    expected: json!(format!("output text at that position starts with {name:?}")),
                    observed: json!({"line": lt, "src": [e.src_line, e.src_col]}),
                });
            }
        }
        // ---- src side
        let key = (e.src_line.max(0) as u32, e.src_col.max(0) as u32);
        // the zero-length `Start` token of veryl.par starts at 1:1 of every file
        let is_start_token = name.is_empty() && (e.src_line, e.src_col) == (0, 0) && (e.dst_line, e.dst_col) == (0, 0);
        if is_start_token {
            st.start_token_entries += 1;
        } else if e.src_line < 0 || e.src_col < 0 || !sc.chars.contains_key(&key) {
            let sl = src_lines.get(key.0 as usize).copied().unwrap_or("");
            let class = if sc.bytes.contains(&key) || (is_comment && sc.comment_run_bytes.contains(&key)) {
                "byte-column"
            } else if sc.utf16.contains(&key) {
                "utf16-column"
            } else {
                "not-a-start"
            };
            let sig = format!("C13:src-not-token-start:{kind}:{class}");
            if seen_sig.insert(sig.clone()) {
                out.push(Found {
                    sig,
                    what: format!(
                        "entry for {:?} points at source {}:{} (0-based, char column), which is not the start of a token or comment; source line: {:?}",
                        name, e.src_line, e.src_col, sl
                    ),
                    expected: json!("start of a token or comment"),
                    observed: json!({"src_line": e.src_line, "src_col": e.src_col, "line": sl}),
                });
            }
        } else {
            let sl = src_lines.get(key.0 as usize).copied().unwrap_or("");
            let prefix: String = sl.chars().take(key.1 as usize).collect();
            if prefix.len() != prefix.chars().count() {
                st.entries_after_multibyte_src += 1;
            }
            // (not part of the statement, counted only) does a comment entry point at a comment?
            let k = sc.chars[&key];
            if !name.is_empty() && (k == StartKind::Comment) != is_comment {
                st.src_kind_differs += 1;
            }
        }
    }

    // --- coverage: lines showing an identifier of the source
    // pass 1: words of every output line outside comments / strings / literals / macros
    let mut in_block = false;
    let mut line_words: Vec<Vec<String>> = Vec::with_capacity(n_lines);
    let mut out_count: HashMap<String, usize> = HashMap::new();
    for l in 0..n_lines {
        st.out_lines += 1;
        let lt = line_text(l);
        // strip comments / strings of the output line (block comments may span lines)
        let mut code = String::new();
        let cs: Vec<char> = lt.chars().collect();
        let mut i = 0;
        while i < cs.len() {
            if in_block {
                if cs[i] == '*' && i + 1 < cs.len() && cs[i + 1] == '/' {
                    in_block = false;
                    i += 2;
                } else {
                    i += 1;
                }
                continue;
            }
            if cs[i] == '/' && i + 1 < cs.len() && cs[i + 1] == '/' {
                break;
            }
            if cs[i] == '/' && i + 1 < cs.len() && cs[i + 1] == '*' {
                in_block = true;
                i += 2;
                continue;
            }
            if cs[i] == '"' {
                i += 1;
                while i < cs.len() && cs[i] != '"' {
                    if cs[i] == '\\' {
                        i += 1;
                    }
                    i += 1;
                }
                i += 1;
                code.push(' ');
                continue;
            }
            code.push(cs[i]);
            i += 1;
        }
        let mut words: Vec<String> = vec![];
        let mut w = String::new();
        let mut prev = ' ';
        for c in code.chars().chain(std::iter::once(' ')) {
            if is_word(c) && !(w.is_empty() && (c.is_ascii_digit() || c == '$')) {
                if w.is_empty() && (prev == '\'' || prev == '`' || prev == '$') {
                    // part of a literal / macro / system task
                    prev = c;
                    w.push('\u{1}');
                    continue;
                }
                w.push(c);
            } else {
                if !w.is_empty() && !w.starts_with('\u{1}') && !SV_KEYWORDS.contains(&w.as_str()) && sc.idents.contains_key(&w) {
                    *out_count.entry(w.clone()).or_insert(0) += 1;
                    words.push(w.clone());
                }
                w.clear();
            }
            prev = c;
        }
        line_words.push(words);
    }
    // pass 2: a line that shows a source identifier needs an entry. An identifier that occurs more
    // often in the output than as a token of the source has copies synthesised by the emitter
    // (inferred types, expanded modports ...) which are not "mapped identifiers"; a line showing
    // only such identifiers is counted, not judged.
    for l in 0..n_lines {
        if line_words[l].is_empty() {
            continue;
        }
        st.lines_with_source_ident += 1;
        if has_entry[l] {
            continue;
        }
        let attributable: Vec<&String> =
            line_words[l].iter().filter(|w| out_count[*w] <= sc.idents.get(*w).copied().unwrap_or(0)).collect();
        if attributable.is_empty() {
            st.entryless_lines_with_only_synthesised_identifiers += 1;
            continue;
        }
        let sig = "C13:line-with-source-identifier-has-no-entry".to_string();
        if seen_sig.insert(sig.clone()) {
            out.push(Found {
                sig,
                what: format!(
                    "output line {} (0-based) shows source identifier {:?} but no map entry lies on it: {:?}",
                    l,
                    attributable[0],
                    line_text(l)
                ),
                expected: json!(">= 1 entry on the line"),
                observed: json!(0),
            });
        }
    }
    out
}

// ------------------------------------------------------------------------------------------

pub fn run(ctx: &Ctx) -> Report {
    let mut rep = Report::new(Level::Exploration);
    install_quiet_panic_hook();
    let budget = ctx.budget(40.0, 600.0);
    let (mut designs, skipped_tc) = testcase_designs();
    let n_testcases = designs.len();
    let gens = generated_designs();
    let n_generated_family = gens.len();
    // both tiers run the whole corpus; quick uses fewer configurations per design (see plan)
    designs.extend(gens);
    let cfgs: Vec<Cfg> = all_cfgs();
    // plan: per design the list of configurations (one analysis per design, one emission per cfg)
    let mut plan: Vec<(usize, Vec<Cfg>)> = vec![];
    for (i, d) in designs.iter().enumerate() {
        let sel: Vec<Cfg> = if ctx.thorough() {
            cfgs.clone()
        } else if !d.generated {
            // quick: 4 configurations in which every option value occurs twice
            [0usize, 7, 10, 13].iter().map(|k| cfgs[*k]).collect()
        } else if d.name.ends_with(":plain") {
            cfgs.clone()
        } else {
            // commented variants: the 8 configurations that keep comments
            cfgs.iter().copied().filter(|c| !c.strip_comments).collect()
        };
        plan.push((i, sel));
    }
    if ctx.seed != 0 && !plan.is_empty() {
        let k = (ctx.seed as usize) % plan.len();
        plan.rotate_left(k);
    }
    let cases_planned: usize = plan.iter().map(|(_, c)| c.len()).sum();

    struct CaseOut {
        idx: usize,
        cfg: Cfg,
        result: Result<(Vec<Found>, Stats, String), String>,
    }
    let capped = std::sync::atomic::AtomicBool::new(false);
    let reemit_differs = std::sync::Mutex::new(Vec::<String>::new());
    let fresh_analysis = std::sync::Mutex::new(Vec::<String>::new());
    let results: Vec<Vec<CaseOut>> = par_map(&plan, |(i, sel)| {
        if ctx.elapsed() > budget {
            capped.store(true, std::sync::atomic::Ordering::Relaxed);
            return vec![];
        }
        let d = &designs[*i];
        let mut first = emit_all(d, sel, true);
        if matches!(&first, Err(e) if e.starts_with("PANIC")) && sel.len() > 0 {
            // some designs cannot be emitted twice on one analysis (state consumed by the first
            // emission): fall back to a fresh analysis per configuration, as the CLI does
            fresh_analysis.lock().unwrap().push(d.name.clone());
            let mut v = vec![];
            for c in sel {
                match emit_all(d, &[*c], false) {
                    Ok(mut x) => v.push(x.swap_remove(0)),
                    Err(e) => v.push(Err(e)),
                }
            }
            let dup = v[0].as_ref().map(|e| Emitted { sv: e.sv.clone(), map: e.map.clone() }).map_err(|e| e.clone());
            v.push(dup);
            first = Ok(v);
        }
        match first {
            Err(e) => vec![CaseOut {
                idx: *i,
                cfg: sel[0],
                result: Err(e),
            }],
            Ok(mut ems) => {
                // reproducibility of repeated emission on one analysis (machinery guard)
                if let (Some(Ok(last)), Some(Ok(first))) = (ems.last(), ems.first()) {
                    if last.sv != first.sv || last.map != first.map {
                        reemit_differs.lock().unwrap().push(d.name.clone());
                    }
                }
                ems.pop();
                ems.into_iter()
                    .zip(sel.iter())
                    .map(|(r, cfg)| CaseOut {
                        idx: *i,
                        cfg: *cfg,
                        result: r.map(|em| {
                            let mut st = Stats::default();
                            let f = check_map(&d.files.last().unwrap().1, &em, &mut st);
                            (f, st, em.sv)
                        }),
                    })
                    .collect()
            }
        }
    });

    let mut tot = Stats::default();
    let mut evaluations = 0u64;
    let mut nontrivial = 0u64;
    let mut rejected: BTreeMap<String, String> = BTreeMap::new();
    let mut panics: Vec<String> = vec![];
    let mut emitter_panics = 0u64;
    let mut emitter_panic_sites: BTreeMap<String, (u64, Value)> = BTreeMap::new();
    let mut viol: BTreeMap<String, (u64, usize, Violation)> = BTreeMap::new();
    let mut distinct_sv: HashSet<String> = HashSet::new();
    let mut ref_match = 0u64;
    let mut ref_total = 0u64;
    let mut designs_ok: HashSet<usize> = HashSet::new();
    for r in results.into_iter().flatten() {
        let d = &designs[r.idx];
        match r.result {
            Err(e) => {
                if e.starts_with("PANIC in emitter") {
                    // (design, configuration) does not build: outside the quantifier of C13; it is a
                    // C11 matter and is kept visible in the evidence
                    emitter_panics += 1;
                    let loc = e.split(" at ").last().unwrap_or("?").to_string();
                    let x = emitter_panic_sites.entry(loc).or_insert((0u64, json!(null)));
                    x.0 += 1;
                    if x.1.is_null() {
                        x.1 = json!({"design": d.name, "config": r.cfg.json(), "message": e});
                    }
                } else if e.starts_with("PANIC") {
                    if panics.len() < 5 {
                        panics.push(format!("{}: {e}", d.name));
                    }
                } else {
                    rejected.entry(d.name.clone()).or_insert(e.chars().take(300).collect());
                }
            }
            Ok((found, st, sv)) => {
                evaluations += 1;
                designs_ok.insert(r.idx);
                if st.entries > 0 {
                    nontrivial += 1;
                }
                tot.entries += st.entries;
                tot.entries_comment += st.entries_comment;
                tot.entries_multiline_name += st.entries_multiline_name;
                tot.entries_after_multibyte_dst += st.entries_after_multibyte_dst;
                tot.entries_after_multibyte_src += st.entries_after_multibyte_src;
                tot.lines_with_source_ident += st.lines_with_source_ident;
                tot.out_lines += st.out_lines;
                tot.scanner_unknown_chars += st.scanner_unknown_chars;
                tot.src_kind_differs += st.src_kind_differs;
                tot.entryless_lines_with_only_synthesised_identifiers += st.entryless_lines_with_only_synthesised_identifiers;
                tot.start_token_entries += st.start_token_entries;
                tot.entries_empty_name += st.entries_empty_name;
                tot.lines_covered_by_multiline_entry += st.lines_covered_by_multiline_entry;
                distinct_sv.insert(hash_hex(sv.as_bytes()));
                // machinery cross-check: default configuration reproduces the committed .sv
                if !d.generated && r.cfg == all_cfgs()[0] {
                    let stem = d.files.last().unwrap().0.file_stem().unwrap().to_string_lossy().to_string();
                    if let Ok(reference) = std::fs::read_to_string(repo_root().join(format!("testcases/sv/{stem}.sv"))) {
                        ref_total += 1;
                        // the committed file's link line names the committed map path
                        let strip = |s: &str| s.lines().filter(|l| !l.starts_with("//# sourceMappingURL=")).collect::<Vec<_>>().join("\n");
                        if strip(&reference) == strip(&sv) {
                            ref_match += 1;
                        }
                    }
                }
                for f in found {
                    let size = d.files.last().unwrap().1.len();
                    let mk = || Violation {
                        signature: f.sig.clone(),
                        what: f.what.clone(),
                        case: json!({"design": d.name, "files": d.files.iter().map(|(p, t)| json!({"path": p, "text": t})).collect::<Vec<_>>(), "config": r.cfg.json()}),
                        expected: f.expected.clone(),
                        observed: f.observed.clone(),
                    };
                    match viol.get_mut(&f.sig) {
                        None => {
                            viol.insert(f.sig.clone(), (1, size, mk()));
                        }
                        Some(x) => {
                            x.0 += 1;
                            if size < x.1 {
                                x.1 = size;
                                x.2 = mk();
                            }
                        }
                    }
                }
            }
        }
    }
    let capped = capped.load(std::sync::atomic::Ordering::Relaxed);
    let gen_rejected: Vec<(&String, &String)> = rejected.iter().filter(|(k, _)| k.starts_with("gen:")).collect();

    rep.set("designs_in_corpus", designs.len() as u64);
    rep.set("testcase_designs", n_testcases as u64);
    rep.set("generated_family_size", n_generated_family as u64);
    rep.set("generated_designs_run", (designs.len() - n_testcases) as u64);
    rep.set("configurations", cfgs.len() as u64);
    rep.set("cases_planned", cases_planned as u64);
    rep.set("evaluations", evaluations);
    rep.set("distinct_nontrivial", nontrivial);
    rep.set("designs_built", designs_ok.len() as u64);
    rep.set("designs_rejected_by_veryl", rejected.len() as u64);
    rep.set("generated_designs_rejected", gen_rejected.len() as u64);
    rep.set(
        "rejected",
        json!(rejected.iter().take(12).map(|(k, v)| json!([k, v])).collect::<Vec<_>>()),
    );
    rep.set(
        "testcases_skipped",
        json!(skipped_tc.iter().map(|(a, b)| json!([a, b])).collect::<Vec<_>>()),
    );
    rep.set("distinct_outputs", distinct_sv.len() as u64);
    rep.set("map_entries_checked", tot.entries);
    rep.set("comment_entries", tot.entries_comment);
    rep.set("multiline_name_entries", tot.entries_multiline_name);
    rep.set("entries_after_multibyte_text_in_output_line", tot.entries_after_multibyte_dst);
    rep.set("entries_after_multibyte_text_in_source_line", tot.entries_after_multibyte_src);
    rep.set("output_lines", tot.out_lines);
    rep.set("output_lines_showing_source_identifier", tot.lines_with_source_ident);
    rep.set("scanner_unknown_chars", tot.scanner_unknown_chars);
    rep.set("entryless_lines_with_only_synthesised_identifiers_not_judged", tot.entryless_lines_with_only_synthesised_identifiers);
    rep.set("empty_name_entries", tot.entries_empty_name);
    rep.set("start_token_entries", tot.start_token_entries);
    rep.set("output_lines_covered_only_by_a_multiline_entry", tot.lines_covered_by_multiline_entry);
    rep.set("entries_whose_source_kind_differs_from_name_kind_not_a_verdict", tot.src_kind_differs);
    rep.set("reference_sv_reproduced", ref_match);
    rep.set("reference_sv_compared", ref_total);
    {
        let mut v = fresh_analysis.lock().unwrap().clone();
        v.sort();
        rep.set("designs_needing_a_fresh_analysis_per_emission", json!(v));
    }
    rep.set("cases_skipped_emitter_panicked", emitter_panics);
    rep.set(
        "emitter_panic_sites",
        json!(emitter_panic_sites.iter().map(|(k, (n, ex))| json!({"at": k, "cases": n, "example": ex})).collect::<Vec<_>>()),
    );
    rep.set("capped_by_budget", capped);
    rep.set("exhaustive", !capped);
    rep.set(
        "rule",
        "a (design, configuration) case is non-trivial when the design passes the analyzer without errors and its map has at least one entry; every entry of every map is checked on both sides",
    );
    let mut vc = serde_json::Map::new();
    for (sig, (n, _, _)) in &viol {
        vc.insert(sig.clone(), json!(n));
    }
    rep.set("violation_cases_by_signature", Value::Object(vc));
    if let Some(d) = designs.iter().find(|d| d.name.contains("slot1:multibyte-block")) {
        rep.sample(json!({"design": d.name, "text": d.files[0].1}));
    }
    rep.assume("map columns are read as 0-based char (Unicode scalar) columns on both sides, the convention of render.rs State.col and of SourceMap::add; entries that would be right in byte or UTF-16 columns are classified in the signature");
    rep.assume("token starts of the source come from an own scanner following the terminals and scanner modes of veryl.par");
    rep.assume("the zero-length Start token of veryl.par (entry with empty name, 0:0 -> 0:0) counts as a token starting at the beginning of the file; other empty-name entries (tokens emitted as nothing, e.g. a dropped trailing comma) must lie at an existing output position and at a real token start");
    rep.assume("line coverage: an identifier that occurs more often in the output than as a token of the source has emitter-synthesised copies (inferred types ...); an entry-less output line showing only such identifiers is counted, not judged");
    rep.assume("an output line inside a multi-line entry name (embed body, multi-line comment) is covered by that entry");

    for p in &panics {
        rep.machinery(format!("tool chain panicked: {p}"));
    }
    {
        let v = reemit_differs.lock().unwrap();
        if !v.is_empty() {
            rep.machinery(format!("emitting the same file twice on one analysis gave different results for {} designs, e.g. {}", v.len(), v[0]));
        }
    }
    for (_, (_, _, v)) in viol {
        rep.violation(v);
    }
    if emitter_panics * 50 > cases_planned as u64 {
        rep.machinery(format!("{emitter_panics} of {cases_planned} cases skipped because the emitter panicked"));
    }
    if emitter_panics > 0 {
        rep.notes.push(format!("{emitter_panics} (design, configuration) cases skipped: the emitter panicked (a C11 matter); see emitter_panic_sites"));
    }
    if evaluations == 0 || tot.entries == 0 {
        rep.machinery("vacuity guard: no map entry was checked");
    }
    if tot.entries_comment == 0 || tot.entries_multiline_name == 0 {
        rep.machinery("vacuity guard: no comment / multi-line entry was checked");
    }
    if tot.entries_after_multibyte_dst == 0 && tot.entries_after_multibyte_src == 0 {
        rep.machinery("vacuity guard: no entry follows multi-byte text on its line");
    }
    if ref_total > 0 && ref_match * 10 < ref_total * 9 {
        rep.machinery(format!("calling sequence does not reproduce the committed .sv files ({ref_match}/{ref_total})"));
    }
    if gen_rejected.len() * 20 > n_generated_family.max(1) {
        rep.machinery(format!("generator bug: {} generated designs rejected by veryl", gen_rejected.len()));
    }
    if tot.scanner_unknown_chars > 0 {
        rep.notes.push(format!("own scanner met {} characters it cannot classify", tot.scanner_unknown_chars));
    }
    rep
}

pub fn replay(doc: &Value) -> i32 {
    let files: Vec<(PathBuf, String)> = doc["case"]["files"]
        .as_array()
        .map(|a| {
            a.iter()
                .map(|f| (PathBuf::from(f["path"].as_str().unwrap_or("x.veryl")), f["text"].as_str().unwrap_or("").to_string()))
                .collect()
        })
        .unwrap_or_default();
    if files.is_empty() {
        eprintln!("no case.files in replay file");
        return 2;
    }
    let c = &doc["case"]["config"];
    let cfg = Cfg {
        vertical_align: c["vertical_align"].as_bool().unwrap_or(true),
        max_width: c["max_width"].as_u64().unwrap_or(120) as usize,
        strip_comments: c["strip_comments"].as_bool().unwrap_or(false),
        windows: c["newline_style"].as_str() == Some("windows"),
    };
    let d = Design {
        name: doc["case"]["design"].as_str().unwrap_or("replay").to_string(),
        files,
        generated: true,
    };
    let r = emit_all(&d, &[cfg], false).and_then(|mut v| v.swap_remove(0));
    match r {
        Err(e) => {
            println!("cannot build: {e}");
            2
        }
        Ok(em) => {
            let mut st = Stats::default();
            let found = check_map(&d.files.last().unwrap().1, &em, &mut st);
            println!("--- output\n{}", em.sv);
            if found.is_empty() {
                println!("case passes ({} entries)", st.entries);
                0
            } else {
                for f in found {
                    println!("still failing: {} — {}", f.sig, f.what);
                }
                1
            }
        }
    }
}

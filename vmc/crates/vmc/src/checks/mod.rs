//! Registry of property checks.

use crate::core::{Ctx, Report};

pub mod c01;
pub mod c02;
pub mod c03;
pub mod c04;
pub mod c05;
pub mod c06;
pub mod c06_catalogue;
pub mod c06_dbgnorm;
pub mod c07;
pub mod c08;
pub mod c09;
pub mod c10;
pub mod c11;
pub mod c12;
pub mod c13;
pub mod c14;
pub mod c15;
pub mod c16;
pub mod c17;
pub mod c18;
pub mod c19;
pub mod c20;
pub mod c22;
pub mod c23;
pub mod c24;
pub mod c25;
pub mod c26;
pub mod c26_svlex;
pub mod c27;
pub mod c28;
pub mod c29;
pub mod c30;
pub mod c31;
pub mod c32;
pub mod c33;
pub mod c34;
pub mod c35;
pub mod c35_guest;
pub mod c36;
pub mod df;
pub mod projgen;
pub mod robust_worker;
pub mod sf;
pub mod sveq;

#[path = "../lsp_client.rs"]
pub mod lsp_client;
#[path = "../e2.rs"]
pub mod e2;
#[path = "../gen_df.rs"]
pub mod gen_df;
#[path = "../simworker.rs"]
pub mod simworker;
#[path = "../simx.rs"]
pub mod simx;
#[path = "../gen_text.rs"]
pub mod gen_text;
#[path = "../gen_fmt.rs"]
pub mod gen_fmt;
#[path = "../gen_abs.rs"]
pub mod gen_abs;
#[path = "../gen_synth.rs"]
pub mod gen_synth;
#[path = "../r3_netlist.rs"]
pub mod r3_netlist;
#[path = "../gen_values.rs"]
pub mod gen_values;
#[path = "../gen_sim.rs"]
pub mod gen_sim;

pub type CheckFn = fn(&Ctx) -> Report;

pub fn registry() -> Vec<(&'static str, CheckFn)> {
    vec![
        ("C01", c01::run as CheckFn),
        ("C02", c02::run as CheckFn),
        ("C03", c03::run as CheckFn),
        ("C04", c04::run as CheckFn),
        ("C05", c05::run as CheckFn),
        ("C06", c06::run as CheckFn),
        ("C07", c07::run as CheckFn),
        ("C08", c08::run as CheckFn),
        ("C09", c09::run as CheckFn),
        ("C10", c10::run as CheckFn),
        ("C11", c11::run as CheckFn),
        ("C12", c12::run as CheckFn),
        ("C13", c13::run as CheckFn),
        ("C14", c14::run as CheckFn),
        ("C15", c15::run as CheckFn),
        ("C16", c16::run as CheckFn),
        ("C17", c17::run as CheckFn),
        ("C18", c18::run as CheckFn),
        ("C19", c19::run as CheckFn),
        ("C20", c20::run as CheckFn),
        ("C22", c22::run as CheckFn),
        ("C23", c23::run as CheckFn),
        ("C24", c24::run as CheckFn),
        ("C25", c25::run as CheckFn),
        ("C26", c26::run as CheckFn),
        ("C27", c27::run as CheckFn),
        ("C28", c28::run as CheckFn),
        ("C29", c29::run as CheckFn),
        ("C30", c30::run as CheckFn),
        ("C31", c31::run as CheckFn),
        ("C32", c32::run as CheckFn),
        ("C33", c33::run as CheckFn),
        ("C34", c34::run as CheckFn),
        ("C35", c35::run as CheckFn),
        ("C36", c36::run as CheckFn),
    ]
}

pub fn replay(path: &str) -> i32 {
    let Ok(text) = std::fs::read_to_string(path) else {
        eprintln!("cannot read {path}");
        return 2;
    };
    let Ok(doc) = serde_json::from_str::<serde_json::Value>(&text) else {
        eprintln!("cannot parse {path}");
        return 2;
    };
    match doc["property"].as_str().unwrap_or("") {
        "C01" => c01::replay(&doc),
        "C02" => c02::replay(&doc),
        "C03" => c03::replay(&doc),
        "C04" => c04::replay(&doc),
        "C06" => c06::replay(&doc),
        "C07" => c07::replay(&doc),
        "C08" => c08::replay(&doc),
        "C09" => c09::replay(&doc),
        "C10" => c10::replay(&doc),
        "C11" => c11::replay(&doc),
        "C12" => c12::replay(&doc),
        "C13" => c13::replay(&doc),
        "C14" => c14::replay(&doc),
        "C15" => c15::replay(&doc),
        "C16" => c16::replay(&doc),
        "C17" => c17::replay(&doc),
        "C18" => c18::replay(&doc),
        "C19" => c19::replay(&doc),
        "C20" => c20::replay(&doc),
        "C22" => c22::replay(&doc),
        "C23" => c23::replay(&doc),
        "C24" => c24::replay(&doc),
        "C25" => c25::replay(&doc),
        "C26" => c26::replay(&doc),
        "C27" => c27::replay(&doc),
        "C28" => c28::replay(&doc),
        "C30" => c30::replay(&doc),
        "C31" => c31::replay(&doc),
        "C32" => c32::replay(&doc),
        "C36" => c36::replay(&doc),
        "C29" => c29::replay(&doc),
        x => {
            eprintln!("no replay handler for property {x}; the case is in the file under \"case\"");
            2
        }
    }
}

pub fn worker(args: &[String]) -> i32 {
    match args.first().map(|x| x.as_str()) {
        Some("c31") => c31::worker(&args[1..]),
        Some("sim") => simworker::main(&args[1..]),
        Some("synth-probe") => c19::probe(&args[1..]),
        Some(kind @ ("parse" | "full" | "multi")) => {
            let (Some(inp), Some(outp)) = (args.get(1), args.get(2)) else {
                eprintln!("usage: vmc worker <kind> <in.json> <out.txt>");
                return 2;
            };
            match kind {
                "parse" => robust_worker::worker_loop(inp, outp, c10::worker_fn),
                "full" => robust_worker::worker_loop(inp, outp, c11::worker_fn),
                _ => robust_worker::worker_loop(inp, outp, c11::worker_multi),
            }
        }
        _ => {
            eprintln!("unknown worker");
            2
        }
    }
}
